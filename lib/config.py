"""Per-property configuration of the ./check driver (one file per property in lib/props/).

Each unit is one test function of one harness package, run as its own process
(and as several seed-sharded processes in the thorough tier).
  kind   rapid (default) | plain (enumeration / fixed battery) | py
  quick / thorough   number of rapid checks for that tier
  shards             number of seed shards in the thorough tier
"""
import glob
import importlib.util
import os

DEFAULT_TIMEOUT = {"quick": 600, "thorough": 3 * 3600}

PROPS = {}
for _p in sorted(glob.glob(os.path.join(os.path.dirname(os.path.abspath(__file__)), "props", "c*.py"))):
    _spec = importlib.util.spec_from_file_location("verif_prop_" + os.path.basename(_p)[:-3], _p)
    _m = importlib.util.module_from_spec(_spec)
    _spec.loader.exec_module(_m)
    PROPS[_m.ID] = _m.PROP
