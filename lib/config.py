"""Per-property configuration of the ./check driver.

Each unit is one test function of one harness package, run as its own process
(and as several seed-sharded processes in the thorough tier).
  kind   rapid (default) | plain (enumeration / fixed battery) | py
  quick / thorough   number of rapid checks for that tier
  shards             number of seed shards in the thorough tier
"""

DEFAULT_TIMEOUT = {"quick": 600, "thorough": 3 * 3600}

PROPS = {}

PROPS["C07"] = {
    "level": "exploration",
    "rule": ("sequences of request actions {NoOp, ModifyHeaders, ModifyRequest, GenerateRequest, EarlyResponse} "
             "/ response actions {NoOp, ModifyResponse, RetryRequest} of length 1-6 (rapid) and all kind sequences "
             "up to length 3 (request) / 4 (response) with conflicting fixed header maps (exhaustive units), folded "
             "exactly as getSPOEReqActions/getSPOERespActions/runOnRequest fold them and decoded from the SPOE "
             "encoding; a case is non-trivial when >=2 non-no-op actions edit the same header name with different "
             "values, or an early response is not in first position; distinct = distinct canonical JSON of the sequence"),
    "assumptions": [
        "header names are HTTP tokens and values visible ASCII without CR/LF (the line-based header encoding cannot carry them and no producer emits them)",
        "the fold is re-stated in the harness from the exported methods (EnsureRequestIsUpdated, ReqPrioritize, ReqToSpoeActions); the e2e unit covers the unexported fold in routing",
    ],
    "units": [
        {"pkg": "c07", "test": "TestRequestFoldRandom", "quick": 20000, "thorough": 200000, "shards": 8},
        {"pkg": "c07", "test": "TestResponseFoldRandom", "quick": 20000, "thorough": 200000, "shards": 8},
        {"pkg": "c07", "test": "TestRequestFoldExhaustive", "kind": "plain"},
        {"pkg": "c07", "test": "TestResponseFoldExhaustive", "kind": "plain"},
    ],
}
