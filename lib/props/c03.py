ID = "C03"

PROP = {
    "level": "exploration",
    "rule": ("1-6 flows whose URL patterns come from a pool of <=3 overlapping patterns (hosts h.com/api.h.com, segments a,b,c,{x}, length 0-3, optional trailing /*; now and then a flow spells {x} as {y}: such a flow - in the e2e unit the whole set - may be refused and is then not judged), "
             "each with independent optional method list, header, query-parameter and status-code constraints; 1-8 transactions derived from the patterns "
             "(parameters instantiated, then mutated: extra trailing segments, missing last segment, other literal, host only, other host) x method x header/query hit-or-miss "
             "x request/response with status. Unit 1 adds the flows to the real FilterTree (stub flows, real streamconfig.Filter) in 2-3 generated load orders and reads "
             "GetFlow; unit 2 writes the same filters as flow YAML, loads them with the real loader and reads the executed flows from the processor events. "
             "Non-trivial: >=2 configured patterns match the URL under the permissive reading. distinct = canonical JSON of flows+orders+transactions"),
    "assumptions": [
        "a required query parameter has the value '1', '2' or the empty value (a flag-style parameter: the key must be present, as '?q=' or '?q'); requests carry q=1|2|3, 'q=', a bare 'q', a query string without the key (page=2, Q=1, qq=1&page=) or none at all - a filter's query constraint holds only if the key is present and its first value is the required one",
        "required and sent header values come from one pool of letter-case variants, including spellings that are equal without regard to case although their UTF-8 lengths differ (stra\u00dfe / STRA\u1e9eE, 300k / 300 + Kelvin sign, \u017ft / ST) and near misses (strasse); header values are compared without regard to letter case, as the engine documents and implements (strings.EqualFold)",
        "the gateway's log level (LOG_LEVEL: off in three cases of eight, else error / info / debug / trace; what is logged is thrown away, what a log statement does to build its arguments happens) is a generated part of every case of TestFilterTreeSelection and TestEngineSelectionE2E: no answer may depend on it; a failing case reports its level",
        "unit TestSelectionThroughHandler: request transactions arrive as SPOE messages through routing.Handler of a real HandlingDataManager (the decoding of the message arguments is under test); the headers argument has the proxy's dump format (a CRLF-terminated line per header plus the closing empty line), with the constrained header also in upper case, on two lines with one value, or on two lines with different values (then flows that constrain it are not judged)",
        "sample_percentage (random) and JSONPath expressions (separate engine) are excluded",
        "a filter without a method list may or may not accept methods outside GET/POST/PUT/DELETE/PATCH (both readings accepted)",
        "a trailing /* may cover >=0 segments for 'selected only if accepted' and must cover >=1 for 'accepted implies selected'",
        "one path-parameter name per position (the loader rejects two different names at one position)",
    ],
    "units": [
        {"pkg": "c03", "test": "TestSelectionThroughHandler", "quick": 300, "thorough": 5000, "shards": 1},
        {"pkg": "c03", "test": "TestFilterTreeSelection", "quick": 4000, "thorough": 40000, "shards": 16},
        {"pkg": "c03", "test": "TestEngineSelectionE2E", "quick": 400, "thorough": 3000, "shards": 8},
        {"pkg": "c03", "test": "TestRegressionFixedDefects", "kind": "plain"},
    ],
    "technique": "property-based testing (rapid): differential against an independent segment-wise matcher (two-sided), metamorphic load-order invariance, e2e through the real loader with processor events",
    "level_text": ("generated overlapping filter sets are looked up in the real filter tree and compared, flow by flow, with an independent matcher in both directions "
                   "(selected => accepted; accepted and not shadowed by a more specific literal => selected), across several generated load orders, and end to end through "
                   "YAML loading and ExecuteFlow. Search, not proof"),
    "level_note": "unit 2 needs hook H2 (processor events); load order inside lunar's loader follows Go map order and is only controlled in unit 1",
    "design_ref": "DESIGN.md section 2, C03",
}
