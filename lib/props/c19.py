ID = "C19"

PROP = {
    "level": "exploration",
    "engine": "py-hypothesis-harness",
    "rule": ("(1) histories of up to 50 steps {call(outcome in ok / gateway error header / gateway connection error (raised as a class a hook registered or as a subclass of it, two levels deep) / application exception, "
             "destination allowed or filtered, call duration), advance(delta: absolute, cool-down +-{0, .125, .25, .5, 1}s, or to the expiry instant "
             "+-{0, .125, .25, 1}s), read of state_ok} against the real FailSafe built from the environment variables "
             "(threshold 1-5, cool-down 1-10 s) and used exactly like hooks/requests.py uses it; (2) the same histories issued as "
             "Session.request() calls through the real RequestsHook closure with stub requests/yarl modules and three filter configurations, "
             "where the stub gateway may first answer 0-3 times with its retry protocol (x-lunar-retry-after + x-lunar-sequence-id: 'send this again in n s') "
             "before the generated outcome, and the call is judged by how its last request through the gateway ended; "
             "(3) traffic-filter cases: LUNAR_BLOCK_LIST / LUNAR_ALLOW_LIST strings (absent, empty, valid, invalid, mixed), a generated resolver "
             "table (address, failure kind, fails-until step) and 1-5 queries whose destination is an IPv4 literal (range edges, private, "
             "public, special), an IPv6 literal, a name of the table, a list entry, a numeric form, or an ill-formed name. "
             "Non-trivial: a history in which the circuit was observed open and later observed closed again; a filter case with a destination "
             "address on the first/last address of 10/8, 127/8, 172.16/12, 192.168/16 or directly outside. distinct = canonical JSON of the case"),
    "assumptions": [
        "breaker unit: calls may overlap in time - one fail-safe is shared by every hooked request of the process, and a threaded application has several in flight. A call is split into its two halves (`with fs:` is __enter__ ... __exit__): begin reads the breaker's answer, other steps follow (calls, failures that trip the breaker, clock advances), end reports the outcome decided when the call began. Up to three calls are in flight; one rule builds the shape 'a call in flight through the gateway while others fail until the breaker trips, ends well during or after the cool-down, then the gateway fails once or twice'. A success of a call that went through the gateway clears the failure count whenever it ends; whether a failure reported while the breaker is open starts the cool-down again is left open (both readings kept)",
        "filter unit, metamorphic: a list decides by membership, so the same lists with every entry written twice (next to each other, and once more at the end) must give the same answer to every query; compared whenever neither filter raises",
        "the package __init__ files are replaced by empty shells (aiohttp/yarl/requests are not installed); fail_safe.py, traffic_filter.py, configuration.py, helpers.py, hooks/const.py, hooks/hook.py, hooks/helpers.py and hooks/requests.py run unchanged; _load_fail_safe and _build_traffic_filter_from_env_vars are extracted from the package __init__.py and executed, so the configuration path environment -> FailSafeConfig -> FailSafe is the package's own",
        "the clock is the module attribute `time` of fail_safe.py (plus time.time/monotonic while interceptor code runs), instants are multiples of 0.125 s; at now - trip == cool-down exactly both answers are accepted",
        "exceptions used as 'not from the gateway' are ValueError, RuntimeError, KeyError, a custom Exception and a custom BaseException; time-outs and OS-level connection errors are not used in that role because the statement does not say on which side they fall",
        "only the requests hook is driven; the aiohttp and tornado hooks use the same FailSafe/TrafficFilter objects but are not executed (libraries absent) - their share in the common FailSafe, one handle_on() registration each, is reproduced by the breaker unit (1-3 registrations in set_hooks() order, failures of any registered type)",
        "resolver = socket.gethostbyname replaced by a generated table; names that CPython's gethostbyname rejects while encoding its argument (IDNA) are passed to the real function, which fails before any lookup; no network access is possible (getaddrinfo & co. are guarded)",
        "per-request override header x-lunar-allow and explicitly allow-listed private addresses (README example) are treated as operator decisions outside the statement: only 'never raises' is checked for them; in the hook histories calls may carry the override (and a rule calls an excluded destination once with it and then without it): how the overridden call itself is routed is not judged, every call without the header is judged as ever - an override must not outlive its request",
        "completeness of the filter (public IPv4 destination, valid lists => forwarded) follows the package README, not the statement",
    ],
    "units": [
        {"kind": "py", "pkg": "c19", "script": "pyharness/c19.py", "test": "TestBreakerMachine", "quick": 300, "thorough": 1000, "shards": 6},
        {"kind": "py", "pkg": "c19", "script": "pyharness/c19.py", "test": "TestRequestsHook", "quick": 200, "thorough": 700, "shards": 4},
        {"kind": "py", "pkg": "c19", "script": "pyharness/c19.py", "test": "TestTrafficFilter", "quick": 3000, "thorough": 20000, "shards": 6},
        {"kind": "py", "pkg": "c19", "script": "pyharness/c19.py", "test": "TestWitnessIPv6Destination", "quick": 1, "thorough": 1},
        {"kind": "py", "pkg": "c19", "script": "pyharness/c19.py", "test": "TestWitnessIllFormedName", "quick": 1, "thorough": 1},
    ],
    "technique": ("property-based testing with Hypothesis: two RuleBasedStateMachines (real FailSafe; real RequestsHook closure) against a "
                  "set-valued reference circuit breaker that keeps every reading the statement allows, and a generated-input test of "
                  "TrafficFilter.is_allowed against an independent statement of the private ranges and list semantics, with a generated resolver"),
    "level_text": ("generated call/clock histories and generated list/destination/resolver cases are executed on the interceptor's real Python "
                   "modules and compared with reference models; failing cases are shrunk by Hypothesis and stored as replayable JSON; this is search, not proof"),
    "level_note": "Python interceptor only, requests hook only; virtual clock with 0.125 s resolution; equality at the expiry instant accepted both ways",
    "design_ref": "DESIGN.md section 2, C19",
}
