ID = "C06"

# the processing goroutine of the queue cannot be recovered when it panics: a dead worker is the signal
_CRASH = {"crash_is_violation": True}

PROP = {
    "level": "exploration",
    "rule": ("rapid-generated cases = queue configuration (fixed-window quota max 1-3 per 1-3 s, queue_size 1-4, first instant at offset 0/300/950 ms inside its second, "
             "priority groups High=1 mid=2 low=3 (one name with an upper-case letter) by header x-prio, header absent or unknown group = no group; a per-case palette of priorities so that cases with many equal and "
             "with many different priorities both occur) + a schedule of 1-8 rounds, a round = burst of 0-4 arrivals {priority, optionally held between slot check and "
             "registration (at one of two yield points: right after the slot check, or after the watch-list registration and before the enqueue), optionally with its clean-up goroutine held before the removal from the watch list}, then tick x N (N in 1,2,3,9 or one whole window -1/0/+1: the "
             "100 ms processing loop is fired on a harness-owned virtual clock and awaited until it re-armed), interspersed release(one goroutine held after its slot check) / "
             "remove(one held clean-up goroutine); then shutdown: held arrivals register, the context is cancelled, 0-2 arrivals between cancellation and the draining tick, "
             "clean-up goroutines still held are either released first or kept held (the structural predicate of C06-F3), the draining tick. The real engine is loaded from YAML "
             "(Queue -> GenerateResponse 429) and every arrival is one Stream.ExecuteFlow call in its own goroutine. After every action the observation (hook events "
             "queue.registered / queue.verdict, returned transactions) is judged by the statement. A second unit runs 2-5 arrivals with ttl_seconds=1 on the real clock (the TTL "
             "watcher waits with time.After), optionally with a shutdown 150-300 ms after the last arrival, or followed - after the waiters expired - by a second wave of queue_size+1..2 arrivals. Non-trivial: a tick with >=2 simultaneous waiters of different priority "
             "or arrival of which not all are admitted, a registration while another arrival sits between its slot check and its registration, a shutdown with waiters, "
             "(real clock) a request expired by its TTL; distinct = canonical JSON of configuration + schedule"),
    "assumptions": [
        "one tick step in eight begins with a tick in which the quota store fails the increment for the request the loop tries (fault point queue.quota-inc, hook ec5ca4b; the in-memory state never fails, a shared store can): nobody is admitted in that tick and the request keeps its place - the priority order of the later admissions is judged as always",
        "a quarter of the arrivals are held after their registration and before they start to wait for their verdict (hook queue.registered-before-wait) until the controller has processed the next tick or the shutdown: a verdict issued in that gap must still reach the request",
        "the gateway's log level (LOG_LEVEL: off in three cases of eight, else error / info / debug / trace; what is logged is thrown away, what a log statement does to build its arguments happens) is a generated part of every case of TestQueueSchedules: no answer may depend on it; a failing case reports its level",
        "one arrival in six of the virtual-clock schedules is a retried call: it carries the transaction id of an earlier request of the case that was allowed, has returned and whose clean-up has finished (the interceptors re-send x-lunar-req-id); it queues like any other arrival",
        "real-clock TTL unit: in one case of four the store behind the quota is slow around the expiry of the head of the queue: the processing loop (the goroutine that consults the quota's state and was not started by the harness) is kept inside a consultation, at a yield point of the shared state (hook 82f82ff), from 300 ms before that expiry on with a pause of 100 ms in every second, until the head has its verdict - the head's time-to-live ends while the loop holds it 'in processing', and its verdict is due when that consultation ends (observed: 1.6 s after arrival at ttl 1 s); quota_max arrivals plus 1-2 that wait, all priorities distinct, the clock not ahead of the timers in these cases; in half of them the quota's window is one second, so that it re-opens at about the instant the head's time-to-live ends and the consultation ends with 'admitted' for a request whose time is up - it still gets exactly one verdict (a second one kills the process: death of the unit's process is a violation)",
        "real-clock TTL unit: in three cases of five the process clock gains 60-250 ms per second on the runtime timers (the processing tick reads the clock, the TTL watcher waits on a runtime timer: a loaded machine fires timers late); the statement's bound (one verdict by TTL plus slack) is judged in real time as before",
        "in-memory queue and state only (the Redis-backed queue of the pro build is absent); one queue processor and one quota (no group_by_header, no parent quota) per case",
        "arrivals are started one after the other (the controller waits until an arrival is registered, refused, or held at the slot check before it goes on); truly simultaneous arrivals exist only through the hold at queue.slot-checked",
        "arrival order within one priority: X is earlier than Y only if X was registered before Y started to arrive; a goroutine held between check and registration is incomparable with arrivals that overtook it",
        "`allowed only when the quota admits it` is judged by the most permissive fixed-window reading: admissions must be assignable to consecutive windows of <= max admissions that start at an instant where the gateway could consult the quota (an arrival, a tick with waiters), window start kept exactly or with one-second resolution; exactness of the window counter itself is C01's subject",
        "a refusal while the queue has room and an admission later than the earliest possible tick are not violations (the statement demands neither)",
        "which verdicts a tick must have signalled is predicted by a replica of today's loop (two variants: blocked head re-stamped / keeps its stamp) so that the controller waits for exactly those events and never sleeps; if the implementation leaves both replicas without violating the statement the case is counted inconclusive (more than 5% inconclusive cases make the run inconclusive); real-time guards (5 s, 10 s for the release at shutdown) only bound hangs",
        "completion of the asynchronous clean-up goroutine (go removeRequest) is read from the runtime goroutine dump",
        "TTL on the real clock: verdict no later than ttl + 3 s slack; an overrun below 10 s is inconclusive, a request still waiting 10 s after its TTL never got a verdict; a mid-way shutdown is only issued >= 500 ms before the nearest expiry and with no clean-up goroutine pending (the situation of the repaired defect C06-F3, kept out of the real-clock unit because there it cannot be reproduced from a saved input)",
        "schedules that drain while a verdicted request's clean-up is held (the shape of the repaired defect C06-F3, which killed the process) run in an isolated child copy of the test binary until 10 children survived, then in-process; the three witnesses of the repaired defects C06-F1..F3 run on every check and fail if a defect returns",
    ],
    "units": [
        dict({"pkg": "c06", "test": "TestQueueSchedules", "quick": 2000, "thorough": 20000, "shards": 16, "shrinktime": "5s", "quick_timeout": 1800}, **_CRASH),
        dict({"pkg": "c06", "test": "TestTTLRealClock", "quick": 12, "thorough": 100, "shards": 16, "shrinktime": "60s"}, **_CRASH),
        dict({"pkg": "c06", "test": "TestWitnessEqualPriorityInversion", "kind": "plain"}, **_CRASH),
        dict({"pkg": "c06", "test": "TestWitnessSlotCheckNotAtomic", "kind": "plain"}, **_CRASH),
        dict({"pkg": "c06", "test": "TestWitnessShutdownSignalsTwice", "kind": "plain"}, **_CRASH),
    ],
    "technique": ("stateful property-based testing (rapid) of generated schedules over the real engine: virtual clock for the processing loop, source hooks (H3) to hold request and clean-up "
                  "goroutines at named points, journal + isolated child for schedules that kill the process; oracle = statement model (one verdict, fixed-window feasibility of the admission "
                  "history, no admitted request while a strictly better one waits, registered-verdicted <= queue_size over the event log, shutdown releases all and the process survives) "
                  "+ defect models (re-stamped head, check-then-act slot check, unconditional StopAll) for attribution to listed findings"),
    "level_text": ("generated schedules of arrivals with priorities, processing ticks, forced interleavings at the hook points and shutdowns are executed against the real queue processor "
                   "inside the real flow engine and judged action by action by a model of the statement; TTL expiry is exercised on the real clock in a small second unit. Only the "
                   "interleavings expressible through the hook points and the clock are controlled, the rest is native scheduling; this is search, not proof"),
    "level_note": "needs hooks H1 (process-wide clock) and H3 (queue yield points/events); TTL expiry cannot be driven by the virtual clock (the watcher uses time.After), hence few real-time cases",
    "design_ref": "DESIGN.md section 2, C06",
}
