ID = "C08"

PROP = {
    "level": "fault_enumeration",
    "rule": ("the real HandlingDataManager (LUNAR_STREAMS_ENABLED, scratch configuration directories, HAProxy's admin/health endpoints answered by an in-process RoundTripper) is driven through its "
             "HTTP handlers with httptest and probed through routing.Handler with SPOE request messages. Unit 1 (rapid): initial configuration of 1-3 flows and an optional quota x payload "
             "{changed / added flow files, non-YAML text, a cyclic graph, an unknown processor, undecodable base64, valid or invalid quota file, no flows at all, a metrics entry that is valid / changed / not YAML / of the wrong shape / undecodable, "
             "with or without an existing user metrics file} x endpoint "
             "{PUT /configuration, PUT /apply_flows} x one injected failure {k-th file store, file removal, directory walk (hook H4a) or k-th HAProxy admin call} (never combined with a payload "
             "that is rejected anyway) x optional probe transactions issued from inside the switch (hook H4b). Unit 2 (fault enumeration): for fixed valid payloads a dry run counts the calls "
             "of each operation and a failure is injected at every one of them in turn. Oracle: after a non-2xx answer the configuration files (path -> sha256) and the probe results equal "
             "those before; after a 2xx the probes equal the documented result; a probe during the switch gets the old or the new result, never none. Non-trivial: an injected fault fired, "
             "or the payload carries flow files, or probes ran inside the switch. distinct = canonical JSON of the case"),
    "assumptions": [
        "after a successful /apply_flows (which replaces the whole configuration) a user metrics file of the old configuration that the payload does not carry must be gone: left on disk it makes the running configuration the new flows with the old metrics. The fault enumeration runs its second payload with such a file in the initial configuration, so that every step of its removal is failed once",
        "a third of the pushed flow revisions (a quarter of the initial flows) carry a processor that needs the request body (DataSanitation): after a successful update the in-process proxy, which keeps the include-body map as the admin calls leave it, must ship the body for the transactions of every such flow of the new configuration - a new flow that runs on the old proxy registration is a half-built configuration",
        "the gateway's log level (LOG_LEVEL: off in three cases of eight, else error / info / debug / trace; what is logged is thrown away, what a log statement does to build its arguments happens) is a generated part of every case of TestConfigurationUpdates: no answer may depend on it; a failing case reports its level",
        "the gateway's server timeout (LUNAR_SERVER_TIMEOUT_SEC) is 1 s in this harness; about one update in thirty is pushed while the proxy is slow (its first five admin calls take 300 ms of real time each), so that the update outlasts the timeout; the state is read after the proxy has been quiet for 500 ms",
        "half of the initial configurations keep 1-3 files of zero length in the configuration directories (.gitkeep / .keep placeholders in flows/, quotas/, path_params/, flows/archive/, which the *.yaml loaders ignore): 'byte-for-byte what they were before' holds for them as for every other file",
        "HAProxy is a stub that answers 200 (or 500 for the injected call); health-check failures are not injected (each costs 40 real-time retries)",
        "after a 2xx answer no part of the payload may be one that cannot be loaded (undecodable, not YAML, rejected by validation, metrics of the wrong shape): such an update was neither rejected nor applied as a whole",
        "one failure per update: a payload that is rejected anyway is not combined with an injected fault, so a fault never hits the recovery step of another failure",
        "the generated path-parameter file is not part of the compared configuration files; the gateway's built-in default metrics file is (an update must never change it)",
        "the syslog exporter on 127.0.0.1:5140 is served by a dummy listener when the port is free",
    ],
    "units": [
        {"pkg": "c08", "test": "TestConfigurationUpdates", "quick": 250, "thorough": 3000, "shards": 1},
        {"pkg": "c08", "test": "TestFaultEnumeration", "kind": "plain"},
        {"pkg": "c08", "test": "TestRegressionFixedDefects", "kind": "plain"},
    ],
    "serial": True,
    "technique": "fault injection at every file-system / admin-call step (enumerated for fixed payloads, rapid-generated otherwise) with before/after comparison of disk and behaviour fingerprints; probes inside the switch through a yield hook",
    "level_text": ("the real update handlers are executed against generated payloads and single injected faults; disk and behaviour fingerprints before and after are compared, and every single-fault plan of the "
                   "fixed payloads is enumerated. Enumeration is complete for those payloads, sampling beyond"),
    "level_note": "needs hooks H4a (fault points in gateway_file_system.go) and H4b (yield after the stream is published); both units share process-wide state and run serially",
    "design_ref": "DESIGN.md section 2, C08",
}
