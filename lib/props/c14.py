ID = "C14"

PROP = {
    "level": "exploration",
    "rule": ("[unit TestRegisteredByRunningGateway: 1-3 generated flow files, several sharing one URL pattern with different method lists, are loaded by a real HandlingDataManager; an in-process RoundTripper records the expressions it PUTs to the proxy; engine verdict = the flows that ran for the request through routing.Handler; one case in twelve loads 12-51 further flows, one policy reload in six declares 60-303 further endpoints, each of which is probed] "
             "1-3 flow filters (unit 1) or 1-2 policy endpoints (unit 2) whose URL is host (with dots, port, IPv4) + 0-4 segments drawn from "
             "plain / dotted / regex-metacharacter (+ ( ) [ ] ? | $ ^ \\ { } *) / percent-escaped / {param} (word names, and names with "
             ". ~ blank or empty) segments, optional trailing /* or trailing slash, rarely the catch-all '*' / '.*'; method list empty or "
             "1-3 of GET POST PUT DELETE PATCH HEAD OPTIONS (policies: exactly one); 6 requests per configuration derived from a "
             "configured pattern (parameters and wildcard tail instantiated; 55% unmodified, else extra trailing segment, missing last "
             "segment, host only, trailing slash, empty segment, unrelated URL) x method (the filter's own or any of the seven). "
             "Engine verdict from the real FilterTree.GetFlow / EndpointPolicyTree.Lookup+method map, proxy verdict from Go regexp "
             "unanchored search of the really registered expressions over METHOD:::URL. For unmodified instantiations one literal "
             "character is additionally replaced and the expression must stop matching. A (configured entry, request) pair is "
             "non-trivial when the pattern contains a parameter, a wildcard or a metacharacter and the engine matches it; "
             "distinct = distinct canonical JSON of (kind, entry, request)"),
    "assumptions": [
        "policy reload unit: when the proxy refuses a reload (an admin call answered 503) the engine stays on the configuration of the last reload that succeeded; that configuration must stay registered - right after the refusal and when the un-registrations deferred by earlier reloads have run (one case in four builds: endpoint dropped, declared again within 30 s, then a refused reload without it)",
        "the gateway's log level (LOG_LEVEL: off in three cases of eight, else error / info / debug / trace; what is logged is thrown away, what a log statement does to build its arguments happens) is a generated part of every case of TestFlowFilterRegistered, TestPolicyEndpointRegistered and TestProxyMapOverReloads: no answer may depend on it; a failing case reports its level",
        "reload units (TestProxyMapOverReloads, TestProxyMapOverPolicyReloads): the in-process proxy keeps the managed-endpoint map as HAProxy's configuration does (PUT adds the key, DELETE removes it, manage_all / unmanage_global / unmanage_all; the read-only GET side answers as haproxy.cfg defines it: /managed_endpoint says whether the body, taken as text, is matched by a stored expression - map_reg, not a key look-up -, /manage_all the flag), may answer one admin call of a reload with 503, and the deferred un-registration (30 s on the process clock) is driven by the virtual clock and awaited through the goroutine dump; histories of 2-4 reloads over a pool of 2-3 URL patterns (flows unit: the next reload may also arrive while the deferred un-registration of the one before is at work - the in-process proxy keeps its first DELETE waiting until the reload has been answered, at most 150 ms - and one case in three is A, B, A-again with that overlap; one case in four is an endpoint covered by another one's expression ({id} or /* over a literal segment, host without a dot - a service name - half of the time): the covering one alone, then both, then the covered one alone; a flow's processor either needs the request body (registered with the include-body map too) or not, and one reload in four keeps the filters of the reload before and flips that requirement); a refused reload is not judged (which configuration then runs is C08's subject)",
        "HAProxy's regex engine (map_reg: unanchored search, case-sensitive) is approximated by Go regexp (RE2); an expression Go cannot compile counts as matching nothing",
        "the per-filter loop of HandlingDataManager.buildHAProxyFlowsEndpointsRequest (unexported; one HaproxyEndpointFormat per GetSupportedMethods(), manage-all when IsAnyURLAccepted()) is restated in the harness around the real translation and the real Filter methods; policies use the exported BuildHAProxyEndpointsRequest",
        "only the required direction is checked (engine matches => registered); a registration that covers more than the engine matches is accepted",
        "reading of a pattern: literal host labels are compared case-insensitively (RFC 3986), path segments exactly; requests include the configured URL with its host in another letter case (the proxy's map_reg is case-sensitive); a transaction the engine selects although the pattern does not match it under any reading (extra trailing segment, empty segment for a {param}, other method - C03/C13 territory) is not required to be registered; it is counted, not judged",
        "filters carry no header / query / status constraints and no sampling (they can only narrow the engine's verdict)",
        "flows are harness stubs of the exported FlowI carrying real streamconfig.Filter values; requests are real APIStreams",
    ],
    "units": [
        {"pkg": "c14", "test": "TestFlowFilterRegistered", "quick": 5000, "thorough": 100000, "shards": 16},
        {"pkg": "c14", "test": "TestPolicyEndpointRegistered", "quick": 5000, "thorough": 100000, "shards": 16},
        {"pkg": "c14", "test": "TestDocumentedShapes", "kind": "plain"},
        {"pkg": "c14", "test": "TestWitnessMetacharacters", "kind": "plain"},
        {"pkg": "c14", "test": "TestWitnessMethodlessFilter", "kind": "plain"},
        {"pkg": "c14", "test": "TestWitnessParameterName", "kind": "plain"},
        {"pkg": "c14", "test": "TestWitnessTrailingSlash", "kind": "plain"},
        {"pkg": "c14", "test": "TestRegisteredByRunningGateway", "quick": 250, "thorough": 3000, "shards": 1},
        {"pkg": "c14", "test": "TestProxyMapOverReloads", "quick": 150, "thorough": 2000, "shards": 1},
        {"pkg": "c14", "test": "TestProxyMapOverPolicyReloads", "quick": 300, "thorough": 4000, "shards": 1},
    ],
    "technique": ("property-based differential testing (rapid): cross-validation of two independent translations of one configured URL - "
                  "the engine's tries and the regular expression registered with the proxy - plus a literal-character metamorphic probe; "
                  "a repairable model of the translation attributes deviations to listed findings"),
    "level_text": ("generated filter / endpoint URLs are loaded into the real tries and translated by the real HaproxyEndpointFormat / "
                   "BuildHAProxyEndpointsRequest; for generated requests the engine's match verdict must imply a match of the registered "
                   "expression evaluated as the proxy evaluates it. This is search over a structured alphabet, not proof"),
    "level_note": "HAProxy regex approximated by Go RE2; flow registration loop restated from routing/handling_data_manager.go; the e2e variant (HAProxy stub recording real PUTs) is not built",
    "design_ref": "DESIGN.md section 2, C14",
}
