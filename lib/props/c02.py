ID = "C02"

PROP = {
    "level": "exploration",
    "rule": ("rapid-generated concurrency quotas (max 1-4, request_expiration 1-5 s, gc_interval 1-3 s, optionally under a concurrent parent with its own "
             "limits - in one parent case of three the child is a fixed-window limit that never refuses -, optionally with a second quota on the same filter, fixed-window or concurrent, consulted by a second Limiter before or after the first) loaded from YAML, flow Limiter->429 / Filter(x-early)->GenerateResponse(200); histories of <=40 events over a growing pool of "
             "transaction ids {request, request answered early by the gateway, response (also duplicate / unknown id), proxy error via Stream.OnError "
             "(also duplicate / unknown), advance by offsets around expiry (+10 ms grace) and collector instants, burst of 2-8 concurrent requests}; the "
             "collector goroutines are driven and awaited through the virtual clock; every history ends with 'end everything, one collector pass, a fresh "
             "request must be admitted'. Non-trivial: some request is refused while the quota is full and a later one is admitted after a release. "
             "distinct = canonical JSON of config+history"),
    "assumptions": [
        "in one configuration of five the handling of every response fails inside the flow's response direction, before the quota's end flow is reached (an error injected at the execution of a Filter there: fault point proc.execute, hook ec5ca4b - with the shipped processors a response flow fails only through a user-provided processor). Whether such a response gives the slot back is left open (the slot counts as 'expired, not yet collected': either verdict is accepted); the proxy's failure report for the transaction, which follows two times out of three, or the expiry must give it back",
        "when the flow consults a second, independent quota, the two quotas' filters are the same pattern (h.com/*) in one case of three and nested patterns in the others (the concurrency quota on h.com/c and the second quota on h.com/*, or the other way round): both match every transaction, through two nodes of the filter tree whose system flows are merged for the transaction",
        "transaction ids come again: a request step may carry the id of an earlier transaction, which it does only if the transaction that carries that id at the moment has surely ended (answered, failed, answered early, or expired and collected) - it is then a new transaction like any other, and later responses for that id belong to it; with the non-plain id styles (now also 't<n>:' - a trailing colon) one history in three has 'a transaction that is never answered, its expiry and a collector pass, the quota filled, the id again'",
        "the gateway's log level (LOG_LEVEL: off in three cases of eight, else error / info / debug / trace; what is logged is thrown away, what a log statement does to build its arguments happens) is a generated part of every case of TestConcurrentQuotaHistories: no answer may depend on it; a failing case reports its level",
        "the cluster-liveness component is wired as main() wires it (lunar_cluster.NewLunarCluster), with the gateway instance id empty (an unset GATEWAY_INSTANCE_ID, about which main() only warns) or set, or not wired at all - a generated part of the configuration",
        "histories contain metrics-collection steps (a harness-owned otel reader collects the quota gauges through their registered callbacks, hook 6df7625)",
        "unit TestHeldAtStateOperations: requests, responses and proxy-error reports are stopped at their k-th shared-state operation boundary (hooks state.before/after:<op>) while other transactions run and collector passes happen; a stall stays below one second of virtual time in all, slots live for at least two; judged: no panic, every transaction returns, admitted-not-ending-surely-unexpired transactions never exceed the maximum, and after everything has ended and expired a new transaction is admitted (a refusal while something is held is not judged)",
        "request_expiration_sec and gc_interval_sec are each left out in a quarter of the configurations; the documented defaults (60 s, 30 s) are then the expected values",
        "half of the configurations add an independent fixed-window quota that never refuses (100000 per minute), consulted by a second Limiter behind or in front of the concurrency Limiter: every way a transaction ends must still free the concurrency slot",
        "in-memory shared state only; cluster liveness (multi-gateway) is not modelled",
        "between a slot's expiry and the next collector pass either verdict is accepted (the statement says 'at the latest when its expiry passes'; the implementation collects periodically)",
        "transaction ids are unique per transaction, as HAProxy's unique-id guarantees, but free text (the proxy takes them from the client's x-lunar-req-id header): per configuration they read t<n>, or come in pairs 'order-k::retry' / 'order-k' (the separator the quota uses inside its set members; the longer id starts first, is never answered and expires while the other is still in flight and then answered), or contain spaces, colons and non-ASCII",
    ],
    "units": [
        {"pkg": "c02", "test": "TestHeldAtStateOperations", "quick": 600, "thorough": 12000, "shards": 8, "quick_shards": 2},
        {"pkg": "c02", "test": "TestConcurrentQuotaHistories", "quick": 500, "thorough": 4000, "shards": 16},
        {"pkg": "c02", "test": "TestConcurrentBursts", "quick": 80, "thorough": 800, "shards": 8},
        {"pkg": "c02", "test": "TestRegressionFixedDefects", "kind": "plain"},
    ],
    "technique": "stateful property-based testing (rapid) of the real engine on a virtual clock; oracle = independent in-flight-set model per quota of the chain + bound from observed verdicts + final liveness probe",
    "level_text": ("generated histories of requests, responses, early answers, proxy errors, duplicates, clock advances and bursts are run through Stream.ExecuteFlow / Stream.OnError; "
                   "after every step the number of admitted, un-ended, unexpired transactions is compared with the maximum and every sequential verdict with the set model; "
                   "a final probe shows the quota is free again. Search, not proof"),
    "level_note": "needs the hooks of commit 82f82ff for the held-transaction unit; needs hook H1 (virtual clock) and H2 is not required; burst interleavings are whatever the Go scheduler produces",
    "design_ref": "DESIGN.md section 2, C02",
}
