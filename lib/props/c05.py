ID = "C05"

_CRASH = {"crash_is_violation": True, "ulimit_v": 8000000}

PROP = {
    "level": "exploration",
    "rule": ("(0) in the random unit one configuration in four carries a further flow file that is not YAML or breaks a schema rule; when the validator refuses such a directory it is loaded by the gateway's own loader (streams.NewStream, which skips unusable files) and, if that succeeds, gets the same transactions; (1) bounded-exhaustive: every request direction over two processors of every kind combination from {Filter, TransformAPICall, GenerateResponse} with "
             "<=3 (quick) / <=4 (thorough) connections from {stream start, each processor output} to {stream end, each processor} - self-loops, 2-cycles, missing roots, "
             "connections out of an answering node included; (2) bounded-exhaustive: a fixed request direction reaching an answering processor and every response direction "
             "over two processors with <=3/<=4 connections from {stream start, the answering processor, each output}: rooted and rootless, cycles hanging off the answering node; "
             "(2b) bounded-exhaustive: a fixed acyclic request direction and every response direction over the SAME processor keys (keys are only unique per direction) plus one more; "
             "(3) rapid: one or two flows (1-4 request and 0-3 response processors incl. Limiter) built mostly well-formed, then with small probabilities backward edges, "
             "references to the other flow in both forms, missing roots, dangling processor/flow references, wrong condition names, plus a quota file that is valid or 'messy' "
             "(zero/negative/non-numeric numbers, unknown units, dangling or forward parents, percentage roots, percentage children of concurrent parents, a second host). "
             "Each configuration goes through the validator's code path (NewValidationStream+Initialize); an accepted one is driven with a battery of requests and responses "
             "for every combination of its Filter headers under a bound of 4*|processors|+16 processor executions per transaction. Non-trivial: the configuration contains a "
             "processor cycle, a rootless direction, a flow reference or an invalid quota field / dangling reference. distinct = canonical JSON of the configuration"),
    "assumptions": [
        "unit TestValidatorService: the standalone validator is the service binary built from the repository's flows-validator package (with a generated module file: its own go.mod does not resolve the engine offline), started on a port of its own and asked over HTTP. Generated are sequences of 2-4 validation requests under one set-up id (or none): flows with and without a Limiter, quota files that are fine, invalid, or not Base64 (the service answers 500 while writing). The answer to a request must be the answer the same set gets under an id never used before (a verdict is a function of the submitted set, whatever was validated under the id before and however that ended), and a set the service accepts must be loaded by the engine's own loader",
        "unit TestHostileMessagesThroughHandler: the transaction arrives as an SPOE message through routing.Handler of a real HandlingDataManager that has loaded the fixed parsing configuration; generated is the message itself - which arguments it carries, their types (text for bytes, an integer for a text), the message name (request / response / full-request / full-response / unknown) and the text of the headers argument (absent, empty, white space only, a bare CRLF, lines without a colon, names in several letter cases and on several lines, NUL and non-UTF-8 bytes, lines of 9 kB). The SPOE library does not recover a panic of the handler, so a panic is a crash of the engine process; the handler's answer is not judged",
        "generated quota files include an internal limit that is wrong on its own under a parent that is fine (no strategy at all; a unit of its own that the engine does not know): such a file must be refused with an error",
        "the further filter constraints of a generated flow include shapes a hand-written file may well have: a condition written twice, two conditions of one key whose values are lists / maps, null and numeric values, repeated methods and status codes (the loader takes any YAML value; a value that is not a string matches nothing)",
        "unit TestExportServerOutages: an accepted flow with a HARCollector runs against the real TCP export writer (writers.Dial against a local listener, installed as the context manager's file exporter as routing.NewHandlingDataManager installs it) while the listener goes away and comes back at generated points; every transaction must return (the pauses of Dial's own connection retries are skipped)",
        "a Go fatal error (stack overflow, out of memory) kills the worker: the driver then reports the configuration journaled before execution as the violation (no shrinking)",
        "in the configuration units the transaction content is fixed (small JSON body, headers steering the Filters); hostile bodies, header blocks, URLs, query strings, methods and statuses are generated by the unit TestHostileTransactions against one fixed accepted configuration whose processors parse them (Filter with URL regex, TransformAPICall set/delete/obfuscate, DataSanitation, CustomScript, UserDefinedMetrics, response-side transform)",
        "the step bound 4*|processors|+16 is generous for any acyclic walk with joins over <=8 processors",
    ],
    "units": [
        dict({"pkg": "c05", "test": "TestEnumRequestGraphs", "kind": "plain", "shards": 8, "quick_shards": 4}, **_CRASH),
        dict({"pkg": "c05", "test": "TestEnumResponseGraphs", "kind": "plain", "shards": 8, "quick_shards": 4}, **_CRASH),
        dict({"pkg": "c05", "test": "TestEnumSharedKeyGraphs", "kind": "plain", "shards": 8, "quick_shards": 4}, **_CRASH),
        dict({"pkg": "c05", "test": "TestRandomConfigs", "quick": 600, "thorough": 6000, "shards": 16}, **_CRASH),
        dict({"pkg": "c05", "test": "TestExportServerOutages", "quick": 600, "thorough": 12000, "shards": 8}, **_CRASH),
        dict({"pkg": "c05", "test": "TestHostileTransactions", "quick": 3000, "thorough": 60000, "shards": 16}, **_CRASH),
        dict({"pkg": "c05", "test": "TestHostileMessagesThroughHandler", "quick": 3000, "thorough": 60000, "shards": 1}, **_CRASH),
        dict({"pkg": "c05", "test": "TestValidatorService", "quick": 150, "thorough": 2500, "shards": 1}, **_CRASH),
        dict({"pkg": "c05", "test": "FuzzHostileTransaction", "kind": "fuzz", "thorough": 90, "tiers": ["thorough"]}, **_CRASH),
        dict({"pkg": "c05", "test": "TestRegressionFixedDefects", "kind": "plain"}, **_CRASH),
    ],
    "technique": "bounded-exhaustive enumeration of small flow graphs + property-based generation (rapid) of flow/quota configurations; oracle = validity predicate over the run (returns, bounded processor executions, no panic, worker survives)",
    "level_text": ("all small connection graphs of two processors per direction are enumerated and larger/malformed configurations are sampled; every accepted configuration is executed on a battery of "
                   "transactions under a processor-execution bound, inside a worker whose death is itself the violation signal. Complete for the enumerated slices, sampling beyond"),
    "level_note": "needs hook H2 (execution counter); the enumeration is complete only for the stated slice (2 processors, <=3/4 connections, fixed opposite direction)",
    "design_ref": "DESIGN.md section 2, C05",
}
