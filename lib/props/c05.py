ID = "C05"

_CRASH = {"crash_is_violation": True, "ulimit_v": 8000000}

PROP = {
    "level": "exploration",
    "rule": ("(1) bounded-exhaustive: every request direction over two processors of every kind combination from {Filter, TransformAPICall, GenerateResponse} with "
             "<=3 (quick) / <=4 (thorough) connections from {stream start, each processor output} to {stream end, each processor} - self-loops, 2-cycles, missing roots, "
             "connections out of an answering node included; (2) bounded-exhaustive: a fixed request direction reaching an answering processor and every response direction "
             "over two processors with <=3/<=4 connections from {stream start, the answering processor, each output}: rooted and rootless, cycles hanging off the answering node; "
             "(2b) bounded-exhaustive: a fixed acyclic request direction and every response direction over the SAME processor keys (keys are only unique per direction) plus one more; "
             "(3) rapid: one or two flows (1-4 request and 0-3 response processors incl. Limiter) built mostly well-formed, then with small probabilities backward edges, "
             "references to the other flow in both forms, missing roots, dangling processor/flow references, wrong condition names, plus a quota file that is valid or 'messy' "
             "(zero/negative/non-numeric numbers, unknown units, dangling or forward parents, percentage roots, percentage children of concurrent parents, a second host). "
             "Each configuration goes through the validator's code path (NewValidationStream+Initialize); an accepted one is driven with a battery of requests and responses "
             "for every combination of its Filter headers under a bound of 4*|processors|+16 processor executions per transaction. Non-trivial: the configuration contains a "
             "processor cycle, a rootless direction, a flow reference or an invalid quota field / dangling reference. distinct = canonical JSON of the configuration"),
    "assumptions": [
        "a Go fatal error (stack overflow, out of memory) kills the worker: the driver then reports the configuration journaled before execution as the violation (no shrinking)",
        "transaction content is fixed (small JSON body, headers steering the Filters); hostile bodies/headers are not generated in this check",
        "the step bound 4*|processors|+16 is generous for any acyclic walk with joins over <=8 processors",
    ],
    "units": [
        dict({"pkg": "c05", "test": "TestEnumRequestGraphs", "kind": "plain", "shards": 8, "quick_shards": 4}, **_CRASH),
        dict({"pkg": "c05", "test": "TestEnumResponseGraphs", "kind": "plain", "shards": 8, "quick_shards": 4}, **_CRASH),
        dict({"pkg": "c05", "test": "TestEnumSharedKeyGraphs", "kind": "plain", "shards": 8, "quick_shards": 4}, **_CRASH),
        dict({"pkg": "c05", "test": "TestRandomConfigs", "quick": 600, "thorough": 6000, "shards": 16}, **_CRASH),
        dict({"pkg": "c05", "test": "TestRegressionFixedDefects", "kind": "plain"}, **_CRASH),
    ],
    "technique": "bounded-exhaustive enumeration of small flow graphs + property-based generation (rapid) of flow/quota configurations; oracle = validity predicate over the run (returns, bounded processor executions, no panic, worker survives)",
    "level_text": ("all small connection graphs of two processors per direction are enumerated and larger/malformed configurations are sampled; every accepted configuration is executed on a battery of "
                   "transactions under a processor-execution bound, inside a worker whose death is itself the violation signal. Complete for the enumerated slices, sampling beyond"),
    "level_note": "needs hook H2 (execution counter); the enumeration is complete only for the stated slice (2 processors, <=3/4 connections, fixed opposite direction)",
    "design_ref": "DESIGN.md section 2, C05",
}
