ID = "C01"

PROP = {
    "level": "exploration",
    "rule": ("rapid-generated quota trees (1-4 fixed-window quotas, depth <=3, explicit max 1-5 / interval 1-5 of every unit the files accept (second, minute, hour, day, month; seconds in half of the quotas) or allocation_percentage "
             "children, optional group_by_header) loaded from YAML through the public engine API, one Limiter->429 flow per quota; histories of "
             "<=40 steps {advance by offsets around the window size, jump to a window end +-1ns/1ms, request(level, group)} on a harness-owned "
             "virtual clock, optionally ended by a burst of 2-12 concurrent requests at a frozen instant. Non-trivial: the history contains >=1 "
             "refusal and >=1 window restart, or a burst larger than the remaining capacity. distinct = canonical JSON of config+history. "
             "Unit TestSeveralQuotasPerRequest: two independent quotas A, B (max 1-4, interval 1-5 of every unit, optional group header) plus an optional quota no flow references, flows with one Limiter (h.com/a, h.com/b) "
             "and with two chained Limiters (h.com/ab, h.com/ba), histories of 4-40 {advance, jump to a window end of A or B, request(url, group)}; non-trivial: a history with a refusal and a request through two limiters"),
    "assumptions": [
        "one history in six with a grouped quota starts with two groups whose header values are related by the separator of the quota's state keys ('a' / 'a_b', 'a' / 'a_currentCount', ...): both are used, a window later the longer one is used up to its maximum while the shorter stays idle, a group never seen before shows up, and the longer one asks again",
        "the gateway's log level (LOG_LEVEL: off in three cases of eight, else error / info / debug / trace; what is logged is thrown away, what a log statement does to build its arguments happens) is a generated part of every case of TestFixedWindowHistories: no answer may depend on it; a failing case reports its level",
        "one request in six carries the transaction id of one of the four requests before it (a retried call: the interceptors re-send x-lunar-req-id and the proxy takes the transaction id from it); the model counts it like any other request",
        "histories contain metrics-collection steps (a harness-owned otel reader collects the quota gauges through their registered callbacks, hook 6df7625)",
        "group header values: absent, 'a', 'b' and two 180-character values that differ in their last character only (header-defined groups are keyed by the whole value)",
        "in-memory shared state only (the Redis-backed state is in the absent `pro` build)",
        "spill-over and monthly renewal are excluded: they read time.Now() directly and cannot be driven by the virtual clock",
        "in the hierarchy unit every quota is referenced by a Limiter; the second unit adds a quota that no flow references (it only counts through its system flow and must refuse nothing) and requests that consult two quotas in a row (a request refused by the second Limiter has already been counted by the first, as in a parent/child chain)",
        "the length of a window is interval x the gateway's own definition of the unit (ParseWindow: a day is 24 h, a month 30 days - the plain month unit, not the calendar-aligned monthly_renewal feature); the advances of a history are relative to the window (w-1s, w, w+1ms, 2w ...), so hours, days and months are crossed like seconds",
        "sequential exactness is judged against an independent counter model in two variants (window start kept with 1 s resolution, or exact); the whole history must agree with one of them",
    ],
    "units": [
        {"pkg": "c01", "test": "TestFixedWindowHistories", "quick": 600, "thorough": 6000, "shards": 16},
        {"pkg": "c01", "test": "TestSeveralQuotasPerRequest", "quick": 300, "thorough": 3000, "shards": 8},
    ],
    "technique": "stateful property-based testing (rapid) of the real engine on a virtual clock; oracle = independent hierarchical window-counter model (exactness) + per-window admission bound from observed verdicts",
    "level_text": ("generated quota hierarchies are loaded through the real loader and driven request by request through Stream.ExecuteFlow on a virtual clock; "
                   "every verdict is compared with an independent counter model and every window's admissions with its maximum; bursts check the bound under real goroutine interleavings. Search, not proof"),
    "level_note": "needs hook H1 (SetClockForVerif); interleavings inside a burst are whatever the Go scheduler produces",
    "design_ref": "DESIGN.md section 2, C01",
}
