ID = "C01"

PROP = {
    "level": "exploration",
    "rule": ("rapid-generated quota trees (1-4 fixed-window quotas, depth <=3, explicit max 1-5 / interval 1-5 s|min or allocation_percentage "
             "children, optional group_by_header) loaded from YAML through the public engine API, one Limiter->429 flow per quota; histories of "
             "<=40 steps {advance by offsets around the window size, jump to a window end +-1ns/1ms, request(level, group)} on a harness-owned "
             "virtual clock, optionally ended by a burst of 2-12 concurrent requests at a frozen instant. Non-trivial: the history contains >=1 "
             "refusal and >=1 window restart, or a burst larger than the remaining capacity. distinct = canonical JSON of config+history"),
    "assumptions": [
        "in-memory shared state only (the Redis-backed state is in the absent `pro` build)",
        "spill-over and monthly renewal are excluded: they read time.Now() directly and cannot be driven by the virtual clock",
        "every quota is referenced by a Limiter (unreferenced quotas only count through their system flow and refuse nothing)",
        "sequential exactness is judged against an independent counter model in two variants (window start kept with 1 s resolution, or exact); the whole history must agree with one of them",
    ],
    "units": [
        {"pkg": "c01", "test": "TestFixedWindowHistories", "quick": 600, "thorough": 6000, "shards": 16},
    ],
    "technique": "stateful property-based testing (rapid) of the real engine on a virtual clock; oracle = independent hierarchical window-counter model (exactness) + per-window admission bound from observed verdicts",
    "level_text": ("generated quota hierarchies are loaded through the real loader and driven request by request through Stream.ExecuteFlow on a virtual clock; "
                   "every verdict is compared with an independent counter model and every window's admissions with its maximum; bursts check the bound under real goroutine interleavings. Search, not proof"),
    "level_note": "needs hook H1 (SetClockForVerif); interleavings inside a burst are whatever the Go scheduler produces",
    "design_ref": "DESIGN.md section 2, C01",
}
