ID = "C12"

PROP = {
    "level": "exploration",
    "rule": ("histories of <=50 operations {request, response, advance the virtual clock to / 1 ns before / 1 ns after an expiry instant "
             "or by a random amount with the due clean-up timers fired or held back, a pair of writers where the first is suspended between "
             "the cache's size check and its insert, a request held at its freshness test (the clock reading after it found its entry) while the time-to-live ends and the clean-up runs, free-running bursts of concurrent requests and responses} over a pool of 1-4 keys "
             "(2 methods x 3 URLs x path-parameter values id/org/unselected zzz x payload-path selections) against CachingPlugin "
             "(ttl 0.5-5 s, max record 4000/5500/1Mi bytes, cache 0.005/0.01/1 MB, bodies 40-6000 bytes) and ResponseBasedThrottlingPlugin "
             "(relative or absolute retry-after incl. fractional, zero, negative, unparsable, absent; relevant/irrelevant statuses); after "
             "every step every key of the key space is probed; non-trivial = a hit followed by a miss after expiry on the same key, or a "
             "re-store while the old entry's clean-up timer is still pending, or a refusal by the size limit; distinct = canonical JSON of the case"),
    "assumptions": [
        "unit TestCacheSizeAcrossConfigs: one configuration in five has max_cache_size_megabytes 0 - a size of zero set on purpose (or lowered to by a reload): nothing may be held, and replayed, under it",
        "the history units count the death of their process (a Go runtime fault inside a plugin, e.g. concurrent map writes during a burst of concurrent calls) as a violation: the history that was running is written to a journal first and becomes the replay",
        "the URL pool holds URLs that differ only in the port of the host part (h.com/a, h.com:8080/a, h.com:9090/a) or in the letter case of the path: they are different URLs, a response stored for one is never an answer for another",
        "the gateway's log level (LOG_LEVEL: off in three cases of eight, else error / info / debug / trace; what is logged is thrown away, what a log statement does to build its arguments happens) is a generated part of every case of TestCachingHistories and TestThrottlingHistories: no answer may depend on it; a failing case reports its level",
        "the key of the statement is (method, URL, values of the payload paths of type path_params; empty = absent); path-parameter values are plain tokens "
        "and are varied independently of the URL as the repository's own plugin tests do (in production they are substrings of the URL)",
        "'fresh => hit' is not asserted (the statement does not promise hits); hits are counted in the evidence (req:hit / probe:hit)",
        "a request at exactly the expiry instant may be answered either way",
        "time-to-live is elapsed time: in one caching case of four the wall clock (Clock.Now) is set back by 1 ns - 1 h now and then (NTP step, VM resume, date -s) while the timers (Clock.Sleep/After) run on, as the runtime's monotonic timers do; in those cases due timers always fire and no reader is held at its freshness test (a late timer or a held reader is covered by the wall-clock comparison alone, which cannot work across a wall clock set back - not counted against the gateway); the wall clock is never set forward (that ends entries early, which the statement allows)",
        "absolute retry-after: the plugin measures 'now' with one-second resolution (Unix()), so an entry may live until A + frac(store instant) < A + 1 s; that reading and the exact one are both accepted",
        "relative retry-after in a replay must equal original - elapsed within 1e-6 s; all other headers, status and body must be identical to the stored response",
        "held size is measured in body bytes of the entries that the plugin serves at that instant over the whole key space (a lower bound of the plugin's own size measure); expired entries awaiting clean-up are not observable",
        "a response without a usable retry-after value can never be replayed; which statuses the throttling remedy stores is not part of the statement",
        "the clean-up goroutine is observed through goroutine counts (runtime.NumGoroutine equals the count before the case plus the pending clock timers); a 20 s wall-clock watchdog only turns a hang into 'inconclusive'",
        "free-running bursts are generated only with the 1 MB cache (the size race is exercised deterministically by the suspended-writer pair); config does not change inside a history of the two history units; the unit TestCacheSizeAcrossConfigs interleaves stores under 2-3 caching configurations with different size limits on the one cache the gateway has: after an accepted store under configuration X the replayable body bytes must not exceed X's limit (a limit that shrinks below what is held need not evict)",
    ],
    "units": [
        {"pkg": "c12", "test": "TestCachingHistories", "quick": 6000, "thorough": 60000, "shards": 16, "crash_is_violation": True},
        {"pkg": "c12", "test": "TestThrottlingHistories", "quick": 6000, "thorough": 60000, "shards": 16, "crash_is_violation": True},
        {"pkg": "c12", "test": "TestCacheSizeAcrossConfigs", "quick": 3000, "thorough": 30000, "shards": 8},
        {"pkg": "c12", "test": "TestWitnessHeldWriterExceedsCacheSize", "kind": "plain"},
    ],
    "technique": ("property-based testing (rapid) of generated request/response/clock/schedule histories on a harness-owned virtual clock whose timers the "
                  "schedule fires or delays and whose Now() is a yield point; oracle = model map key -> stored responses with freshness intervals "
                  "(soundness of every answer from memory, retry-after arithmetic) + size invariant over the probed key space"),
    "level_text": ("generated histories with clock instants on and 1 ns around every expiry, delayed clean-up timers, re-stores, sizes around the limits and "
                   "a writer suspended inside the cache are run against the real plugins and every answer from memory is checked against a model of what "
                   "was stored and until when; this is search, not proof"),
    "level_note": "hits are not required; concurrency is controlled only at clock calls (suspended writer) or free-running; expired-but-not-yet-deleted entries are invisible to the size check",
    "design_ref": "DESIGN.md section 2, C12",
}
