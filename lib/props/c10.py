ID = "C10"

PROP = {
    "level": "exploration",
    "rule": ("rapid-generated cases = queue configuration (window quota 1-3, window 1-3 s, queue size 1-4, first instant at offset 0 / W/2 / W-1ns / W-2ns / random "
             "inside its window) + a schedule of 1-30 controller actions {arrive(priority 0-2, ttl 1-3 windows, stay-in-gap or proceed at once), proceed(one of the "
             "enqueuers held in the hand-off gap), fire(one of the timers due first: the window processor's = roll-over, or a waiter's time-to-live), advance(1 ns, "
             "W/4, W/2, to 1 ns before the next timer, exactly to the window boundary with the processor not yet run)}, followed by a checked drain (everybody "
             "proceeds, timers fire in order until nobody waits). Run against the real DelayedPriorityQueue (TestQueueSchedules) and through "
             "StrategyBasedQueuePlugin.OnRequest (TestPluginSchedules) on the shared virtual clock: every enqueuer is held inside clock.After(ttl) - after it pushed "
             "its request and released the queue mutex, before it parks in its select - and the processor is driven timer by timer. After every action the outcome "
             "(admitted / rejected as full / waits; parks / returns; the set of waiters a roll-over released; verdict at time-to-live) is compared with the "
             "statement model. Non-trivial: a roll-over happens while >=1 enqueuer is in the hand-off gap, or >=2 waiters compete for fewer free slots than "
             "waiters at a roll-over; distinct = canonical JSON of configuration + schedule"),
    "assumptions": [
        "when a waiter's time-to-live and the window processor's timer are due at the same instant, one case in three lets the two overlap: the waiter is kept between its timer and the queue lock (inside the clock reading of its trace line - the harness owns the clock) while the processor's pass runs. The outcome must be that of one of the two orders: pass first (the waiter is released if its turn has come, else it expires) or time-to-live first (it expires, the pass hands its slots to the others); the model goes on from the order that was observed",
        "plugin unit: in one case of three the priority groups are called by free-text header values (gold / 'eu,us' / 'team a; q=1, b') instead of p0-p2: a request belongs to the group whose configured name equals its header value",
        "backlog unit: the queue gets the zero-value logger or a debug / trace level logger whose output is discarded, and in half of the cases the requests_in_queue gauge is read (Counts) before every roll-over",
        "unit TestLargeBacklogOrder: 20-390 waiters (priorities 1-5, half of them with a 2.5 s time-to-live, the rest one hour) arriving 1 ms apart in two batches on a queue of 1-3 per 10 s (in one case of four 40-150 per 10 s: a backlog of hundreds is drained within a few windows); the clock moves to 1 ms before each roll-over first, so that every waiter whose time-to-live ended has taken notice, then across it; each window must release exactly its quota: the best (priority, arrival) waiters alive",
        "unit TestConcurrentFirstArrivals: 2-10 arrivals run freely on real goroutines into a remedy the plugin has no queue for yet (1-4 remedies per case, quota 1-3, queue size 1-6, the queue factory taking 0-2 ms of real time); the virtual clock stands still until every arrival has returned or parked, then only the verdicts of that instant are judged: released <= quota, waiting <= size, rejected at once only if arrivals > quota + size",
        "aligned windows are [k*W, (k+1)*W): a release at exactly k*W belongs to window k (the roll-over itself happens at k*W)",
        "arrival instants are pairwise distinct (the harness moves the clock by 1 ns between two arrivals), so (priority, arrival) is a total order; equal instants would make the heap order unspecified",
        "timers fire in the order of their instants; among timers due at the same instant every order is generated; the processor may be late by the few ns that arrivals need, never across another timer's instant",
        "the statement model lets an arrival take a free slot of the current window at once even when others wait (this only happens at a window boundary before the processor ran, or behind a stranded waiter); the statement speaks about waiting requests only",
        "a waiter in the hand-off gap counts as a waiting request: a roll-over that reaches it grants it the slot (counted in that window) and it returns true when it proceeds",
        "the time-to-live of a goroutine held in the gap is not fired before the goroutine proceeded (restriction of vclock.Release: a fired timer can no longer be released); the enqueuer then parks first and expires next",
        "whether a goroutine is parked in Enqueue's select is read from the runtime goroutine dump (state 'select'); real-time bounds (20 s) only turn a hang into 'inconclusive'",
        "in-memory queue only (the Redis-backed queue of the pro build is absent); one queue (one remedy name + strategy) per case; ttl_seconds are whole seconds",
    ],
    "units": [
        {"pkg": "c10", "test": "TestQueueSchedules", "quick": 10000, "thorough": 30000, "shards": 16},
        {"pkg": "c10", "test": "TestPluginSchedules", "quick": 3000, "thorough": 8000, "shards": 16},
        {"pkg": "c10", "test": "TestConcurrentFirstArrivals", "quick": 300, "thorough": 3000, "shards": 8},
        {"pkg": "c10", "test": "TestLargeBacklogOrder", "quick": 60, "thorough": 600, "shards": 8, "shrinktime": "3s", "quick_timeout": 1800},
        {"pkg": "c10", "test": "TestWitnessLostHandoff", "kind": "plain"},
    ],
    "technique": ("stateful property-based testing (rapid) of generated schedules over the real queue / plugin on a virtual clock that steers the interleaving at the "
                  "hand-off gap without a source hook; oracle = deterministic statement model (quota per aligned window, queue size, rank order, granted slots) "
                  "compared after every action + second model reproducing the listed lost-hand-off defect for attribution"),
    "level_text": ("generated schedules of arrivals, gap releases, window roll-overs and time-to-live expiries are executed against the real queue and compared "
                   "action by action with a reference model of the statement; a processor that blocks for good in the hand-off is detected from the goroutine dump. "
                   "Only interleavings expressible through clock calls are controlled; this is search, not proof"),
    "level_note": "no source hook; the enqueuer is held inside clock.After(ttl); goroutine states are read from runtime.Stack; needs go.opentelemetry.io/otel/metric/noop for the plugin unit",
    "design_ref": "DESIGN.md section 2, C10",
}
