ID = "C13"

PROP = {
    "level": "exploration",
    "rule": ("sets of 1-6 endpoint declarations (method x URL pattern, distinct pairs) whose patterns are variants of one base path "
             "(segment kept / generalised to {param} (names from one family per case: p1.., user_id1.., order-id1.., and non-ASCII names) / other literal, cut at any depth, optional trailing /*, hosts h.com / api.h.com), "
             "each with a uniquely named remedy of its own remedy type and/or a diagnosis; the set is built with "
             "config.BuildEndpointPolicyTree in every declaration order (<=4 declarations: all permutations, more: identity, reverse and "
             "6 generated permutations) and queried with 8 requests derived from the declared patterns (parameters instantiated with "
             "values that collide with sibling literals, then: extra trailing segment, missing last segment, other literal, host only, "
             "other host) x method; the small-scope unit enumerates every set of 1-3 declarations over 6 overlapping patterns x "
             "{GET,POST} in every order against 16 fixed requests. A (set, request) pair is non-trivial when >=2 distinct declared "
             "patterns match the request URL or a matching pattern is declared for >=2 methods; distinct = distinct canonical JSON of "
             "(declarations, request)"),
    "assumptions": [
        "declared and requested methods include other spellings (get, Post, post): methods are compared as written, so they are other methods - a policy declared for GET is not applied to a get request, one declared for get is",
        "one generated request in twelve carries an absolute URL inside its path (shop.com/out/https://partner.io/orders/77), built from another declaration of the set; the empty segment behind the scheme is read both ways ({name} stands for it, as the engine implements it, or does not): either outcome is accepted, nothing else is",
        "the gateway's log level (LOG_LEVEL: off / error / info / debug / trace, output discarded) is a generated part of every case of TestPolicyTreeRandom: it must not change any answer",
        "unit TestDispatchedDiagnosisScope: the scope the dispatcher hands to the plugins is observed through the metrics-collector diagnosis (runner.RunTask with the real plugins and the file exporter): one exported record per enabled diagnosis of the endpoint the tree selects, whose method and normalized_url must be those of the tree's own look-up (differential; the look-up itself is judged by the other units); the scope handed to remedies is not observable through any remedy's output and is not judged",
        "unit TestDiagnosisFreeRevert: the declarations (fixed_response remedies, a third with a diagnosis only) are written as a policies file and loaded through config.BuildInitialFromFile; as loaded, after RevertToDiagnosisFree and after RevertToLastLoaded the accessor's tree must answer every request exactly like a tree built directly from the declared patterns with that mode's plugins (differential oracle, independent of the listed look-up findings)",
        "the same (method, URL pattern) pair is declared at most once per set (a repeated pair is last-writer-wins by construction and is not generated)",
        "every declaration in a set uses its own remedy type, so checkForDuplicates does not reject the set (rejection itself is order-dependent and outside this statement)",
        "request URLs contain no empty, '{..}'-shaped or '*' segments inside; one request in eight ends in separators ('/', '.', '//'): it is judged against the URL without them (the engine documents that it ignores separators around a URL), and 'no policy at all' is accepted too",
        "path parameters reported in addition to those of the winning pattern are accepted when they are the request's segment at a position where a declared pattern carries that parameter (the lookup keeps the parameters of a branch it abandoned for an ancestor wildcard)",
        "the selection by method out of the looked-up map (runner.getRemedies/getDiagnoses, unexported) is restated in the harness; "
        "TestDispatchAgreesWithSelection cross-checks that restatement against runner.DispatchOnRequest with fixed_response markers",
    ],
    "units": [
        {"pkg": "c13", "test": "TestDispatchedDiagnosisScope", "quick": 3000, "thorough": 40000, "shards": 8},
        {"pkg": "c13", "test": "TestPolicyTreeRandom", "quick": 6000, "thorough": 40000, "shards": 16},
        {"pkg": "c13", "test": "TestDispatchAgreesWithSelection", "quick": 3000, "thorough": 20000, "shards": 4},
        {"pkg": "c13", "test": "TestDiagnosisFreeRevert", "quick": 400, "thorough": 5000, "shards": 4},
        {"pkg": "c13", "test": "TestPolicyTreeSmallScope", "kind": "plain"},
        {"pkg": "c13", "test": "TestWitnessAliasedPolicyMap", "kind": "plain"},
        {"pkg": "c13", "test": "TestWitnessGreedyDescent", "kind": "plain"},
    ],
    "technique": ("property-based testing (rapid) + bounded-exhaustive small-scope enumeration; oracle = independent segment-wise matcher "
                  "with left-to-right specificity (literal > parameter > wildcard, with back-tracking), evaluated under every reading the "
                  "statement leaves open (specificity over all methods / per method, /* covering >=0 / >=1 segments) and required to hold "
                  "consistently over all orders and requests of a set; metamorphic order-independence over permutations; two defect "
                  "models (shared policy map, greedy descent) attribute deviations to listed findings"),
    "level_text": ("generated declaration sets are built by the real BuildEndpointPolicyTree in many orders and looked up through the real trie; "
                   "applied plugin names, NormalizedURL and PathParams are compared with an independent reference. All sets of up to 3 "
                   "declarations over 6 patterns x 2 methods are enumerated in all orders; larger sets and alphabets are sampled; this is "
                   "search, not proof"),
    "level_note": "pattern alphabet limited to hosts h.com/api.h.com and segments a,b,c,{pN}; method selection restated from plugin_dispatcher.go and cross-checked through DispatchOnRequest",
    "design_ref": "DESIGN.md section 2, C13",
}
