ID = "C17"

PROP = {
    "level": "exploration",
    "rule": ("flows mode: a flow YAML with Retry(attempts 1-4, cooldown_between_attempts_seconds 0-2, cooldown_multiplier 0/0.5/1/2) behind a Filter processor "
             "(status_code_range) or a flow-level status_code list, loaded by the real loader; policy mode: RetryPlugin with attempts 1-4, initial cool-down 0-20 s, "
             "multiplier 0-3, one or two status ranges. Histories of 1-36 responses interleaved over 1-4 sequence ids (ids that are prefixes of each other or contain the "
             "counter-key separator included); logical calls are explicit: the first response of a call has id == sequence id, responses of retried transactions carry a "
             "fresh id or again the sequence id (x-lunar-req-id is re-sent by the interceptors and by the Lua retry), new calls reuse ids after a failure, after an "
             "out-of-condition end or mid-way (abandoned call), statuses sit on both sides of the range bounds. Flows mode: a response that reaches a cool-down may stay "
             "parked on the virtual clock while responses of other sequences run; policy mode: the clock moves by 0/1/2 s, the announced cool-down, and around the state "
             "lifetime (29-32 s, 31 s + cool-down, 200 s). Non-trivial: a sequence uses up its attempts (in-condition response answered without a retry right after a "
             "retry verdict) while another sequence's last verdict is `retry` (mid-way). distinct = canonical JSON of configuration + history"),
    "assumptions": [
        "flows mode, cooldown 0: in one case of three a second flow (filter h.com/*) matches the same calls and carries the same Retry processor under the same processor key: two flows, two counters - both processors must say the same for every response, and the call is retried at most the configured number of times",
        "in one case of four the sequence ids (client text: x-lunar-sequence-id) are ids that a key normalisation would map onto each other - a long id, its first 64 / 36 bytes, its SHA-256 / SHA-1 / MD5 in hex, its lower-case form, itself plus a space: they are different sequences with counters of their own",
        "the gateway's log level (LOG_LEVEL: off in three cases of eight, else error / info / debug / trace; what is logged is thrown away, what a log statement does to build its arguments happens) is a generated part of every case of TestFlowsRetryBound, TestPolicyRetryThroughDispatcher and TestPolicyRetryBound: no answer may depend on it; a failing case reports its level",
        "policy histories: time is modelled in milliseconds; one step in five is a further 1-999 ms later, so that answers (and the instants at which the remedy writes its state) do not sit on whole seconds and land inside the last second of a state's lifetime (cool-down + 31 s)",
        "dispatcher unit: a gateway answer comes from a fixed_response remedy or (for statuses >= 400, one time in two) from a strategy-based throttling remedy whose single admission was used before the history, i.e. the 'too many requests' answer built by the remedies' common code with the step's status",
        "unit TestPolicyRetryLongLivedPlugin runs the policy histories against one retry plugin instance for the whole unit (the gateway has one for its life), each case with sequence ids of its own; a failure there depends on the earlier cases and is reproduced by the same seed, not from the single failing case",
        "unit TestPolicyRetryThroughDispatcher routes the policy histories through runner.DispatchOnResponse (provider responses) and runner.DispatchOnRequest (responses a fixed_response remedy gives by itself, which run through the response-side remedies); one endpoint per status, the retry remedy is global",
        "attempts >= 1 (flows mode rejects smaller values at load time; policy mode does not validate and asks for one retry with attempts=0 - outside the generated domain)",
        "the first response of a logical call always carries the sequence id as its transaction id (HAProxy assigns the unique id to both when the client sends no x-lunar-sequence-id)",
        "where the statement is silent the oracle admits both readings: a new call on an id whose previous call was abandoned mid-way may continue the count or start afresh; an unsolicited in-condition response on a forgotten sequence may or may not be retried; policy-mode state may be forgotten once a write of it is >= 31 s old (30 s transaction timeout + 1 s buffer, the remedy's minimum lifetime) and need never be",
        "per sequence id responses are sequential (the next response of a sequence starts after the previous one left its cool-down); different sequences overlap",
        "flows mode: one user flow, one Retry processor; in-memory flow context; three attempts in four send their request message through the engine before the response message (as the proxy does for every attempt, retried ones included), the others only the response",
    ],
    "units": [
        {"pkg": "c17", "test": "TestFlowsRetryBound", "quick": 1500, "thorough": 20000, "shards": 16},
        {"pkg": "c17", "test": "TestPolicyRetryBound", "quick": 6000, "thorough": 100000, "shards": 16},
{"pkg": "c17", "test": "TestPolicyRetryThroughDispatcher", "quick": 6000, "thorough": 100000, "shards": 16},
        {"pkg": "c17", "test": "TestPolicyRetryLongLivedPlugin", "quick": 12000, "thorough": 100000, "shards": 4},
        {"pkg": "c17", "test": "TestFixedHistories", "kind": "plain"},
        {"pkg": "c17", "test": "TestWitnessFlowsCounterSurvivesOutOfConditionResponse", "kind": "plain"},
        {"pkg": "c17", "test": "TestWitnessPolicyRetriedTransactionWithSequenceIDAsID", "kind": "plain"},
    ],
    "technique": ("stateful property-based testing (rapid) of the real Retry processor through loader + Stream.ExecuteFlow on a virtual clock, and of the real retry remedy; "
                  "oracle = independent per-sequence reference machine of the statement (set of admissible retry counts), defect machines as classifiers for listed findings"),
    "level_text": ("generated histories of responses over several sequence ids are run through the real flow engine (flows mode) and the real retry remedy (policy mode); every verdict "
                   "(retry action / `failed` output / no-op) is compared with a reference machine that counts retries per logical call exactly as the statement words it. Search, not proof"),
    "level_note": "needs hooks H1 (clock) and H2 (processor events) in flows mode; TTL expiry is only treated as permitted forgetting, never required",
    "design_ref": "DESIGN.md section 2, C17",
}
