ID = "C16"

PROP = {
    "level": "exploration",
    "rule": ("JSON documents (root object/array/primitive, nesting up to 5, arrays of objects, strings incl. escapes and non-ASCII, "
             "numbers in integer/decimal/exponent form, booleans, nulls) whose keys come from a pool of nine names so that the same "
             "name recurs at different depths, plus 0-4 exclusions per body derived from the document's own cursors (existing node, "
             "cursor without its first segments, cursor placed under extra segments, cursor with one more segment, free path, junk text); "
             "driven through Obfuscator{MD5Hasher}.ObfuscateJSON (cursor notation '.a.b', '[]'), the HAR collector processor "
             "('$.request.body…' / '$.response.body…' mixed with header/query/path exclusions, request and response body of one "
             "transaction) and the diagnosis HAR generator plugin (request_body_paths / response_body_paths); an exhaustive unit runs every "
             "document of nesting <= 2 over keys {a,b} (653) against every cursor of <= 3 segments over {.a,.b,[]} (40); thorough tier adds "
             "byte-level mutations of valid documents. A case is non-trivial when the document contains the last segment of one of its "
             "exclusions at two or more different cursors; distinct = distinct canonical JSON of (document text(s), exclusion list)"),
    "assumptions": [
        "bytes unit (now in the quick tier too): one document in eight repeats a member name inside an object, the repeated member carrying a scalar of its own (RFC 8259 says names SHOULD be unique; the parser accepts repetitions); half of these go in without exclusions and without byte mutations: the input is accepted, so every leaf of the output must be a hash",
        "the gateway's log level (LOG_LEVEL: off in three cases of eight, else error / info / debug / trace; what is logged is thrown away, what a log statement does to build its arguments happens) is a generated part of every case of TestHARCollectorBodies and TestHARGeneratorPluginBodies: no answer may depend on it; a failing case reports its level",
        "unit TestHARGeneratorPluginOverlapped: two transactions of two diagnoses with different obfuscation settings overlap on the one plugin instance - the injected hasher stops transaction A at its 1st-4th hash computation (headers, URL and query come before the bodies), B runs completely, A goes on; each output is judged against its own exclusion lists",
        "keys of generated documents contain no '.', '[' or ']' (the cursor notation cannot express them) and are unique per object",
        "numbers are finite float64 values; nesting depth <= 64; no lone surrogate escapes (no canonical form exists for them)",
        "a hashed leaf is accepted if it is the md5 hex of any canonical spelling of the value: string bytes or quoted JSON string; "
        "true/false; for numbers the literal, the value with two decimals (rounded, +-2 ulp, or truncated), or the shortest %f/%g/%e form",
        "null leaves are not judged (not in the statement): null or a string stand-in is accepted",
        "the '$' notation is '$.request.body' / '$.response.body' followed by a cursor ('[]' for array items); JSONPath wildcards such as "
        "'[*]' or '[0]' inside a body path are not generated (never matched by the implementation, not documented)",
        "the HAR collector is driven through harcollector.NewProcessor/Execute on the repository's mock API stream; the exported record is "
        "captured through contextmanager.WithFileExporter",
        "half of the collector cases vary the transport: transaction_max_size_bytes (2^30, 4096, 256, 48), declared content-length (absent, honest, understated), gzip content-encoding, and the media type the JSON body is declared with (application/json with or without charset, problem+json, vnd.api+json, hal+json, x-amz-json-1.1, other letter case, text/json, text/plain, octet-stream, or no content-type header): a JSON body is a JSON body whatever its label; a transaction the collector drops because its declared size exceeds the limit exposes nothing and is counted, not judged",
    ],
    "units": [
        {"pkg": "c16", "test": "TestObfuscateJSONCursor", "quick": 20000, "thorough": 150000, "shards": 16},
        {"pkg": "c16", "test": "TestHARCollectorBodies", "quick": 5000, "thorough": 40000, "shards": 16},
        {"pkg": "c16", "test": "TestHARGeneratorPluginBodies", "quick": 8000, "thorough": 60000, "shards": 16},
        {"pkg": "c16", "test": "TestHARGeneratorPluginOverlapped", "quick": 3000, "thorough": 60000, "shards": 8},
        {"pkg": "c16", "test": "TestSmallSpaceExhaustive", "kind": "plain"},
        {"pkg": "c16", "test": "TestObfuscateJSONBytes", "quick": 8000, "thorough": 300000, "shards": 16},
        {"pkg": "c16", "test": "FuzzObfuscateJSON", "kind": "fuzz", "thorough": 60, "tiers": ["thorough"]},
        {"pkg": "c16", "test": "TestWitnessSuffixExclusion", "kind": "plain"},
        {"pkg": "c16", "test": "TestWitnessWholeBodyExclusion", "kind": "plain"},
        {"pkg": "c16", "test": "TestWitnessControlCharacterInKey", "kind": "plain"},
    ],
    "technique": ("property-based testing (rapid) + bounded-exhaustive enumeration of a small document/exclusion space: generated documents with colliding key names and generated exclusion sets; oracle = "
                  "independent segment-wise path matcher + leaf-by-leaf comparison of input and output (hash of a canonical form / verbatim / "
                  "same keys, nesting, array lengths); byte-level mutation search and a native fuzz target (seed corpus) share the oracle"),
    "level_text": ("every generated (document, exclusions) pair is obfuscated by the real code at three entry points and the output is compared "
                   "leaf by leaf with an independent reading of the exclusions; cases that fail exactly as one of the listed findings "
                   "(string-suffix matching of exclusions, whole-body '$' exclusion, Go-quoted keys) are attributed by a defect model and the "
                   "search continues behind them. Sampling, not proof"),
    "level_note": ("byte-level search is a rapid property over mutated valid documents because a compiled test binary cannot run go test -fuzz; "
                   "FuzzObfuscateJSON runs its seed corpus only (usable by hand with go test -fuzz)"),
    "design_ref": "DESIGN.md section 2, C16",
}
