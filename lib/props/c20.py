ID = "C20"

PROP = {
    "level": "exploration",
    "rule": ("a case is (ConsecutiveN, MinStablePeriod, MinTimeBetweenCalls, CooldownPeriod, boolean observation script, virtual "
             "latency of each predicate call); the real StateChangeWatcher runs it on an auto-advancing virtual clock. Exhaustive unit: "
             "all scripts of length 0..10 (quick) / 0..12 (thorough) x N in 1..4 x period {0,1,3,7}s x interval {0,1,2}s x cool-down "
             "{0,2,5}s x latency {1ms,1s}; random unit: run-structured scripts up to 200 observations, wider settings incl. the shipped "
             "defaults (5, 7s, 1s, 300s), per-observation latencies; wiring unit (N up to 12, the four settings written plain or zero-padded to 2-4 digits in the environment): the real NewDiagnosisFailsafeStateChangeWatcher with a "
             "real TxnPoliciesAccessor and scripted HAProxy statistics. A case is non-trivial when the script contains a qualifying run "
             "that produced (or, by the completeness clause, had to produce) a reaction and a non-qualifying flip (a run that starts "
             "with a state change and has < N observations or spans < the stable period under every reading); distinct = distinct "
             "(settings, script, latencies)"),
    "assumptions": [
        "the generated cool-downs include values that are no multiple of a round unit (31 s, 45 s, 59 s, 100 s, 1.5 s) next to 0, 1-5 s, 20 s, 60 s and the shipped 300 s",
        "the gateway's log level (LOG_LEVEL: off in three cases of eight, else error / info / debug / trace; what is logged is thrown away, what a log statement does to build its arguments happens) is a generated part of every case of TestWiring: no answer may depend on it; a failing case reports its level",
        "unit TestWiringThroughManager: the watcher is the one the gateway builds itself - a policy-mode routing.HandlingDataManager is set up per case (NewHandlingDataManager + Setup, as main() does; each gets a net/http default mux of its own because Setup registers the metrics route there), its watcher runs on the process clock and process context of the context manager; the process clock is the case's virtual clock (for the watcher goroutine, recognised by its call stack, Sleep moves time at once and After timers are fired earliest-first by a driver once the watcher waits; other goroutines are parked on the same time line); in three cases of four the shutdown signal (the context manager's context is cancelled, as SIGTERM does) arrives during a generated observation - main() does not exit on it, so the reactions must stay those of the statement, cool-down included; judged like TestWiring (temporal conditions + differential with a bare watcher)",
        "unit TestWiringWithProxyFaults: the management calls (PUT) of generated reaction attempts are answered 503; a refused attempt counts as the watcher's reaction at the instant of its first call (direction: the opposite of the attempt before); the process clock is the case's virtual clock in a variant that parks sleepers of other goroutines until the watcher has moved time past their wake-up, so background work runs inside the case's time line; the policies may change only right after a qualifying run of observations (same reactions, at the same observations, as a bare watcher on the same script)",
        "one predicate call takes > 0 virtual time (the real predicate is an HTTP round trip); the watcher blocks only in clock.After / clock.Sleep, which advance virtual time immediately",
        "the time of an observation may be read as the call or the return of the predicate: the span of the consecutive checks that observed the new state is measured from the call of the first of them (the most tolerant reading of 'consecutive checks spanning at least the stable period') to the reaction. Until round 12 a span measured from the return of the previous check - which observed the other state and is not one of them - was accepted too; that accepted less than the statement says and hid a stable period that starts one check interval early (C20-12)",
        "completeness is checked only with a clear margin (strictest reading of count and span plus one further observation of the same state); firing exactly at the N-th observation is counted (class reactions-at-earliest-allowed-observation, ref-agree) but not demanded",
        "the statement forbids reactions inside the cool-down; observations inside the cool-down are neither required nor forbidden",
    ],
    "units": [
        {"pkg": "c20", "test": "TestExhaustive", "kind": "plain"},
        {"pkg": "c20", "test": "TestRandomRuns", "quick": 20000, "thorough": 300000, "shards": 8},
        {"pkg": "c20", "test": "TestWiring", "quick": 1500, "thorough": 20000, "shards": 4},
        {"pkg": "c20", "test": "TestWiringWithProxyFaults", "quick": 1500, "thorough": 30000, "shards": 8},
        {"pkg": "c20", "test": "TestWiringThroughManager", "quick": 150, "thorough": 3000, "shards": 8},
    ],
    "technique": ("bounded-exhaustive enumeration + property-based testing (rapid) of the real watcher goroutine under a deterministic "
                  "auto-advancing virtual clock; oracle = temporal conditions of the statement over the callback trace with virtual "
                  "timestamps (alternation, consecutive-count and stable-span precondition, cool-down, no reaction without a qualifying "
                  "run, tolerant completeness)"),
    "level_text": ("every boolean observation script up to the stated length is run against the real watcher under a grid of 288 settings, "
                   "longer scripts and other settings are sampled; the reactions and their virtual timestamps are checked against the "
                   "statement's conditions. The diagnosis fail-safe callbacks are exercised through the exported constructor with a real "
                   "policies accessor. This is search over a bounded domain, not proof"),
    "level_note": ("the health predicate itself (HAProxy session statistics -> boolean) is outside the statement and only used as a carrier "
                   "in the wiring unit; a watcher that needs one observation more than configured still satisfies the statement and is not flagged"),
    "design_ref": "DESIGN.md section 2, C20",
}
