ID = "C04"

PROP = {
    "level": "exploration",
    "rule": ("0-3 quotas (fixed-window or concurrent) on the flow's own URL or on the wildcard pattern above it (each filter-tree node with quotas has one system flow; every matching quota's system-flow processor must run on the request, and the system flows acting on the response must run in the reverse of their request order); one user flow written as YAML over {TransformAPICall (unnamed output), Filter on header x-k<i> (hit/miss), GenerateResponse (answers the request)}: "
             "request direction = acyclic graph of 1-5 (one case in five: 6-10, with frequent fan-out) processors with conditional branches, connections listed in a generated order in half of the cases, unlistened outputs, joins, optional fan-out, edges to the stream end; "
             "response direction = 0-3 processors with or without a stream root plus one response connection per answering processor; 0-2 quotas (fixed / concurrent) on the "
             "same URL give system start/end flows; the transaction's request and response headers steer every Filter. The executed processors are read from the H2 events. "
             "Non-trivial: the executed request path contains a taken and a not-taken branch, or reaches an answering processor. distinct = canonical JSON of the case. "
             "Unit TestCrossFlowWalk: a host flow that incorporates a guard flow (1-3 request Filters with conditional exits and an optional answering processor, 1-2 response Filters) in front of its own 1-2 request Filters "
             "(optional answering processor) and behind its own 1-2 response Filters; in one case of three (hosts without an answering processor) 1-2 further connections leave 'flow Guard at end' for processors of their own - a fan-out directly behind the reference, whose branches run in the order written; non-trivial: the request path crosses from the guard into the host, or is answered"),
    "assumptions": [
        "a third of the generated flows of TestGraphWalk list status codes in their filter (200, 201, 418 - the provider's 200 is one of them): a request the flow answers itself has no provider response, and the response path must be walked from the answering processor all the same",
        "unit TestSeveralMatchingFlows: two or three user flows whose filters all match the transaction (nested patterns h.com/*, h.com/g/*, h.com/g/x in any order of declaration, or one pattern twice), each a plain chain of 1-3 processors of which the last may answer. The request path of the transaction is every matching flow's chain, one flow after the other in the order read off the run; it ends at the first answer: no processor of a later flow runs on the request, the answer that reaches the client is the first one, every flow before the answering one ran its whole chain, and without an answer every matching flow ran",
        "cross-flow unit: in one case of three the host's response direction runs over the same processor keys as its request direction (same order, connections of its own): the two graphs stay apart; both graph units count a generated configuration that the loader refuses (none on the pinned tree) and go on - the unit is inconclusive if refusals exceed a tenth of the cases",
        "every case is built and run at a generated log level (off, error, debug, trace; output discarded): at an enabled level the log statements of the loader and the engine format their arguments, which is code that runs on the flow graph",
        "MockProcessor is unusable (its loader conditions never match its runtime output); Limiter/Queue are covered by C01/C06",
        "fan-out (two connections with the same condition) upstream of an answering processor is accepted under either reading (the answer stops the whole walk / only its branch)",
        "every answering processor has a response connection (without one the statement does not say where the response path continues)",
        "on the response side only the order of the user flow's own processors and the presence of the quota end flow are asserted; the relative order of system flows on responses is not fixed by the statement beyond 'reverse'",
        "cross-flow references are generated in the two documented directions only (request: `from: flow X at end -> to: processor`; response: `from: processor -> to: flow X at start`), with a referenced flow whose own filter never matches the transaction; a third of the cases also use one processor of a further flow through the cross-flow processor reference `Lib.K0`, next to an own processor with the same key and another parameter; references in the opposite directions are exercised by C05 for safety only",
    ],
    "units": [
        {"pkg": "c04", "test": "TestGraphWalk", "quick": 600, "thorough": 5000, "shards": 16},
        {"pkg": "c04", "test": "TestCrossFlowWalk", "quick": 400, "thorough": 4000, "shards": 8},
        {"pkg": "c04", "test": "TestSeveralMatchingFlows", "quick": 400, "thorough": 4000, "shards": 8},
        {"pkg": "c04", "test": "TestRegressionAndWitness", "kind": "plain"},
    ],
    "technique": "property-based testing (rapid) of generated flow graphs through the real loader and executor; oracle = independent reference interpreter of the statement compared with the observed processor event sequence",
    "level_text": ("generated flow graphs are loaded by the real loader and executed by Stream.ExecuteFlow; the sequence of executed processors and outputs (hook H2) must equal the walk an independent interpreter of "
                   "the statement produces - request path, early-response continuation, normal response path - and system flows must bracket the user flow. Search, not proof"),
    "level_note": "needs hook H2; one selected user flow per case (plus one incorporated flow in TestCrossFlowWalk), so the order among several selected user flows is not covered here",
    "design_ref": "DESIGN.md section 2, C04",
}
