ID = "C11"

PROP = {
    "level": "exploration",
    "rule": "tbd",
    "assumptions": [],
    "units": [
        {"pkg": "c11", "test": "TestHistories", "quick": 1500, "thorough": 20000, "shards": 16},
        {"pkg": "c11", "test": "TestBurst", "quick": 600, "thorough": 8000, "shards": 16},
        {"pkg": "c11", "test": "TestBoundaryGrid", "kind": "plain"},
    ],
    "technique": "tbd",
    "level_text": "tbd",
    "level_note": "tbd",
    "design_ref": "DESIGN.md section 2, C11",
}
