ID = "C11"

PROP = {
    "level": "exploration",
    "rule": ("[unit TestMessageHandlersE2E: a real policy-mode HandlingDataManager; 2-6 transactions (first attempts with id == sequence id and retried attempts with a fresh id and the first attempt's sequence id) send their request and response SPOE messages through routing.Handler in a generated order with reloads that switch a global retry remedy on or off; a 5xx response must get a modify_response action exactly when the version current at its own request enables the remedy] "
             "the real config.TxnPoliciesAccessor (built by config.BuildInitialFromFile from a scratch policies.yaml, validation rules registered as "
             "routing.initializePolicies does) on a virtual clock; every policy version carries a unique marker in the name of a disabled global remedy. "
             "TestHistories: rapid histories of <=40 events (one history in four has a wave of 40-600 further transactions that send their request at one instant, so that the vacuum backlog holds hundreds of pins) over transaction ids that are unique but close to one another (prefixes, case variants, blanks): "
             "request(i) = first GetTxnPoliciesData(i); response(i) = a further look-up (response handler / diagnosis worker); reload by UpdatePoliciesData, "
             "ReloadFromFile, UpdateRawData+ReloadFromFile (POST /apply_policies with body), unparsable file (must fail), HAProxy refusing the endpoint update "
             "(must fail); fail-safe revert to diagnosis-free / last-loaded through the loaded-policies files; advance by "
             "{1ms,999ms,1,2,4,4.999,5,5.001,6,10,24,29,29.999,30,30.001,31,40 s}; 'advance to request(i)+30s+{-5.001s..+10s} then answer i'; the two vacuum "
             "loops are fired and awaited through the clock; every history ends by answering every transaction once more and starting a new one. "
             "TestBoundaryGrid: complete enumeration of request phase in the 5 s tick period x request->reload distance x reload kind x optional second reload x "
             "request->response distance around 5 s / 30 s / 35 s / 60 s at 1 ms and 1 s resolution. TestBurst: prelude history, then 2-4 worker goroutines "
             "(first look-ups of fresh ids, repeated look-ups of own and of shared earlier ids), one reloader goroutine (1-6 reloads/reverts) and the main "
             "goroutine advancing the clock by < 30 s in total (vacuum passes) run concurrently; judged from observed results only. "
             "Non-trivial: a look-up of a transaction whose pin is live, with >=1 successful reload and >=1 vacuum pass since its request "
             "(burst: a live-pin look-up that observed an older version than the current one after >=1 vacuum pass). distinct = canonical JSON of the history"),
    "assumptions": [
        "transaction ids come again (x-lunar-req-id is client text; retried calls re-send it): event 'reuse' is a new transaction with the id of an earlier one, once the retention plus a vacuum period (30 s + 5 s + 1 s) have passed since that one's request or since any look-up of the id from its retention instant on (such a look-up may anchor the id afresh) - before that it counts as a further response; one history in six starts with 'request, reload, late response, the id again at +36 s, reload, response 10-24 s later', which must be given the version of the second request",
        "the gateway's log level (LOG_LEVEL: off in three cases of eight, else error / info / debug / trace; what is logged is thrown away, what a log statement does to build its arguments happens) is a generated part of every case of TestHistories: no answer may depend on it; a failing case reports its level",
        "transaction ids are unique per transaction (HAProxy unique-id); two *first* look-ups of the same id never race (the request is handled before its response exists)",
        "retention period = 30 s as the statement's quantifier says; it is not read from the code. At exactly request+30 s, and later, the pinned version, the current one or any version created in between is accepted (statement silent); nothing else, in particular never the empty fallback",
        "in one history of three every revision of policies.yaml is deployed with the same modification time (cp -p, rsync -t, archives, reproducible artefacts; revisions v1..v9 have the same size anyway): a reload must still read the file",
        "a reload counts as having happened iff the accessor call reported success; revert restores the content of the last policies file that was read successfully (with / without its diagnosis plugins)",
        "versions are compared by content (marker, presence of diagnosis plugins), not by pointer: two versions with identical content are interchangeable for the statement",
        "the look-up key is re-stated from routing/messages_handler.go and runner/diagnosis_worker.go (config.TxnID(args.ID) on request, response and diagnosis task); the accessor-level units use that re-statement; the unit TestMessageHandlersE2E drives the unexported handlers themselves through routing.Handler of a policy-mode HandlingDataManager (request and response messages of retried attempts whose id differs from the sequence id, reloads in between), the diagnosis worker's look-up is exercised by the unit TestDiagnosisWorkerVersions (real runner.DiagnosisWorker, dispatcher, plugins and HAR exporter on the real clock; the worker starts at a generated point of the history so that finished transactions queue up; every version declares the HAR diagnosis for its own subset of three endpoints with or without obfuscation, and the exported record of a transaction - present or not, obfuscated or not - must be that of the version current at its request; records are awaited up to 20 s)",
        "burst interleavings are whatever the Go scheduler produces; unsynchronised access that only a race detector sees belongs to C18",
    ],
    "units": [
        {"pkg": "c11", "test": "TestHistories", "quick": 3000, "thorough": 20000, "shards": 16},
        {"pkg": "c11", "test": "TestBurst", "quick": 1500, "thorough": 10000, "shards": 16},
        {"pkg": "c11", "test": "TestBoundaryGrid", "kind": "plain"},
        {"pkg": "c11", "test": "TestDiagnosisWorkerVersions", "quick": 300, "thorough": 6000, "shards": 8, "quick_shards": 2},
        {"pkg": "c11", "test": "TestMessageHandlersE2E", "quick": 1500, "thorough": 30000, "shards": 1},
    ],
    "technique": ("stateful property-based testing (rapid) of the real accessor and its two vacuum goroutines under a deterministic virtual clock (hand-shake on every "
                  "vacuum pass) + bounded-exhaustive boundary grid + concurrent burst; oracle = snapshot-isolation reference model (versions in creation order, "
                  "one pin per transaction, 30 s retention) and, for the burst, bounds derived from sequentially consistent counters around each call"),
    "level_text": ("generated histories of requests, responses, reloads, failing reloads, fail-safe reverts and clock advances are run against the real accessor; "
                   "every returned policies object is compared with the version the reference model pins the transaction to (inside 30 s: exactly that version; "
                   "new transactions: the current version; at/after 30 s: that version or a later one; never empty). The grid unit enumerates all combinations of "
                   "the listed boundary distances; the burst unit checks the same from concurrent goroutines. This is search over a bounded domain, not proof"),
    "level_note": ("needs hook H1 (process-wide clock); all HTTP of the process (HAProxy health check / endpoint management) is answered by an in-memory RoundTripper, "
                   "no socket is opened; only TestBoundaryGrid is exhaustive (over its stated grid)"),
    "design_ref": "DESIGN.md section 2, C11",
}
