ID = "C07"

PROP = {
    "level": "exploration",
    "rule": ("sequences of request actions {NoOp, ModifyHeaders, ModifyRequest, GenerateRequest, EarlyResponse} "
             "/ response actions {NoOp, ModifyResponse, RetryRequest} of length 1-6 (rapid) and all kind sequences "
             "up to length 3 (request) / 4 (response) with conflicting fixed header maps (exhaustive units), folded "
             "exactly as getSPOEReqActions/getSPOERespActions/runOnRequest fold them and decoded from the SPOE "
             "encoding; a case is non-trivial when >=2 non-no-op actions edit the same header name with different "
             "values, or an early response is not in first position; distinct = distinct canonical JSON of the sequence"),
    "assumptions": [
        "header names are HTTP tokens and values visible ASCII without CR/LF (the line-based header encoding cannot carry them and no producer emits them)",
        "the fold loop itself (getSPOEReqActions / getSPOERespActions / runOnRequest are unexported) is re-stated in the harness from the exported methods (EnsureRequestIsUpdated, ReqPrioritize, ReqToSpoeActions): a change confined to that loop, e.g. iterating in reverse, is not seen by this check",
    ],
    "units": [
        {"pkg": "c07", "test": "TestRequestFoldRandom", "quick": 20000, "thorough": 200000, "shards": 8},
        {"pkg": "c07", "test": "TestResponseFoldRandom", "quick": 20000, "thorough": 200000, "shards": 8},
        {"pkg": "c07", "test": "TestRequestFoldExhaustive", "kind": "plain"},
        {"pkg": "c07", "test": "TestResponseFoldExhaustive", "kind": "plain"},
    ],
    "technique": "property-based testing (rapid) + bounded-exhaustive enumeration; oracle = independent fold model (first early response / union-later-wins) and decode round trip of the SPOE encoding",
    "level_text": ("generated action sequences are folded by the real prioritisation code and compared with an independent model of the statement; "
                   "the SPOE encoding is decoded back and compared with the resulting action. All kind sequences up to length 3/4 are enumerated, "
                   "longer ones and arbitrary header maps are sampled; this is search, not proof"),
    "level_note": "header names/values restricted to what the line-based encoding can carry; fold order re-stated from routing/messages_handler.go and runner/plugin_runner.go",
    "design_ref": "DESIGN.md section 2, C07",
}
