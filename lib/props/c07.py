ID = "C07"

PROP = {
    "level": "exploration",
    "rule": ("sequences of request actions {NoOp, ModifyHeaders, ModifyRequest, GenerateRequest, EarlyResponse} "
             "/ response actions {NoOp, ModifyResponse, RetryRequest} of length 1-6 (rapid) and all kind sequences "
             "up to length 3 (request) / 4 (response) with conflicting fixed header maps (exhaustive units), folded "
             "exactly as getSPOEReqActions/getSPOERespActions/runOnRequest fold them and decoded from the SPOE "
             "encoding; a case is non-trivial when >=2 non-no-op actions edit the same header name with different "
             "values, or an early response is not in first position; distinct = distinct canonical JSON of the sequence. "
             "Two end-to-end units drive the unexported fold loops themselves: TestFoldThroughGateway loads 1-4 generated flows per case (chains of 1-5 TransformAPICall header edits over a pool of 3 names x 4 values, "
             "Filters that yield no-ops, an optional GenerateResponse; 0-4 response-side processors) into the real HandlingDataManager and sends SPOE on-request / on-response messages through routing.Handler; "
             "TestPolicyFoldThroughDispatcher runs runner.DispatchOnRequest over generated endpoint and global remedy lists (API-key authentication = header edits, fixed_response = early response or no-op, enabled/disabled). "
             "There a case is non-trivial when one header name is edited twice with different values, an answer follows other processors, or no-ops stand next to a modification"),
    "assumptions": [
        "gateway unit: half of the flows whose request chain ends in an answering processor have a fan-out of further answering processors on the same connection source behind it (another answer, then mostly a copy of the first one): the graph walk runs such siblings too, so the request side produces several early responses, of which the first - the chain's - must reach the proxy unchanged",
        "the gateway's log level (LOG_LEVEL: off in three cases of eight, else error / info / debug / trace; what is logged is thrown away, what a log statement does to build its arguments happens) is a generated part of every case of the random fold units, TestFoldThroughGateway and TestPolicyFoldThroughDispatcher: no answer may depend on it; a failing case reports its level",
        "gateway unit: in one flow of four the process context is cancelled (the shutdown signal) between the transaction's request frame and its response frame; the response must still be handled as configured",
        "the SPOE library marshals the returned actions after the handler has returned: after every encoding three / two encodings of another transaction are produced and the first one must still read the same (byte slices compared by content)",
        "unit TestFoldWithSharedHeaderMaps: some actions of a generated sequence share one header map object with an earlier action of the same content (DataSanitation / TransformAPICall build their actions around the transaction's live header map); an action OBJECT is never used in two folds or twice in one, since every producer in the repository builds a fresh object per execution",
        "bodies are mostly short; one in six lies around the sizes at which buffers are usually cut (255 B ... 70000 B, ASCII or multi-byte)",
        "header names are HTTP tokens and values visible ASCII without CR/LF (the line-based header encoding cannot carry them and no producer emits them)",
        "the action-level units re-state the fold loop from the exported methods EnsureRequestIsUpdated, ReqPrioritize, ReqToSpoeActions and judge that fold against the model; every sequence (random and enumerated) is then also folded from fresh action objects by the flows-mode handler's own loops (getSPOEReqActions / getSPOERespActions, through the verif-tagged export routing.SPOEReqActionsForVerif / SPOERespActionsForVerif), which must hand the proxy the same variables - so those loops are run with every action kind, also GenerateRequest, which no flow processor emits today; runOnRequest (policy mode) stays unexported and is exercised by TestPolicyFoldThroughDispatcher with the kinds remedies produce",
        "policy mode: the order in which endpoint and global remedies run is not part of the statement - endpoint-then-global and global-then-endpoint (each list in declared order) are both accepted as 'the' order; one authentication remedy per scope (the API-key mechanism memoises its headers per endpoint)",
        "GenerateResponse accepts only the parameters of its registry entry (status, body, Content-Type); the early response is compared on exactly those",
    ],
    "units": [
        {"pkg": "c07", "test": "TestRequestFoldRandom", "quick": 20000, "thorough": 200000, "shards": 8},
        {"pkg": "c07", "test": "TestResponseFoldRandom", "quick": 20000, "thorough": 200000, "shards": 8},
        {"pkg": "c07", "test": "TestFoldWithSharedHeaderMaps", "quick": 10000, "thorough": 100000, "shards": 8},
        {"pkg": "c07", "test": "TestRequestFoldExhaustive", "kind": "plain"},
        {"pkg": "c07", "test": "TestResponseFoldExhaustive", "kind": "plain"},
        {"pkg": "c07", "test": "TestFoldThroughGateway", "quick": 400, "thorough": 6000, "shards": 1},
        {"pkg": "c07", "test": "TestPolicyFoldThroughDispatcher", "quick": 5000, "thorough": 100000, "shards": 4},
    ],
    "technique": "property-based testing (rapid) + bounded-exhaustive enumeration; oracle = independent fold model (first early response / union-later-wins) and decode round trip of the SPOE encoding, at action level and end to end through routing.Handler / runner.DispatchOnRequest",
    "level_text": ("generated action sequences are folded by the real prioritisation code and compared with an independent model of the statement; "
                   "the SPOE encoding is decoded back and compared with the resulting action. All kind sequences up to length 3/4 are enumerated, "
                   "longer ones and arbitrary header maps are sampled; this is search, not proof"),
    "level_note": "header names/values restricted to what the line-based encoding can carry; the end-to-end units need the gateway fixture (scratch configuration directories, HAProxy admin calls answered in-process)",
    "design_ref": "DESIGN.md section 2, C07",
}
