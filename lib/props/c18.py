ID = "C18"

_RACE = {"race": True, "crash_is_violation": True, "env": {"GORACE": "halt_on_error=0 exitcode=0 log_path={dir}/race"}, "shrinktime": "5s"}

PROP = {
    "level": "exploration",
    "rule": ("harness built with the Go race detector. Unit 1: rapid-generated workloads {fixed-window or concurrency quota with max 1-12} x 2-16 goroutines x 1-12 transactions each "
             "(a third through a Limiter flow, a third through a branching Filter/GenerateResponse flow, a third to one of four specific URLs h.com/s<k> whose filter node sits below a wildcard node holding three flows; request then response), released together at a frozen virtual instant, optionally with a "
             "metrics reader and a concurrent re-load of the same configuration. Unit 2: 2-8 goroutines doing policy lookups for fresh transaction ids, and later look-ups for their earlier ones, while policies are swapped (spread over the ticks) and the "
             "vacuum's timers are fired; a later look-up less than the 30 s retention after the first (clock read before the first and after the later one) must give the same policies. Unit 3: 2-8 goroutines sending transactions through routing.Handler of a real HandlingDataManager while the flows are re-loaded through POST /load_flows (every "
             "transaction must be answered by some version of the flow). Oracles: (a) every race report whose innermost lunar frames (normalised: no line numbers, closure numbers or type arguments) are not a listed known "
             "finding is a violation; (b) serialisability: a fixed-window quota admits exactly min(requests, max); a concurrency quota is free again after all transactions ended; every "
             "transaction of the branching flow gets exactly the actions its own headers determine; lookups never fail. Non-trivial: >=2 transactions were in flight at the same time (measured). "
             "distinct = canonical JSON of the workload parameters"),
    "assumptions": [
        "unit TestPairInterleavedAtYieldPoints owns the schedule: request A of a quota (concurrency quota or fixed window, max 1-3, mostly one slot left or none) is stopped at its k-th yield point (the boundaries of the shared state's operations, hook 82f82ff, and the point between the Limiter's count and its verdict, b0b1961), B (a request, or the response of a transaction admitted before) is handled completely, A goes on. The outcome (verdicts of A and B, and how many of max+1 further requests are admitted afterwards) must equal the outcome of A-then-B or of B-then-A, which are obtained by letting the same gateway code handle the same transactions one after the other on a fresh configuration - no model of the quota is involved. If B cannot go on while A is stopped (A stands inside a locked region) A is released after 250 ms; that only makes the case less interesting, any real interleaving is a legitimate one",
        "unit TestFlowCountersUnderLoad: per-flow state that every transaction updates (the invocation counters behind the flow_invocations metric) must end where every one-at-a-time order leaves it - one invocation per transaction that ran the flow - after 2-16 goroutines sent 50-400 transactions each while the counters are being read; a read-modify-write that is not atomic loses updates without being a data race",
        "unit TestStoredRequestsOfOverlappingTransactions: the request kept for a transaction's response side (full-request messages; APIStream.StoreRequest / DiscardRequest as routing.processRequest / processResponse call them) is that transaction's alone: 2-6 transactions of a flow whose response path exports every transaction (HARCollector reads the stored request) run their two sides in a generated interleaving with several requests stored before any is answered, bodies and URLs of equal and different lengths; every response side exports one record whose request - URL and body - is the transaction's own (sequential, deterministic; the race detector is on all the same)",
        "the gateway's log level (LOG_LEVEL: off in three cases of eight, else error / info / debug / trace; what is logged is thrown away, what a log statement does to build its arguments happens) is a generated part of every case of TestWorkloads (only the atomic global level moves there; the logger variable is pointed to nowhere once, before anything runs, so that the race detector sees no harness write): no answer may depend on it; a failing case reports its level",
        "unit TestVacuumKeepsEveryRegistration: the background removal of per-transaction state (MapVacuum, used for policy version pins and concurrency slots) on a virtual clock, with registrations forced inside a running pass; a key must stay until its time-to-live has passed and must be gone after time-to-live plus two ticks",
        "unit TestLimiterHeldBetweenSteps: generated schedules hold Limiter transactions between the quota increment and the verdict (yield point limiter.between-inc-and-allowed) while other Limiter transactions and counted-only requests run to their end, after 0-4200 counted-only requests that are still in flight in the same quota window, on a plain quota or a quota with two internal limits; exactly min(n, max) of the n Limiter transactions must be admitted",
        "unit TestLongWorkloads: the free-running workloads of unit 1 with 8-16 goroutines x 150-400 transactions inside one quota window (plain quota, quota with two internal limits one of which is only counted, concurrency quota)",
        "the race detector has no false positives but only sees interleavings that happen: a silent run is not proof of absence",
        "a race is identified by the unordered pair of innermost lunar functions of the two accesses",
        "Queue, Retry and cache processors and the HAR collector are not part of the workloads",
    ],
    "units": [
        dict({"pkg": "c18", "test": "TestWorkloads", "quick": 60, "thorough": 600, "shards": 16}, **_RACE),
        dict({"pkg": "c18", "test": "TestLongWorkloads", "quick": 4, "thorough": 120, "shards": 4, "quick_shards": 2}, **_RACE),
        dict({"pkg": "c18", "test": "TestLimiterHeldBetweenSteps", "quick": 320, "thorough": 6000, "shards": 8, "quick_shards": 4}, **_RACE),
        dict({"pkg": "c18", "test": "TestPolicyAccessorWorkload", "quick": 60, "thorough": 600, "shards": 16}, **_RACE),
        dict({"pkg": "c18", "test": "TestVacuumKeepsEveryRegistration", "quick": 1500, "thorough": 20000, "shards": 8}, **_RACE),
        dict({"pkg": "c18", "test": "TestManagerReloadWorkload", "quick": 75, "thorough": 600, "shards": 1}, **_RACE),
        dict({"pkg": "c18", "test": "TestStoredRequestsOfOverlappingTransactions", "quick": 600, "thorough": 10000, "shards": 8}, **_RACE),
        dict({"pkg": "c18", "test": "TestPairInterleavedAtYieldPoints", "quick": 200, "thorough": 6000, "shards": 8, "quick_shards": 2}, **_RACE),
        dict({"pkg": "c18", "test": "TestFlowCountersUnderLoad", "quick": 12, "thorough": 200, "shards": 8, "quick_shards": 2}, **_RACE),
    ],
    "technique": "generated concurrent workloads and forced interleavings under the Go race detector (happens-before oracle, reports reduced to normalised signatures) plus serialisability checks of the verdicts",
    "level_text": ("generated concurrent workloads are executed against the real engine in a race-detector build; any unsynchronised access to engine state that the schedule exhibits is reported "
                   "(minus listed findings), and the verdicts are compared with what every one-at-a-time order would give. Search over schedules the Go scheduler happens to produce, not proof"),
    "level_note": "needs hooks H1 and limiter.between-inc-and-allowed; race build needs CGO (gcc present); misses are possible, false positives are not",
    "design_ref": "DESIGN.md section 2, C18",
}
