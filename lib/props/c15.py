ID = "C15"

PROP = {
    "level": "exploration",
    "rule": ("streams of 1-200 access-log records (1-400 for the production-threshold unit): methods GET/POST/DELETE, URLs from 1-4 templates "
             "over hosts api.com/svc.io/x.api.com with constant segments and id slots, single records and bursts of consecutive ids long enough to "
             "cross maxSplitThreshold (2,3,5 and the plugin's real 50) at one to three depths, id values colliding with constant names, trailing "
             "slashes, (in one case of 25) doubled slashes, statuses, durations 0..1e6 (and, in one case of four, a provider outage: most records carry HAProxy's duration -1 of an unanswered transaction), ms time stamps with duplicates and same-second values, consumer tags incl. empty, well- and "
             "ill-formed interceptor strings, internal flags; known-endpoint lists with declared parameters / literals / a wildcard; two random "
             "partitions into batches (empty batches allowed) and optional restarts (new State reading the JSON file, tree rebuilt from the known "
             "endpoints) at any boundary. Each case is run four ways through the exported API in the order runner.go uses it: single batch, two "
             "partitions via GetUpdatedAggregations, and Run+state file with restarts. A case is non-trivial when a previously existing endpoint "
             "key disappeared after a later batch (re-keying after a convergence of the URL tree) or a restart happened with a non-empty state; "
             "distinct = distinct canonical JSON of the whole case"),
    "assumptions": [
        "the values that fill the parameter positions of the generated URLs include a path segment that contains the delimiter of the persisted endpoint keys (arn:aws:s3:::logs - an S3 ARN; keys are spelled <method>:::<url>)",
        "the gateway's log level (LOG_LEVEL: off in three cases of eight, else error / info / debug / trace; what is logged is thrown away, what a log statement does to build its arguments happens) is a generated part of every case of TestBatchInvariance and TestBatchInvarianceProductionTree: no answer may depend on it; a failing case reports its level",
        "every case runs with a generated local time zone of the process (UTC, +3 h, -5 h, +5:30, +12:45, -12 h): the statistics carry absolute instants and may not depend on it",
        "in a quarter of the stateful runs one flush cannot write its state file (a directory sits at its path) while a later flush without refused records succeeds and no restart lies in between: nothing may be lost (what a restart right after a failed write loses is not judged)",
        "traffic URLs are host[/segment]* without `*` or `{...}` segments; empty segments (`//`) occur in a small share of the cases and are expected to be counted like any other URL",
        "the four classifiers use observation points that do not change behaviour: a forwarding wrapper around the URL tree (urltree.URLTreeI) that notes convergences inside Insert and lookups that miss a just-inserted URL, and the error returned by Run/GetUpdatedAggregations",
        "methods, consumer tags and URLs do not contain the persistence delimiter `:::`; time stamps are non-negative milliseconds",
        "DecodeRecords (msgpack via cgo pointers) is not driven; records enter at discovery.Run / GetUpdatedAggregations",
        "State keeps its aggregate unexported: the stateful run is observed through the JSON state file (one-second time resolution), the exact comparison uses GetUpdatedAggregations",
        "which of several covering endpoint keys a record is attributed to is not prescribed: conservation is checked with lower/upper bounds per key (records that can only / can at all belong to it) and exactly when the attribution is unambiguous",
        "after a restart only conservation is required (the statement promises preserved totals, not identical keys, across a state-file round trip)",
    ],
    "units": [
        {"pkg": "c15", "test": "TestBatchInvariance", "quick": 5000, "thorough": 30000, "shards": 16},
        {"pkg": "c15", "test": "TestBatchInvarianceProductionTree", "quick": 500, "thorough": 2500, "shards": 16},
        {"pkg": "c15", "test": "TestWitnessF1SilentConvergence", "kind": "plain"},
        {"pkg": "c15", "test": "TestWitnessF2ConstantBesideParameter", "kind": "plain"},
        {"pkg": "c15", "test": "TestWitnessF3LostTerminalValue", "kind": "plain"},
        {"pkg": "c15", "test": "TestWitnessF4BatchRefused", "kind": "plain"},
        {"pkg": "c15", "test": "TestRegressionFixedDefects", "kind": "plain"},
    ],
    "technique": ("property-based testing (rapid): conservation against an independent fold over the raw records, metamorphic batch-invariance "
                  "(single batch vs two random partitions), persistence round trip and restart histories through the real state file"),
    "level_text": ("generated record streams are pushed through the real aggregation code batch by batch; the final statistics are compared with an "
                   "independent fold over the raw records (totals, per-status and per-method totals, per-endpoint counts/min/max/means under every "
                   "admissible attribution, per-consumer tables, interceptor times), with the single-batch result and a second partition, with the "
                   "converted/persisted form and with a run that restarts from the state file. Batch-dependent results are attributed to listed findings only by classifiers (observed unreported tree "
                   "convergence; exact agreement with an as-implemented attribution model; observed lookup miss of an inserted URL; batch refused for a "
                   "URL with an empty segment), each with a witness unit; conservation is never waived. This is search, not proof"),
    "level_note": ("URL shapes are template-based; thresholds 2/3/5 explore the tree structure, a separate unit uses only the production threshold 50; "
                   "restart histories are checked for conservation only; fluent-bit decoding and the engine notification of failed transactions are outside"),
    "design_ref": "DESIGN.md section 2, C15",
}
