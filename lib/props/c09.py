ID = "C09"

PROP = {
    "level": "exploration",
    "rule": ("histories of <=60 requests to 1-3 strategy-based throttling remedies (allowed 1-10, window 1-5 s, optional status, "
             "optional group allocation table with integer/non-integer/0/>100 percentages and default behaviour allow/block/"
             "use_default_allocation/undefined) (before about one step in three the counters are read as the metrics gauge does: at the step's instant, half-way since the previous step, or - single requests - while the read is in progress: the request is issued from another goroutine when the read takes its 1st-3rd clock reading and the read waits up to 300 us for it; a burst with a read has a reader goroutine running next to it) at exact virtual instants k*W, k*W+1ns, k*W+W/2, (k+1)*W-1ns, repeated and random, "
             "with window-size changes between requests (TestSequentialWindows, TestIsolation) and bursts of 2-32 requests issued by up to 8 concurrent callers "
             "(TestBurst), driven through StrategyBasedThrottlingPlugin.OnRequest over limit.NewRateLimitState on a virtual clock; "
             "non-trivial = a request of a (remedy, group) that was seen before arrives exactly on a grid instant while the previous "
             "window is full or the new one empty, or >=2 groups of one remedy are active in one window (sequential unit); >=2 "
             "counters with >=1 rejection (isolation unit); a burst that is partly admitted (burst unit); distinct = canonical JSON of the case"),
    "assumptions": [
        "a window-size change while a window is in progress: the statement does not say which length governs the transition, but under either one at most the share passes in the overlap of the window in progress (old size) and the window of the new size the next request falls into - the old window bounds it if the old size governs, the new window if the new one does. That overlap is judged (only when the old window was itself a fully judged one and the shares were not re-allocated); a change of the size that starts the count again admits up to twice the share there",
        "unit TestThrottlingLoadedFromFile: the generated remedy is written to a policies.yaml with an allocation table of 1-14 groups, loaded by the real policies accessor (config.BuildInitialFromFile: read, validate, log, persist, register - the proxy's admin API answered by a stand-in) and driven through runner.DispatchOnRequest with what the accessor hands out; requests favour the last groups of the table; judged by the same per-window, per-group reference",
        "unit TestThrottlingBehindAccountOrchestration: the throttling remedy at the end of a remedy chain, through runner.DispatchOnRequest: the clients send no group header, the header it groups by is the token header an account_orchestration remedy in front of it puts on the request (accounts listed so that the round robin hands request i the group value of step i; what an admitted request was sent on with is read back from the action and must be that value); verdicts judged by the same per-window, per-group reference as the plugin-level units",
        "the gateway's log level (LOG_LEVEL: off in three cases of eight, else error / info / debug / trace; what is logged is thrown away, what a log statement does to build its arguments happens) is a generated part of every case of TestSequentialWindows and TestBurst: no answer may depend on it; a failing case reports its level",
        "spill-over (spillover_config.enabled) is out of scope: it changes the allowed count per window by design and is always disabled here",
        "only code that reads the injected clock is covered; nothing on this path calls time.Now() directly (checked: the harness fails if the path registers clock timers)",
        "group header values have no leading/trailing blanks and each value is listed at most once in an allocation table",
        "share = ceil(allowed*pct/100); where exact rational and float64 evaluation differ both are accepted",
        "after a re-allocation (policies applied again with other percentages) the window in progress at that instant is not asserted for the counters of that remedy, every later window is, with the new shares",
        "after a window-size change, windows of the new grid are asserted only from the first new-grid boundary at or after the end of the old-grid window of that counter's last request (the statement does not say which length governs the window in progress); isolation is asserted everywhere",
        "for a group without allocation: default allow => must pass, block => must be rejected with the configured status, undefined/absent => either",
        "rejection status is compared only when response_status_code is configured (otherwise any 1xx-5xx early response is accepted)",
        "bursts: only the upper bound and the status are asserted for concurrent callers (the statement claims exactness only one at a time); burst instants stay off the grid instants, which the sequential unit covers",
    ],
    "units": [
        {"pkg": "c09", "test": "TestSequentialWindows", "quick": 20000, "thorough": 100000, "shards": 16},
        {"pkg": "c09", "test": "TestIsolation", "quick": 6000, "thorough": 30000, "shards": 8},
        {"pkg": "c09", "test": "TestBurst", "quick": 16000, "thorough": 30000, "shards": 8},
        {"pkg": "c09", "test": "TestThrottlingBehindAccountOrchestration", "quick": 1500, "thorough": 20000, "shards": 8},
        {"pkg": "c09", "test": "TestThrottlingLoadedFromFile", "quick": 600, "thorough": 8000, "shards": 8},
        {"pkg": "c09", "test": "TestWitnessBoundaryInstant", "kind": "plain"},
        {"pkg": "c09", "test": "TestRegressionMetricsReadAfterResize", "kind": "plain"},
    ],
    "technique": ("property-based testing (rapid) of generated arrival histories on a harness-owned virtual clock; oracle = reference counter "
                  "keyed by (remedy, group, floor(t/W)) over the observed verdicts (upper bound + sequential exactness + status), metamorphic "
                  "isolation (each sub-history alone vs interleaved), concurrent bursts for the bound"),
    "level_text": ("generated histories with arrivals on and 1 ns around the window grid, window-size changes and concurrent bursts are run "
                   "against the real plugin and rate-limit state and compared with a reference counter; this is search, not proof"),
    "level_note": "spill-over excluded; concurrency only as free-running bursts; window-size changes asserted from the first complete new-grid window",
    "design_ref": "DESIGN.md section 2, C09",
}
