#!/bin/bash
# usage: save4.sh ID round "text"
id=$1; rnd=$2; text=$3
cd /verif
tools/seed_save.sh $id "$text" $id-$rnd >/dev/null
python3 - $id $rnd <<'PY'
import json,sys
p='/verif/seeded/%s-%s/meta.json'%(sys.argv[1],sys.argv[2]); m=json.load(open(p)); m['round']=int(sys.argv[2]); json.dump(m,open(p,'w'),indent=1); print('saved',p)
PY
git -C /repo worktree remove --force /tmp/sv-$id; git -C /repo worktree remove --force /tmp/seed/$id
