#!/bin/bash
# Runs the repository's own test suite with the verif guard OFF and compares the passing
# tests with the stable baseline list in /root/.vp/BASELINE.json. Prints missing ones.
out=${1:-/tmp/baseline_run.json}
: > "$out"
for m in proxy/src/libs/shared-model proxy/src/libs/toolkit-core proxy/src/services/aggregation-output-plugin proxy/src/services/async-service proxy/src/services/flows-validator proxy/src/services/lunar-engine; do
  (cd /repo/$m && GOFLAGS=-mod=mod GOPROXY=off GOSUMDB=off go test -json -vet=off -count=1 -timeout 25m ./... >> "$out" 2>/dev/null)
done
python3 - "$out" <<'PY'
import json,sys
passed=set()
for l in open(sys.argv[1]):
    try: e=json.loads(l)
    except ValueError: continue
    if e.get('Action')=='pass' and e.get('Test'): passed.add(e['Package']+'::'+e['Test'])
stable=set(json.load(open('/root/.vp/BASELINE.json'))['stable_pass'])
missing=sorted(stable-passed)
print('stable baseline tests: %d, passing now: %d, missing: %d' % (len(stable), len(stable&passed), len(missing)))
for m in missing[:40]: print('  MISSING', m)
PY
git -C /repo checkout -- . 2>/dev/null
