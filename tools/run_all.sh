#!/bin/bash
# Runs every claimed check (tier $1, default quick) against /repo and validates the evidence files.
cd "$(dirname "$0")/.." || exit 1
tier=${1:-quick}
rc=0
for id in $(python3 -c "import json;print(' '.join(c['property_id'] for c in json.load(open('MANIFEST.json'))['checks']))"); do
  out=$(./check "$id" --tier "$tier" 2>&1); r=$?
  echo "$out" | grep -E "^(KNOWN-FINDING|VIOLATION|INCONCLUSIVE|C[0-9]+ )" | cut -c1-220
  [ $r -ne 0 ] && { echo "== $id exit $r"; rc=1; }
done
python3-vt - <<'PY'
import json,jsonschema,glob
s=json.load(open('/root/.vp/EVIDENCE.schema.json'))
ids=[c['property_id'] for c in json.load(open('MANIFEST.json'))['checks']]
for i in ids:
    try:
        e=json.load(open('evidence/%s.json'%i)); jsonschema.validate(e,s)
        assert e['violations']==0, 'violations=%d'%e['violations']
    except Exception as ex: print('EVIDENCE PROBLEM',i,str(ex)[:120])
PY
exit $rc
