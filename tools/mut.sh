#!/bin/bash
# usage: tools/mut.sh <ID> <file-relative-to-repo> <sed-expression> [extra check args]
# Development aid: applies a one-line mutation in a scratch worktree of /repo
# (default /tmp/wt-$USER-mut, override with MUT_WT), runs the quick check against
# it via VERIF_REPO, and reverts. /repo itself is never touched.
set -u
id=$1; file=$2; expr=$3; shift 3
wt=${MUT_WT:-/tmp/wt-mut}
if [ ! -d "$wt" ]; then git -C /repo worktree add --detach "$wt" HEAD >/dev/null 2>&1 || { echo "cannot create worktree $wt"; exit 2; }; fi
cd "$wt" || exit 2
git checkout -q --detach "$(git -C /repo rev-parse HEAD)" 2>/dev/null
git checkout -- . 
sed -i "$expr" "$file"
if git diff --quiet -- "$file"; then echo "MUTATION DID NOT APPLY"; exit 2; fi
git --no-pager diff -U0 -- "$file" | tail -n +5
(cd /verif && VERIF_REPO="$wt" ./check "$id" "$@" | grep -v "^built" | cut -c1-700 | tail -12; echo "rc=${PIPESTATUS[0]}")
git checkout -- "$file"
rm -rf /verif/.build/replays-alt/"$id"
