#!/bin/bash
# usage: tools/mut.sh <ID> <file-relative-to-/repo> <sed-expression> [extra check args]
# applies a one-line mutation to /repo, runs the quick check, reverts. Development aid only.
set -u
id=$1; file=$2; expr=$3; shift 3
cd /repo || exit 2
if ! git diff --quiet -- "$file"; then echo "file already dirty: $file"; exit 2; fi
sed -i "$expr" "$file"
if git diff --quiet -- "$file"; then echo "MUTATION DID NOT APPLY"; exit 2; fi
git --no-pager diff -U0 -- "$file" | tail -n +5
(cd /verif && ./check "$id" "$@" | grep -v "^built" | cut -c1-600 | tail -15; echo "rc=${PIPESTATUS[0]}")
git checkout -- "$file"
