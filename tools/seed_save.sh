#!/bin/bash
# usage: tools/seed_save.sh <ID> <caught-by text> — stores a validated seeded change under /verif/seeded/<ID>/
id=$1; caught=$2; src=/tmp/seed/$id; dst=/verif/seeded/${3:-$id}
mkdir -p $dst
cp $src/seed_out/patch.diff $dst/patch.diff
for f in $(git -C $src status --short | grep '^??' | awk '{print $2}' | grep -v '^seed_out' | grep -E '_test\.(go|py)$|demo'); do cp $src/$f $dst/$(basename $f); echo "$f" >> $dst/.demo_locations; done
# python demonstrations live in seed_out itself
for f in $src/seed_out/*.py; do [ -f "$f" ] && { cp $f $dst/$(basename $f); echo "seed_out/$(basename $f)" >> $dst/.demo_locations; }; done
python3 - "$id" "$caught" "$dst" <<'PY'
import json,sys,os,subprocess
id,caught=sys.argv[1],sys.argv[2]
src='/tmp/seed/%s/seed_out/meta.json'%id
m=json.load(open(src))
dst=sys.argv[3]
locs=open(dst+'/.demo_locations').read().split() if os.path.exists(dst+'/.demo_locations') else []
if os.path.exists(dst+'/.demo_locations'): os.remove(dst+'/.demo_locations')
head=subprocess.check_output(['git','-C','/repo','rev-parse','--short','HEAD'],text=True).strip()
out={
 "property": id,
 "breaks": m.get("summary"),
 "needs_to_manifest": m.get("needs_to_manifest"),
 "files_changed": m.get("files_changed"),
 "demonstration": {"files": [os.path.basename(l) for l in locs], "placed_at": locs, "run": m.get("demo_run")},
 "author": "independent sub-agent given only the property text and a scratch worktree",
 "validated_by_lead": {
   "repo_head": head,
   "what_was_run": ["git apply patch.diff in a fresh worktree of /repo HEAD", "go build + existing tests of the affected packages with the patch: pass", "demonstration with the patch: FAIL", "demonstration with the production change stashed: PASS", "VERIF_REPO=<worktree> ./check %s"%id],
   "existing_tests": m.get("existing_tests_run"),
   "detected": caught,
 },
}
json.dump(out,open(dst+'/meta.json','w'),indent=1)
print('saved',dst, os.listdir(dst))
PY
