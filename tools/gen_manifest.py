#!/usr/bin/env python3
"""Regenerates /verif/MANIFEST.json from lib/props/*.py and tools/manifest_static.json."""
import json, os, sys
ROOT = os.path.dirname(os.path.dirname(os.path.abspath(__file__)))
sys.path.insert(0, os.path.join(ROOT, "lib"))
import config as CFG

static = json.load(open(os.path.join(ROOT, "tools", "manifest_static.json")))
ids = [json.loads(l)["id"] for l in open(os.path.join(ROOT, "properties.jsonl")) if l.strip()]
checks, na = [], []
for pid in ids:
    p = CFG.PROPS.get(pid)
    if p is None or p.get("unclaimed") or pid not in static["claimed"]:
        reason = (p or {}).get("unclaimed") or static["not_built_reason"]
        na.append({"property_id": pid, "reason": reason})
        continue
    c = {
        "property_id": pid,
        "quick_cmd": "./check %s --tier quick" % pid,
        "thorough_cmd": "./check %s --tier thorough" % pid,
        "evidence_file": "/verif/evidence/%s.json" % pid,
        "replay_cmd_template": "./check %s --replay {path}" % pid,
        "engine": p.get("engine", "go-rapid-harness"),
        "level_claimed": {"category": p.get("level", "exploration"), "text": p["level_text"], "design_ref": p.get("design_ref", "DESIGN.md section 2, " + pid)},
        "level_note": p["level_note"],
        "technique": p["technique"],
    }
    checks.append(c)
m = {
    "version": 1,
    "setup_cmd": static["setup_cmd"],
    "hooks": static["hooks"],
    "engines": static["engines"],
    "checks": checks,
    "notes": static["notes"],
    "not_applicable": na,
}
for e in m["engines"]:
    e["serves_properties"] = [c["property_id"] for c in checks if c["engine"] == e["name"]]
with open(os.path.join(ROOT, "MANIFEST.json"), "w") as f:
    json.dump(m, f, indent=1)
    f.write("\n")
print("MANIFEST.json: %d checks, %d not claimed" % (len(checks), len(na)))
