#!/bin/bash
# usage: valauto.sh ID  -> derives module, package and test regex from seed_out/meta.json demo_run
id=$1
read mod pkg rx < <(python3 - $id <<'PY'
import json,re,sys
m=json.load(open('/tmp/seed/%s/seed_out/meta.json'%sys.argv[1]))
d=m['demo_run']
mod=re.search(r'cd (proxy/src/(?:services|libs)/[\w-]+)',d)
run=re.search(r"-run\s+'?\"?([^\s'\"]+)'?\"?",d)
pkg=re.search(r"(\./[\w./-]+?/?)(?:\s|$|')",d[d.find('-run'):] if '-run' in d else d)
print(mod.group(1) if mod else 'proxy/src/services/lunar-engine', pkg.group(1) if pkg else './...', run.group(1) if run else 'TestSeed')
PY
)
echo "== $id: $mod $pkg $rx"
if [ "$id" = "C18" ]; then export SEED_RACE=1; fi
/tmp/val4.sh $id $mod $pkg "$rx" "./..." 2>&1 | grep -v "^KNOWN" | tail -7 | cut -c1-500
