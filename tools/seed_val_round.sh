#!/bin/bash
# usage: val4.sh ID module pkg regex build
id=$1; mod=$2; pkg=$3; rx=$4; b=$5
cd /verif
tools/seed_validate.sh $id 2>&1 | grep -E "PATCH DOES|changed" | tr '\n' ' '
SEED_BUILD="$b" tools/seed_run.sh $id $mod $pkg "$rx" 2>&1 | cut -c1-420 | grep -v "^KNOWN" | grep -E "^(== demo|ok|FAIL|--- FAIL|VIOL|C[0-9]+ |---|INCON)" | head -14
