#!/bin/bash
# usage: tools/seed_validate.sh <ID> [tier]   — validates /tmp/seed/<ID>/seed_out against current /repo HEAD:
# applies the patch in a fresh scratch worktree, builds, runs the demo with and without the patch, runs the
# affected packages' existing tests, then runs ./check <ID> against the patched worktree.
id=$1; tier=${2:-quick}
src=/tmp/seed/$id; wt=/tmp/sv-$id
export GOFLAGS=-mod=mod GOPROXY=off GOSUMDB=off GOTOOLCHAIN=local
git -C /repo worktree remove --force $wt >/dev/null 2>&1
git -C /repo worktree add --detach $wt HEAD >/dev/null 2>&1 || { echo "cannot create $wt"; exit 2; }
cd $wt
if ! git apply --check $src/seed_out/patch.diff 2>/dev/null; then echo "PATCH DOES NOT APPLY to current HEAD"; git apply --3way $src/seed_out/patch.diff 2>&1 | tail -3; fi
git apply $src/seed_out/patch.diff 2>/dev/null || git apply --3way $src/seed_out/patch.diff
git diff --stat | tail -3
# demo files = untracked test files the seeding agent left in its worktree (outside seed_out)
demos=$(git -C $src status --short | grep '^??' | awk '{print $2}' | grep -v '^seed_out' | grep -E '_test\.(go|py)$|demo')
echo "demo files: $demos"
for f in $demos; do mkdir -p $(dirname $f); cp $src/$f $f; done
python3 - <<PY
import json; m=json.load(open('$src/seed_out/meta.json')); print('needs:', m.get('needs_to_manifest','')[:300]); print('demo_run:', m.get('demo_run'))
PY
echo "--- run the demo command yourself: with patch (expect FAIL), then 'git stash' production change (expect PASS)"
