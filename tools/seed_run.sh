#!/bin/bash
# usage: tools/seed_run.sh <ID> <module dir rel. to repo> <go package path rel. to module> <test regex> [tier]
# expects tools/seed_validate.sh <ID> to have prepared /tmp/sv-<ID> (patch applied, demo copied)
id=$1; mod=$2; pkg=$3; rx=$4; tier=${5:-quick}
wt=/tmp/sv-$id
export GOFLAGS=-mod=mod GOPROXY=off GOSUMDB=off GOTOOLCHAIN=local
cd $wt/$mod || exit 2
prod=$(git -C $wt diff --name-only | grep -v policies.yaml)
go build ${SEED_BUILD:-./...} || { echo "BUILD FAILS WITH PATCH"; exit 1; }
echo "== demo with patch (expect FAIL):"; go test -vet=off -count=1 -run "$rx" $pkg 2>&1 | grep -E "^(ok|FAIL|--- FAIL)" | head -5
echo "== existing tests of $pkg with patch (demo excluded):"; go test -vet=off -count=1 -skip "$rx" $pkg 2>&1 | grep -E "^(ok|FAIL|--- FAIL)" | head -5
# (git stash is shared by all worktrees of a repository: never use it here)
(cd $wt && git diff -- $prod > /tmp/sv-$id.prod.diff && git checkout -- $prod)
echo "== demo without patch (expect ok):"; go test -vet=off -count=1 -run "$rx" $pkg 2>&1 | grep -E "^(ok|FAIL|--- FAIL)" | head -5
(cd $wt && git apply /tmp/sv-$id.prod.diff && rm -f /tmp/sv-$id.prod.diff)
git -C $wt checkout -- proxy/src/services/lunar-engine/streams/validation/policies.yaml 2>/dev/null
echo "== ./check $id --tier $tier against the patched worktree:"
cd /verif && VERIF_REPO=$wt ./check $id --tier $tier 2>&1 | grep -E "^(VIOLATION|INCONCL|C[0-9]+ |---|KNOWN)" | cut -c1-420 | head -8
rm -rf /verif/.build/replays-alt/$id
