#!/bin/bash
# Offline setup: compile every harness test binary once so that the checks start warm.
cd "$(dirname "$0")/.." || exit 1
export GOFLAGS=-mod=mod GOPROXY=off GOSUMDB=off GOTOOLCHAIN=local
mkdir -p .build evidence
cd harness || exit 1
go vet -tags verif ./internal/... >/dev/null 2>&1
rc=0
for d in c[0-9][0-9]*; do
  [ -d "$d" ] || continue
  go test -c -tags verif -o ../.build/"$d".test ./"$d" || rc=1
done
exit $rc
