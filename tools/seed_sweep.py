#!/usr/bin/env python3
"""Re-run the stored seeded changes against the checks as they are now.

usage: tools/seed_sweep.py [--jobs N] [--tier quick] [--seeds 1,2] [--out seeded/SWEEP.md] [seed-dir-names...]

For every seeded/<name>/ (patch.diff + meta.json): a scratch worktree of /repo is made outside /repo and /verif
(/tmp/sweep/<name>), at /repo's HEAD - or, when the patch does not apply there because a later fix: commit rewrote
the same lines, at the commit recorded in meta.json (validated_by_lead.repo_head) - the patch is applied, and the
checks that are recorded as catching it (./check CNN mentioned in validated_by_lead.detected, else the property's
own) are run with VERIF_REPO pointing at the worktree. A change counts as caught when one of them prints a
VIOLATION line for some seed of --seeds. The worktree and its build output are removed afterwards. Nothing is
ever applied to /repo. Development tool: not part of any registered command.
"""
import argparse, concurrent.futures as cf, json, os, re, shutil, subprocess, sys, time

ROOT = os.path.dirname(os.path.dirname(os.path.abspath(__file__)))
REPO = "/repo"
BASE = "/tmp/sweep"


def sh(cmd, cwd=None, env=None, timeout=None):
    p = subprocess.run(cmd, cwd=cwd, env=env, stdout=subprocess.PIPE, stderr=subprocess.STDOUT, text=True, timeout=timeout)
    return p.returncode, p.stdout


def one(name, tier, seeds):
    d = os.path.join(ROOT, "seeded", name)
    meta = json.load(open(os.path.join(d, "meta.json")))
    prop = meta.get("property") or name.split("-")[0]
    lead = meta.get("validated_by_lead", {})
    detected = lead.get("detected", "") if isinstance(lead, dict) else ""
    if detected.lower().startswith("not judged") or "left so on purpose" in detected.lower() or meta.get("not_judged"):
        return name, "not judged (by design)", "", ""
    checks = []
    for m in re.finditer(r"\./check (C\d\d)", detected):
        if m.group(1) not in checks:
            checks.append(m.group(1))
    if not checks:
        checks = [prop]
    wt = os.path.join(BASE, name)
    sh(["git", "-C", REPO, "worktree", "remove", "--force", wt])
    shutil.rmtree(wt, ignore_errors=True)
    heads = ["HEAD"]
    rh = str(lead.get("repo_head", "")).split()[0] if isinstance(lead, dict) and lead.get("repo_head") else ""
    if rh:
        heads += [rh, rh + "^"]  # a seed stored right after the fix it led to was validated on the commit before
    applied_at = None
    for h in heads:
        rc, out = sh(["git", "-C", REPO, "worktree", "add", "-q", "--detach", wt, h])
        if rc != 0:
            continue
        rc, out = sh(["git", "apply", os.path.join(d, "patch.diff")], cwd=wt)
        if rc != 0 and os.path.exists(os.path.join(d, "patch_on_hooked_head.diff")):
            # the same change merged by hand onto a tree that already carries a hook in the same lines
            rc, out = sh(["git", "apply", os.path.join(d, "patch_on_hooked_head.diff")], cwd=wt)
        if rc == 0:
            applied_at = h
            break
        sh(["git", "-C", REPO, "worktree", "remove", "--force", wt])
    if applied_at is None:
        return name, "patch applies neither at HEAD nor at the recorded commit", ",".join(checks), ""
    if applied_at != "HEAD":
        # an older tree lacks the hooks committed since: add them (they are add-only, tag-guarded)
        static = json.load(open(os.path.join(ROOT, "tools", "manifest_static.json")))
        for c in static.get("hooks", {}).get("source_commits", []):
            rc, _ = sh(["git", "-C", wt, "merge-base", "--is-ancestor", c, "HEAD"])
            if rc != 0:
                p = subprocess.run(["git", "-C", REPO, "format-patch", "-1", c, "--stdout"], stdout=subprocess.PIPE)
                subprocess.run(["git", "apply"], cwd=wt, input=p.stdout)
    env = dict(os.environ, VERIF_REPO=wt, GOFLAGS="-mod=mod", GOPROXY="off", GOSUMDB="off", GOTOOLCHAIN="local")
    verdict, by, line = "MISSED", "", ""
    t0 = time.time()
    try:
        for c in checks:
            for s in seeds:
                rc, out = sh([os.path.join(ROOT, "check"), c, "--tier", tier, "--seed", str(s)], cwd=ROOT, env=env, timeout=3600)
                v = [l for l in out.splitlines() if l.startswith("VIOLATION")]
                if v:
                    fl = [l for l in out.splitlines() if l.startswith("--- ")]
                    verdict, by = "caught", "%s (seed %d)" % (c, s)
                    line = (fl[0] if fl else v[0])[:200]
                    break
                if rc == 2:
                    verdict = "INCONCLUSIVE"
                    line = out.strip().splitlines()[-1][:200] if out.strip() else ""
            if verdict == "caught":
                break
    finally:
        sh(["git", "-C", REPO, "worktree", "remove", "--force", wt])
        shutil.rmtree(wt, ignore_errors=True)
        shutil.rmtree(os.path.join(ROOT, ".build", "alt-" + wt.strip("/").replace("/", "_")), ignore_errors=True)
    where = "" if applied_at == "HEAD" else " [applied at %s]" % applied_at
    return name, verdict + where, by or ",".join(checks), "%s (%.0fs)" % (line, time.time() - t0)


def main():
    ap = argparse.ArgumentParser()
    ap.add_argument("--jobs", type=int, default=3)
    ap.add_argument("--tier", default="quick")
    ap.add_argument("--seeds", default="1,2")
    ap.add_argument("--out", default=os.path.join(ROOT, "seeded", "SWEEP.md"))
    ap.add_argument("names", nargs="*")
    a = ap.parse_args()
    names = a.names or sorted(n for n in os.listdir(os.path.join(ROOT, "seeded")) if os.path.isdir(os.path.join(ROOT, "seeded", n)))
    seeds = [int(x) for x in a.seeds.split(",")]
    os.makedirs(BASE, exist_ok=True)
    rows = []
    with cf.ThreadPoolExecutor(max_workers=a.jobs) as ex:
        for r in ex.map(lambda n: one(n, a.tier, seeds), names):
            print(" | ".join(r), flush=True)
            rows.append(r)
    sh(["git", "-C", REPO, "worktree", "prune"])
    head = subprocess.run(["git", "-C", REPO, "rev-parse", "--short", "HEAD"], stdout=subprocess.PIPE, text=True).stdout.strip()
    vhead = subprocess.run(["git", "-C", ROOT, "rev-parse", "--short", "HEAD"], stdout=subprocess.PIPE, text=True).stdout.strip()
    if not a.names or a.out != os.path.join(ROOT, "seeded", "SWEEP.md"):
        with open(a.out, "w") as f:
            f.write("# Sweep of the stored seeded changes\n\n/repo %s, /verif %s, tier %s, seeds %s (tools/seed_sweep.py).\n\n" % (head, vhead, a.tier, a.seeds))
            n_c = sum(1 for r in rows if r[1].startswith("caught"))
            f.write("%d changes: %d caught, %d not judged by design, %d other.\n\n" % (
                len(rows), n_c, sum(1 for r in rows if r[1].startswith("not judged")),
                len(rows) - n_c - sum(1 for r in rows if r[1].startswith("not judged"))))
            f.write("| seed | result | by | first failure line |\n|---|---|---|---|\n")
            for r in rows:
                f.write("| %s | %s | %s | %s |\n" % (r[0], r[1], r[2], r[3].replace("|", "\\|")))
    bad = [r for r in rows if not (r[1].startswith("caught") or r[1].startswith("not judged"))]
    print("%d of %d not caught" % (len(bad), len(rows)))
    for r in bad:
        print("  ", " | ".join(r))


if __name__ == "__main__":
    main()
