package c08

import "github.com/rs/zerolog"

func silence() { zerolog.SetGlobalLevel(zerolog.Disabled) }

// attribute maps a violation to a listed known finding ("" = none).
func attribute(c tcase, o observation, err error) string {
	return ""
}
