// C08 — a configuration update is all-or-nothing.
package c08

import (
	"bytes"
	"crypto/sha256"
	"encoding/base64"
	"encoding/hex"
	"encoding/json"
	"errors"
	"fmt"
	"io"
	"net"
	"net/http"
	"net/http/httptest"
	"os"
	"path/filepath"
	"regexp"
	"sort"
	"strings"
	"sync"
	"sync/atomic"
	"testing"
	"time"

	"lunar/engine/routing"
	"lunar/toolkit-core/logging"
	"lunar/toolkit-core/verifhook"

	contextmanager "lunar/toolkit-core/context-manager"

	spoe "github.com/negasus/haproxy-spoe-go/action"
	"github.com/negasus/haproxy-spoe-go/message"
	"github.com/negasus/haproxy-spoe-go/payload/kv"
	"github.com/negasus/haproxy-spoe-go/request"
	"pgregory.net/rapid"

	"verif/harness/internal/engine"
	"verif/harness/internal/ev"
	"verif/harness/internal/loglevel"
)

// ---- in-process stand-in for HAProxy's admin/health endpoints ---------------------------------

type proxyStub struct {
	mu       sync.Mutex
	calls    int
	failFrom int // fail every call whose 1-based index is >= failFrom and < failTo (0 = never)
	failTo   int
	log      []string
	slow     atomic.Bool
	slowLeft atomic.Int32 // only the first five calls are slow: 1.5 s, past the 1 s budget
	lastCall time.Time
	// the proxy's include-body map as the admin calls leave it (PUT / DELETE /include_body_from with the
	// expression as body; .../include_body_from_all and /remove_body_from_all for the whole traffic)
	bodyFrom map[string]bool
	bodyAll  bool
}

// shipsBody: would the proxy hand the body of a transaction "METHOD:::url" to the engine?
func (p *proxyStub) shipsBody(subject string) bool {
	p.mu.Lock()
	defer p.mu.Unlock()
	if p.bodyAll {
		return true
	}
	for k := range p.bodyFrom {
		if re, err := regexp.Compile(k); err == nil && re.MatchString(subject) {
			return true
		}
	}
	return false
}

func (p *proxyStub) RoundTrip(req *http.Request) (*http.Response, error) {
	if p.slow.Load() && !strings.Contains(req.URL.Path, "healthcheck") && p.slowLeft.Add(-1) >= 0 {
		time.Sleep(300 * time.Millisecond)
	}
	p.mu.Lock()
	p.calls++
	p.lastCall = time.Now()
	n := p.calls
	fail := p.failFrom > 0 && n >= p.failFrom && n < p.failTo
	if len(p.log) < 200 {
		p.log = append(p.log, req.Method+" "+req.URL.Path)
	}
	p.mu.Unlock()
	text := ""
	if req.Body != nil {
		b, _ := io.ReadAll(req.Body)
		req.Body.Close()
		text = string(b)
	}
	code := 200
	if fail && !strings.Contains(req.URL.Path, "healthcheck") {
		code = 500
	}
	if code == 200 {
		p.mu.Lock()
		if p.bodyFrom == nil {
			p.bodyFrom = map[string]bool{}
		}
		switch {
		case strings.HasSuffix(req.URL.Path, "/include_body_from") && req.Method == http.MethodPut:
			p.bodyFrom[text] = true
		case strings.HasSuffix(req.URL.Path, "/include_body_from") && req.Method == http.MethodDelete:
			delete(p.bodyFrom, text)
		case strings.HasSuffix(req.URL.Path, "/include_body_from_all") && req.Method == http.MethodPut:
			p.bodyAll = true
		case strings.HasSuffix(req.URL.Path, "/remove_body_from_all"):
			p.bodyAll = false
		}
		p.mu.Unlock()
	}
	return &http.Response{StatusCode: code, Status: fmt.Sprintf("%d", code), Body: io.NopCloser(strings.NewReader("ok")), Header: http.Header{}, Request: req}, nil
}

func (p *proxyStub) quietFor(d time.Duration) bool {
	p.mu.Lock()
	defer p.mu.Unlock()
	return time.Since(p.lastCall) >= d
}

func (p *proxyStub) arm(from, to int) {
	p.mu.Lock()
	p.calls, p.failFrom, p.failTo = 0, from, to
	p.mu.Unlock()
}

func (p *proxyStub) count() int {
	p.mu.Lock()
	defer p.mu.Unlock()
	return p.calls
}

// ---- process-wide fixture -------------------------------------------------------------------------

var (
	root     string
	data     *routing.HandlingDataManager
	mux      *http.ServeMux
	handler  routing.MessageHandler
	stub     = &proxyStub{}
	setupErr error
)

func TestMain(m *testing.M) {
	base := os.Getenv("VERIF_SCRATCH")
	if base == "" {
		base = os.TempDir()
	}
	d, err := os.MkdirTemp(base, "c08-")
	if err != nil {
		fmt.Println("VERIF-INFRA: cannot create scratch dir:", err)
		os.Exit(2)
	}
	root = d
	for _, sub := range []string{"flows", "quotas", "path_params", "state"} {
		os.MkdirAll(filepath.Join(root, sub), 0o755)
	}
	repo := engine.Repo()
	metrics, _ := os.ReadFile(filepath.Join(repo, "proxy/metrics.yaml"))
	defaultMetrics = string(metrics)
	os.WriteFile(filepath.Join(root, "metrics_default.yaml"), metrics, 0o644)
	env := map[string]string{
		"LUNAR_STREAMS_ENABLED":              "true",
		"TENANT_NAME":                        "verif",
		"LUNAR_PROXY_FLOW_DIRECTORY":         filepath.Join(root, "flows"),
		"LUNAR_PROXY_QUOTAS_DIRECTORY":       filepath.Join(root, "quotas"),
		"LUNAR_FLOWS_PATH_PARAM_DIR":         filepath.Join(root, "path_params"),
		"LUNAR_PROXY_CONFIG":                 filepath.Join(root, "gateway_config.yaml"),
		"LUNAR_PROXY_METRICS_CONFIG":         filepath.Join(root, "metrics_user.yaml"),
		"LUNAR_PROXY_METRICS_CONFIG_DEFAULT": filepath.Join(root, "metrics_default.yaml"),
		"DISCOVERY_STATE_LOCATION":           filepath.Join(root, "state", "discovery.json"),
		"REMEDY_STATE_LOCATION":              filepath.Join(root, "state", "remedy.json"),
		"LUNAR_FLOWS_PATH_PARAM_CONFIG":      filepath.Join(root, "state", "path_param_conf.yaml"),
	}
	for k, v := range env {
		os.Setenv(k, v)
	}
	os.Setenv("LUNAR_SERVER_TIMEOUT_SEC", "1")
	engine.Setup()
	http.DefaultTransport = stub
	// the manager dials a syslog exporter on 127.0.0.1:5140 and retries for seconds if nobody listens
	if ln, err := net.Listen("tcp", "127.0.0.1:5140"); err == nil {
		go func() {
			for {
				c, err := ln.Accept()
				if err != nil {
					return
				}
				go io.Copy(io.Discard, c)
			}
		}()
	}
	writeInitial(initialConfig{Flows: map[string]string{"f0.yaml": flowYAML("f0", "h.com/f0", "m0")}})
	setupErr = func() (err error) {
		defer func() {
			if r := recover(); r != nil {
				err = fmt.Errorf("panic in manager setup: %v", r)
			}
		}()
		clock := contextmanager.Get().GetClock()
		tw := logging.ConfigureLogger("lunar-engine", false, clock)
		if os.Getenv("VERIF_LOG") == "" {
			// ConfigureLogger resets the global level
			silence()
		}
		data = routing.NewHandlingDataManager(10*time.Second, nil)
		if err := data.Setup(tw); err != nil {
			return err
		}
		mux = http.NewServeMux()
		data.SetHandleRoutes(mux)
		handler = routing.Handler(data)
		return nil
	}()
	code := m.Run()
	os.RemoveAll(d)
	os.Exit(code)
}

// ---- configuration files ---------------------------------------------------------------------------

// flowYAML: a marker that ends in "+b" gives a flow whose request path also has a processor that needs the
// request body (DataSanitation behind the Filter's hit branch): the proxy must then be told to ship the body.
func flowYAML(name, url, marker string) string {
	y := flowYAMLPlain(name, url, marker)
	if !strings.HasSuffix(marker, "+b") {
		return y
	}
	y = strings.Replace(y, "  Gen:\n", "  San:\n    processor: DataSanitation\n  Gen:\n", 1)
	return strings.Replace(y, `          condition: hit
      to:
        stream:
          name: globalStream
          at: end
`, `          condition: hit
      to:
        processor:
          name: San
    - from:
        processor:
          name: San
      to:
        stream:
          name: globalStream
          at: end
`, 1)
}

func flowNeedsBody(text string) bool { return strings.Contains(text, "processor: DataSanitation") }

func flowYAMLPlain(name, url, marker string) string {
	return fmt.Sprintf(`name: %s
filter:
  url: "%s"
processors:
  Flt:
    processor: Filter
    parameters:
      - key: header
        value: "x-pass=1"
  Gen:
    processor: GenerateResponse
    parameters:
      - key: status
        value: 418
      - key: body
        value: "%s"
flow:
  request:
    - from:
        stream:
          name: globalStream
          at: start
      to:
        processor:
          name: Flt
    - from:
        processor:
          name: Flt
          condition: miss
      to:
        processor:
          name: Gen
    - from:
        processor:
          name: Flt
          condition: hit
      to:
        stream:
          name: globalStream
          at: end
  response:
    - from:
        processor:
          name: Gen
      to:
        stream:
          name: globalStream
          at: end
    - from:
        stream:
          name: globalStream
          at: start
      to:
        stream:
          name: globalStream
          at: end
`, name, url, marker)
}

const cyclicFlow = `name: cyc
filter:
  url: "h.com/cyc"
processors:
  A:
    processor: Filter
    parameters:
      - key: header
        value: "x-a=1"
flow:
  request:
    - from:
        stream:
          name: globalStream
          at: start
      to:
        processor:
          name: A
    - from:
        processor:
          name: A
          condition: hit
      to:
        processor:
          name: A
  response:
    - from:
        stream:
          name: globalStream
          at: start
      to:
        stream:
          name: globalStream
          at: end
`

func quotaYAML(id string, max int) string {
	return fmt.Sprintf("quotas:\n  - id: %s\n    filter:\n      url: \"h.com/*\"\n    strategy:\n      fixed_window:\n        max: %d\n        interval: 1\n        interval_unit: hour\n", id, max)
}

type initialConfig struct {
	Flows  map[string]string `json:"flows"`
	Quotas map[string]string `json:"quotas,omitempty"`
	// further configuration files by path relative to the configuration root, possibly in sub-directories
	// (e.g. path_params/team-a/params.yaml, which the path-parameter loader reads recursively)
	Other map[string]string `json:"other,omitempty"`
	// a user metrics file exists (otherwise the gateway reads its built-in default file)
	UserMetrics bool `json:"user_metrics_file,omitempty"`
}

func cleanDir(dir string) {
	entries, _ := os.ReadDir(dir)
	for _, e := range entries {
		os.RemoveAll(filepath.Join(dir, e.Name()))
	}
}

func writeInitial(c initialConfig) {
	cleanDir(filepath.Join(root, "flows"))
	cleanDir(filepath.Join(root, "quotas"))
	cleanDir(filepath.Join(root, "path_params"))
	os.Remove(filepath.Join(root, "gateway_config.yaml"))
	os.Remove(filepath.Join(root, "metrics_user.yaml"))
	for n, t := range c.Flows {
		os.WriteFile(filepath.Join(root, "flows", n), []byte(t), 0o644)
	}
	for n, t := range c.Quotas {
		os.WriteFile(filepath.Join(root, "quotas", n), []byte(t), 0o644)
	}
	for rel, t := range c.Other {
		os.MkdirAll(filepath.Dir(filepath.Join(root, rel)), 0o755)
		os.WriteFile(filepath.Join(root, rel), []byte(t), 0o644)
	}
	// the gateway's built-in default metrics file is part of the configuration on disk: always in its original state
	os.WriteFile(filepath.Join(root, "metrics_default.yaml"), []byte(defaultMetrics), 0o644)
	if c.UserMetrics {
		os.WriteFile(filepath.Join(root, "metrics_user.yaml"), []byte(defaultMetrics+"\n# user file\n"), 0o644)
	}
}

// diskFingerprint covers the configuration files an update addresses (flows, quotas, gateway and metrics config).
func diskFingerprint() map[string]string {
	out := map[string]string{}
	for _, sub := range []string{"flows", "quotas", "path_params"} {
		filepath.Walk(filepath.Join(root, sub), func(p string, info os.FileInfo, err error) error {
			if err == nil && !info.IsDir() {
				b, _ := os.ReadFile(p)
				h := sha256.Sum256(b)
				rel, _ := filepath.Rel(root, p)
				out[rel] = hex.EncodeToString(h[:8])
			}
			return nil
		})
	}
	for _, f := range []string{"gateway_config.yaml", "metrics_user.yaml", "metrics_default.yaml"} {
		if b, err := os.ReadFile(filepath.Join(root, f)); err == nil {
			h := sha256.Sum256(b)
			out[f] = hex.EncodeToString(h[:8])
		}
	}
	return out
}

func fpString(m map[string]string) string {
	keys := []string{}
	for k := range m {
		keys = append(keys, k)
	}
	sort.Strings(keys)
	parts := []string{}
	for _, k := range keys {
		parts = append(parts, k+"="+m[k])
	}
	return strings.Join(parts, " ")
}

// ---- probing the running configuration through the SPOE handler ---------------------------------------

var probeSeq atomic.Int64

// defaultMetrics is the text of the repository's proxy/metrics.yaml (the gateway's built-in metrics configuration)
var defaultMetrics string

// probe sends one request for url through routing.Handler and returns the body of the early response ("" = passed through).
func probe(url string) (marker string, err error) {
	defer func() {
		if r := recover(); r != nil {
			err = fmt.Errorf("panic while handling a transaction: %v", r)
		}
	}()
	id := fmt.Sprintf("p%d", probeSeq.Add(1))
	k := kv.NewKV()
	k.Add("id", id)
	k.Add("sequence_id", id)
	k.Add("method", "GET")
	k.Add("scheme", "https")
	k.Add("url", url)
	k.Add("path", url[strings.Index(url, "/"):])
	k.Add("query", "")
	k.Add("headers", "host: h.com\r\n\r\n") // the proxy's req.hdrs dump: CRLF-terminated lines and the closing empty line
	k.Add("body", []byte(""))
	msgs := message.Messages{&message.Message{Name: "lunar-on-request", KV: k}}
	req := &request.Request{Messages: &msgs}
	handler(req)
	for _, a := range req.Actions {
		if a.Type == spoe.TypeSetVar && a.Name == "response_body" {
			if b, ok := a.Value.([]byte); ok {
				return string(b), nil
			}
		}
	}
	return "", nil
}

// ---- model of a configuration: url -> marker -------------------------------------------------------------

type flowFile struct {
	URL, Marker string
	Valid       bool
}

func parseFlowFile(text string) flowFile {
	f := flowFile{}
	for _, line := range strings.Split(text, "\n") {
		l := strings.TrimSpace(line)
		if strings.HasPrefix(l, "url:") {
			f.URL = strings.Trim(strings.TrimSpace(strings.TrimPrefix(l, "url:")), `"`)
		}
		if strings.HasPrefix(l, "value: \"m") {
			f.Marker = strings.Trim(strings.TrimSpace(strings.TrimPrefix(l, "value:")), `"`)
		}
	}
	f.Valid = f.URL != "" && f.Marker != "" && strings.Contains(text, "GenerateResponse")
	return f
}

func behaviourOf(flows map[string]string) map[string]string {
	out := map[string]string{}
	for _, t := range flows {
		if f := parseFlowFile(t); f.Valid {
			out[f.URL] = f.Marker
		}
	}
	return out
}

var probeURLs = []string{"h.com/f0", "h.com/f1", "h.com/f2", "h.com/f3", "h.com/none"}

func probeAll() (map[string]string, error) {
	out := map[string]string{}
	for _, u := range probeURLs {
		m, err := probe(u)
		if err != nil {
			return nil, err
		}
		if m != "" {
			out[u] = m
		}
	}
	return out, nil
}

// ---- generated case --------------------------------------------------------------------------------------------

type payloadFile struct {
	Name string `json:"name"`
	Bad  bool   `json:"bad,omitempty"` // the file alone makes the update fail (undecodable, not YAML, rejected by validation)
	Text string `json:"text"`
	Raw  string `json:"raw_base64,omitempty"` // sent instead of base64(Text) when set (undecodable content)
}

type tcase struct {
	Initial  initialConfig `json:"initial"`
	Endpoint string        `json:"endpoint"` // /configuration | /apply_flows
	Flows    []payloadFile `json:"payload_flows"`
	Quotas   []payloadFile `json:"payload_quotas,omitempty"`
	Params   []payloadFile `json:"payload_path_params,omitempty"`
	NoFlows  bool          `json:"payload_without_flows,omitempty"`
	Metrics  string        `json:"payload_metrics,omitempty"` // "" | valid | changed | not-yaml | wrong-shape | undecodable
	UserMet  bool          `json:"initial_user_metrics_file,omitempty"`
	FaultOp  string        `json:"fault_op,omitempty"` // fs.store | fs.remove | fs.walk | proxy
	FaultAt  int           `json:"fault_at,omitempty"` // 1-based index of the failing call
	InFlight bool          `json:"probe_during_switch,omitempty"`
	// SlowProxy: every admin call of this update takes 300 ms of real time, so that the update as a whole outlasts
	// the gateway's server timeout (LUNAR_SERVER_TIMEOUT_SEC, 1 s in this harness)
	SlowProxy bool `json:"slow_proxy,omitempty"`
}

func genCase() *rapid.Generator[tcase] {
	return rapid.Custom(func(t *rapid.T) tcase {
		c := tcase{Initial: initialConfig{Flows: map[string]string{}}}
		ni := rapid.IntRange(1, 3).Draw(t, "ninitial")
		for i := 0; i < ni; i++ {
			m := fmt.Sprintf("m%d", i)
			if rapid.IntRange(0, 3).Draw(t, "initial-needs-body") == 0 {
				m += "+b"
			}
			c.Initial.Flows[fmt.Sprintf("f%d.yaml", i)] = flowYAML(fmt.Sprintf("f%d", i), fmt.Sprintf("h.com/f%d", i), m)
		}
		if rapid.IntRange(0, 2).Draw(t, "iq") == 1 {
			c.Initial.Quotas = map[string]string{"q.yaml": quotaYAML("Q1", 1000)}
		}
		if rapid.IntRange(0, 2).Draw(t, "nested") == 1 {
			c.Initial.Other = map[string]string{}
			if rapid.Bool().Draw(t, "nested-pp") {
				c.Initial.Other["path_params/team-a/params.yaml"] = "path_params:\n  - url: h.com/p/{id}\n"
			}
			if rapid.Bool().Draw(t, "nested-flow") {
				c.Initial.Other["flows/archive/old.yaml.txt"] = "kept for reference\n"
			}
			if rapid.Bool().Draw(t, "flat-pp") {
				c.Initial.Other["path_params/params.yaml"] = "path_params:\n  - url: h.com/q/{id}\n"
			}
			// files of zero length that a deployment keeps in the configuration directories (placeholders the
			// *.yaml loaders ignore): they are files like any other for "byte-for-byte what they were"
			if rapid.Bool().Draw(t, "empty-files") {
				for _, p := range rapid.SliceOfNDistinct(rapid.SampledFrom([]string{"flows/.gitkeep", "quotas/.gitkeep", "path_params/.gitkeep", "flows/archive/.keep"}), 1, 3, rapid.ID[string]).Draw(t, "which-empty") {
					c.Initial.Other[p] = ""
				}
			}
		}
		if rapid.IntRange(0, 3).Draw(t, "ppayload") == 1 {
			c.Params = append(c.Params, payloadFile{Name: rapid.SampledFrom([]string{"params.yaml", "team-a/params.yaml", "team-b/more.yaml"}).Draw(t, "ppname"),
				Text: "path_params:\n  - url: h.com/r/{rid}\n"})
		}
		c.Endpoint = rapid.SampledFrom([]string{"/configuration", "/configuration", "/apply_flows"}).Draw(t, "endpoint")
		c.SlowProxy = rapid.IntRange(0, 29).Draw(t, "slow-proxy") == 17
		np := rapid.IntRange(0, 3).Draw(t, "npayload")
		for i := 0; i < np; i++ {
			idx := rapid.IntRange(0, 3).Draw(t, "fidx")
			name := fmt.Sprintf("f%d.yaml", idx)
			pf := payloadFile{Name: name}
			switch rapid.IntRange(0, 9).Draw(t, "fkind") {
			case 0:
				pf.Text, pf.Bad = "name: [unclosed\n  filter: : :\n", true
			case 1:
				pf.Text, pf.Bad = cyclicFlow, true
			case 2:
				pf.Raw, pf.Bad = "!!!not-base64!!!", true
			case 3:
				pf.Bad = true
				pf.Text = strings.Replace(flowYAML(fmt.Sprintf("f%d", idx), fmt.Sprintf("h.com/f%d", idx), "mX"), "GenerateResponse", "NoSuchProcessor", 1)
			default:
				m := fmt.Sprintf("m%d-%d", idx, rapid.IntRange(1, 3).Draw(t, "ver"))
				if rapid.IntRange(0, 2).Draw(t, "needs-body") == 0 {
					m += "+b" // this revision of the flow needs the request body
				}
				pf.Text = flowYAML(fmt.Sprintf("f%d", idx), fmt.Sprintf("h.com/f%d", idx), m)
			}
			dup := false
			for _, o := range c.Flows {
				dup = dup || o.Name == pf.Name
			}
			if !dup {
				c.Flows = append(c.Flows, pf)
			}
		}
		if np == 0 {
			c.NoFlows = rapid.Bool().Draw(t, "noflows")
		}
		if rapid.IntRange(0, 3).Draw(t, "pq") == 1 {
			q := payloadFile{Name: "q.yaml", Text: quotaYAML("Q2", 5)}
			if rapid.IntRange(0, 2).Draw(t, "badq") == 1 {
				q.Bad = true
				q.Text = "quotas:\n  - id: Q2\n    strategy:\n      fixed_window:\n        max: 0\n"
			}
			c.Quotas = append(c.Quotas, q)
		}
		// the payload may also carry the metrics configuration (reloaded after the new stream is published);
		// the gateway may or may not already have a user metrics file
		switch rapid.IntRange(0, 11).Draw(t, "metrics") {
		case 0, 1:
			c.Metrics = "valid"
		case 2:
			c.Metrics = "changed"
		case 3:
			c.Metrics = "not-yaml"
		case 4:
			c.Metrics = "wrong-shape"
		case 5:
			c.Metrics = "undecodable"
		}
		c.UserMet = rapid.IntRange(0, 2).Draw(t, "usermetrics") == 0
		faultKind := rapid.IntRange(0, 5).Draw(t, "fault")
		if c.badPayload() {
			faultKind = 0 // one failure per update: a rejected payload is not combined with an injected fault
		}
		switch faultKind {
		case 1:
			c.FaultOp, c.FaultAt = "fs.store", rapid.IntRange(1, 6).Draw(t, "at")
		case 2:
			c.FaultOp, c.FaultAt = "fs.remove", rapid.IntRange(1, 8).Draw(t, "at")
		case 3:
			c.FaultOp, c.FaultAt = "fs.walk", rapid.IntRange(1, 6).Draw(t, "at")
		case 4:
			c.FaultOp, c.FaultAt = "proxy", rapid.IntRange(1, 6).Draw(t, "at")
		}
		c.InFlight = rapid.IntRange(0, 2).Draw(t, "inflight") == 1
		c.Initial.UserMetrics = c.UserMet
		return c
	})
}

func (c tcase) body() []byte {
	p := map[string]any{}
	if !c.NoFlows || len(c.Flows) > 0 {
		fl := map[string]string{}
		for _, f := range c.Flows {
			if f.Raw != "" {
				fl[f.Name] = f.Raw
			} else {
				fl[f.Name] = base64.StdEncoding.EncodeToString([]byte(f.Text))
			}
		}
		p["flows"] = fl
	}
	if len(c.Quotas) > 0 {
		q := map[string]string{}
		for _, f := range c.Quotas {
			q[f.Name] = base64.StdEncoding.EncodeToString([]byte(f.Text))
		}
		p["quotas"] = q
	}
	if len(c.Params) > 0 {
		q := map[string]string{}
		for _, f := range c.Params {
			q[f.Name] = base64.StdEncoding.EncodeToString([]byte(f.Text))
		}
		p["path_params"] = q
	}
	if m := c.metricsText(); m != "" {
		p["metrics"] = base64.StdEncoding.EncodeToString([]byte(m))
		if c.Metrics == "undecodable" {
			p["metrics"] = "!!!not-base64!!!"
		}
	}
	b, _ := json.Marshal(p)
	return b
}

func (c tcase) metricsText() string {
	switch c.Metrics {
	case "valid":
		return defaultMetrics
	case "changed":
		return defaultMetrics + "\n# pushed by the update\n"
	case "not-yaml":
		return "general_metrics: [unclosed\n  label_value: : :\n"
	case "wrong-shape":
		return "general_metrics: 17\napi_call_metrics: just a string\n"
	case "undecodable":
		return "x"
	}
	return ""
}

func (c tcase) badPart() string {
	if c.Metrics == "not-yaml" || c.Metrics == "wrong-shape" || c.Metrics == "undecodable" {
		return "metrics entry: " + c.Metrics
	}
	for _, f := range append(append([]payloadFile{}, c.Flows...), c.Quotas...) {
		if f.Bad {
			return "file " + f.Name
		}
	}
	return ""
}

func (c tcase) badPayload() bool {
	if c.Metrics == "not-yaml" || c.Metrics == "wrong-shape" || c.Metrics == "undecodable" {
		return true
	}
	for _, f := range append(append([]payloadFile{}, c.Flows...), c.Quotas...) {
		if f.Bad {
			return true
		}
	}
	return false
}

// expectedAfterSuccess: the files on disk if the update is applied as documented
func (c tcase) expectedAfterSuccess() map[string]string {
	flows := map[string]string{}
	if c.Endpoint == "/configuration" {
		for n, t := range c.Initial.Flows {
			flows[n] = t
		}
	}
	for _, f := range c.Flows {
		flows[f.Name] = f.Text
	}
	return flows
}

type infraErr struct{ msg string }

func (e infraErr) Error() string { return "VERIF-INFRA: " + e.msg }

var errFault = errors.New("verif: injected fault")

func put(path string, body []byte) int {
	rr := httptest.NewRecorder()
	req := httptest.NewRequest(http.MethodPut, path, bytes.NewReader(body))
	mux.ServeHTTP(rr, req)
	return rr.Code
}

func post(path string) (int, string) {
	rr := httptest.NewRecorder()
	req := httptest.NewRequest(http.MethodPost, path, nil)
	mux.ServeHTTP(rr, req)
	return rr.Code, rr.Body.String()
}

type observation struct {
	Status       int               `json:"status"`
	DiskBefore   string            `json:"disk_before"`
	DiskAfter    string            `json:"disk_after"`
	BehavBefore  map[string]string `json:"behaviour_before"`
	BehavAfter   map[string]string `json:"behaviour_after"`
	DuringSwitch []string          `json:"during_switch,omitempty"`
	FaultFired   bool              `json:"fault_fired"`
}

func eqMap(a, b map[string]string) bool {
	if len(a) != len(b) {
		return false
	}
	for k, v := range a {
		if b[k] != v {
			return false
		}
	}
	return true
}

func runCase(r *ev.Recorder, c tcase) (nontrivial bool, obs observation, err error) {
	// 1. known-good starting point
	verifhook.SetFault(nil)
	verifhook.SetYield(nil)
	stub.arm(0, 0)
	writeInitial(c.Initial)
	if code, body := post("/load_flows"); code != 200 {
		return false, obs, infraErr{fmt.Sprintf("cannot load the initial configuration: %d %s", code, body)}
	}
	before := diskFingerprint()
	behBefore, e := probeAll()
	if e != nil {
		return false, obs, e
	}
	if !eqMap(behBefore, behaviourOf(c.Initial.Flows)) {
		return false, obs, infraErr{fmt.Sprintf("initial behaviour %v differs from the initial files %v", behBefore, behaviourOf(c.Initial.Flows))}
	}
	obs.DiskBefore, obs.BehavBefore = fpString(before), behBefore
	// 2. the update, under the fault plan
	var fired atomic.Bool
	var calls atomic.Int64
	if strings.HasPrefix(c.FaultOp, "fs.") {
		op, at := c.FaultOp, int64(c.FaultAt)
		verifhook.SetFault(func(point, arg string) error {
			if point != op {
				return nil
			}
			if calls.Add(1) == at {
				fired.Store(true)
				return errFault
			}
			return nil
		})
	} else if c.FaultOp == "proxy" {
		stub.arm(c.FaultAt, c.FaultAt+1)
	}
	var during []string
	var duringErr error
	if c.InFlight {
		newBeh := behaviourOf(c.expectedAfterSuccess())
		verifhook.SetYield(func(point, _ string) {
			if point != "streams.published" {
				return
			}
			// the new stream object is visible to traffic now; Initialize has not run yet
			for _, u := range probeURLs {
				m, e := probe(u)
				if e != nil {
					duringErr = e
					return
				}
				during = append(during, u+"="+m)
				if m != behBefore[u] && m != newBeh[u] {
					duringErr = fmt.Errorf("a transaction for %s handled during the switch got %q: neither the old configuration (%q) nor the new one (%q)", u, m, behBefore[u], newBeh[u])
				}
			}
		})
	}
	stub.slowLeft.Store(5)
	stub.slow.Store(c.SlowProxy)
	obs.Status = put(c.Endpoint, c.body())
	if c.SlowProxy {
		// whatever still works on the update after the answer has been given comes to rest first
		stub.slow.Store(false)
		for k := 0; k < 100 && !stub.quietFor(500*time.Millisecond); k++ {
			time.Sleep(50 * time.Millisecond)
		}
	}
	verifhook.SetFault(nil)
	verifhook.SetYield(nil)
	if c.FaultOp == "proxy" {
		fired.Store(stub.count() >= c.FaultAt)
		stub.arm(0, 0)
	}
	obs.FaultFired = fired.Load()
	obs.DuringSwitch = during
	after := diskFingerprint()
	behAfter, e := probeAll()
	if e != nil {
		return false, obs, e
	}
	obs.DiskAfter, obs.BehavAfter = fpString(after), behAfter
	ok := obs.Status >= 200 && obs.Status < 300
	r.Class(fmt.Sprintf("%s status=%d", c.Endpoint, obs.Status))
	if obs.FaultFired {
		r.Class("fault fired: " + c.FaultOp)
	}
	if duringErr != nil {
		return true, obs, duringErr
	}
	if !ok {
		nontrivial = obs.FaultFired || len(c.Flows) > 0
		if obs.FaultFired && c.badPayload() {
			// two independent failures (a payload that is rejected anyway plus an injected fault, which then
			// may hit the recovery step itself): the statement quantifies over one failure per update
			r.Class("double failure (not judged)")
			return false, obs, nil
		}
		if fpString(after) != fpString(before) {
			return nontrivial, obs, fmt.Errorf("update answered %d but the configuration files changed: before [%s] after [%s]", obs.Status, fpString(before), fpString(after))
		}
		if !eqMap(behAfter, behBefore) {
			return nontrivial, obs, fmt.Errorf("update answered %d but the running flows changed: before %v after %v", obs.Status, behBefore, behAfter)
		}
		return nontrivial, obs, nil
	}
	// success: nothing in the payload may have failed to load (an update is applied entirely or not at all) ...
	if c.badPayload() {
		return true, obs, fmt.Errorf("update answered %d although a part of its payload cannot be loaded (%s): it was neither rejected nor applied as a whole; files now [%s]", obs.Status, c.badPart(), fpString(after))
	}
	// ... /apply_flows replaces the whole configuration: a file of the old one that the payload does not carry is
	// gone afterwards (the user metrics file is the one such file outside the flow / quota directories); left on
	// disk it makes the running configuration the new flows with the old metrics - neither configuration as a whole
	if c.Endpoint == "/apply_flows" && c.Metrics == "" {
		if _, was := before["metrics_user.yaml"]; was {
			if _, still := after["metrics_user.yaml"]; still {
				return true, obs, fmt.Errorf("update answered %d (/apply_flows replaces the whole configuration) but the user metrics file of the old configuration is still on disk although the payload carries none (injected fault fired: %v): files now [%s]", obs.Status, obs.FaultFired, fpString(after))
			}
		}
	}
	// ... and the running flows are exactly those of the files now on disk, and those are the documented result
	want := behaviourOf(c.expectedAfterSuccess())
	if !eqMap(behAfter, want) {
		return true, obs, fmt.Errorf("update answered %d but the running flows %v are not those of the new configuration %v", obs.Status, behAfter, want)
	}
	// ... and the proxy was told what the new flows need: a flow that needs the request body is handled by the
	// new configuration only if the proxy ships the body for its transactions
	for _, text := range c.expectedAfterSuccess() {
		if f := parseFlowFile(text); f.Valid && flowNeedsBody(text) {
			r.Class("running flow needs the request body")
			if !stub.shipsBody("GET:::" + f.URL) {
				return true, obs, fmt.Errorf("update answered %d and flow %s of the new configuration needs the request body, but the proxy was not told to ship it for GET %s (no include_body_from registration matches): its transactions are handled by the new flow with the old registration", obs.Status, f.URL, f.URL)
			}
		}
	}
	return c.InFlight || len(c.Flows) > 0, obs, nil
}

func TestConfigurationUpdates(t *testing.T) {
	if setupErr != nil {
		fmt.Println("VERIF-INFRA: manager setup failed:", setupErr)
		t.Fatalf("%v", setupErr)
	}
	r := ev.New(t, "C08")
	rapid.Check(t, func(t *rapid.T) {
		c := genCase().Draw(t, "case")
		level := loglevel.Gen().Draw(t, "log level")
		r.Class("log level " + level)
		defer loglevel.Set(level)()
		r.Case()
		nt, obs, err := runCase(r, c)
		if err != nil {
			if _, infra := err.(infraErr); infra {
				fmt.Println(err.Error())
				t.Fatalf("%v", err)
			}
			if id := attribute(c, obs, err); id != "" && r.KnownFinding(id, func() any { return map[string]any{"case": c, "observed": obs} }) {
				return
			}
			t.Fatalf("%s", r.Fail(map[string]any{"case": c, "observed": obs}, "%v", err))
		}
		if nt {
			r.NonTrivial(ev.JSON(c), func() any { return map[string]any{"case": c, "observed": obs} })
		}
	})
}

// TestFaultEnumeration: for fixed valid payloads on both endpoints, a dry run counts the calls of every
// file-system operation and of the proxy's admin endpoints; then a failure is injected at each of them in turn.
func TestFaultEnumeration(t *testing.T) {
	if setupErr != nil {
		fmt.Println("VERIF-INFRA: manager setup failed:", setupErr)
		t.Fatalf("%v", setupErr)
	}
	r := ev.New(t, "C08")
	initial := initialConfig{Flows: map[string]string{
		"f0.yaml": flowYAML("f0", "h.com/f0", "m0"),
		"f1.yaml": flowYAML("f1", "h.com/f1", "m1"),
	}, Quotas: map[string]string{"q.yaml": quotaYAML("Q1", 1000)}}
	payloads := [][]payloadFile{
		{{Name: "f0.yaml", Text: flowYAML("f0", "h.com/f0", "m0-2")}, {Name: "f2.yaml", Text: flowYAML("f2", "h.com/f2", "m2-1")}},
		{{Name: "f1.yaml", Text: flowYAML("f1", "h.com/f1", "m1-3")}},
	}
	total := 0
	for _, endpoint := range []string{"/configuration", "/apply_flows"} {
		for pi, pl := range payloads {
			// with and without a user metrics file in the configuration before the update (the second payload only:
			// /apply_flows has to remove it, the payload carries no metrics section)
			for _, inflight := range []bool{false, true} {
				initial := initial
				userMetrics := false
				if pi == 1 && inflight {
					initial.UserMetrics, userMetrics = true, true
				}
				base := tcase{Initial: initial, Endpoint: endpoint, Flows: pl, InFlight: inflight, UserMet: userMetrics}
				if pi == 1 {
					base.Quotas = []payloadFile{{Name: "q.yaml", Text: quotaYAML("Q2", 5)}}
				}
				// dry run: count the calls
				counts := map[string]*atomic.Int64{"fs.store": {}, "fs.remove": {}, "fs.walk": {}}
				verifhook.SetFault(func(point, _ string) error {
					if c, ok := counts[point]; ok {
						c.Add(1)
					}
					return nil
				})
				stub.arm(0, 0)
				writeInitial(initial)
				if code, body := post("/load_flows"); code != 200 {
					fmt.Println("VERIF-INFRA: cannot load the initial configuration:", code, body)
					t.Fatalf("load")
				}
				for _, c := range counts {
					c.Store(0)
				}
				stub.arm(0, 0)
				if st := put(endpoint, base.body()); st != 200 {
					t.Fatalf("%s", r.Fail(base, "fault-free dry run of a valid update answered %d", st))
				}
				verifhook.SetFault(nil)
				n := map[string]int{"fs.store": int(counts["fs.store"].Load()), "fs.remove": int(counts["fs.remove"].Load()), "fs.walk": int(counts["fs.walk"].Load()), "proxy": stub.count()}
				r.Note(fmt.Sprintf("%s payload#%d: calls %v", endpoint, pi, n))
				for op, cnt := range n {
					for k := 1; k <= cnt; k++ {
						c := base
						c.FaultOp, c.FaultAt = op, k
						r.Case()
						total++
						nt, obs, err := runCase(r, c)
						if err != nil {
							if _, infra := err.(infraErr); infra {
								fmt.Println(err.Error())
								t.Fatalf("%v", err)
							}
							if id := attribute(c, obs, err); id != "" && r.KnownFinding(id, func() any { return map[string]any{"case": c, "observed": obs} }) {
								continue
							}
							t.Fatalf("%s", r.Fail(map[string]any{"case": c, "observed": obs}, "%v", err))
						}
						if nt {
							r.NonTrivial(ev.JSON(c), func() any { return map[string]any{"case": c, "observed": obs} })
						}
					}
				}
			}
		}
	}
	r.SetExhaustive(true)
	r.Note(fmt.Sprintf("every single-fault plan of the fixed payloads: %d cases", total))
}

// TestRegressionFixedDefects replays the minimal cases of the defects that were repaired in /repo (see
// known_findings.json, "fixed"); it fails if one of them returns.
func TestRegressionFixedDefects(t *testing.T) {
	if setupErr != nil {
		fmt.Println("VERIF-INFRA: manager setup failed:", setupErr)
		t.Fatalf("%v", setupErr)
	}
	r := ev.New(t, "C08")
	f0 := map[string]string{"f0.yaml": flowYAML("f0", "h.com/f0", "m0")}
	cases := []tcase{
		// 2d3f376: a rejected metrics entry overwrote the gateway's built-in default metrics file
		{Initial: initialConfig{Flows: f0}, Endpoint: "/configuration", Metrics: "not-yaml"},
		{Initial: initialConfig{Flows: f0}, Endpoint: "/apply_flows", Metrics: "wrong-shape",
			Flows: []payloadFile{{Name: "f1.yaml", Text: flowYAML("f1", "h.com/f1", "m1-1")}}},
		// a1efb6b / 6e11adc: an added quota file stayed on disk after a rejected update
		{Initial: initialConfig{Flows: f0}, Endpoint: "/configuration",
			Quotas: []payloadFile{{Name: "q.yaml", Bad: true, Text: "quotas:\n  - id: Q2\n    strategy:\n      fixed_window:\n        max: 0\n"}}},
		{Initial: initialConfig{Flows: f0}, Endpoint: "/apply_flows",
			Flows: []payloadFile{{Name: "f1.yaml", Bad: true, Text: cyclicFlow}}},
	}
	for i, c := range cases {
		r.Case()
		_, obs, err := runCase(r, c)
		if err != nil {
			if _, infra := err.(infraErr); infra {
				fmt.Println(err.Error())
			}
			t.Fatalf("%s", r.Fail(map[string]any{"case": c, "observed": obs}, "regression case %d: %v", i, err))
		}
		r.NonTrivial(ev.JSON(c), func() any { return map[string]any{"case": c, "observed": obs} })
	}
}
