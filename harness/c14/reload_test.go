package c14

// Stateful end-to-end unit: the proxy's managed-endpoint map over a history of reloads. The in-process proxy
// keeps the map the way HAProxy does (PUT /managed_endpoint adds the key, DELETE removes it, /manage_all and
// /unmanage_global set and clear the manage-all flag), may answer one generated admin call with 503, and the
// gateway's deferred un-registration (30 s after a reload, on the process clock) is driven by a virtual clock.
// After every reload and again after the deferred work has run: whenever the running engine executes a flow
// for a request its own filter accepts, the proxy's map must match that request.

import (
	"fmt"
	"io"
	"net/http"
	"net/http/httptest"
	"os"
	"path/filepath"
	"regexp"
	"runtime"
	"strings"
	"sync"
	"sync/atomic"
	"testing"
	"time"

	"lunar/engine/config"
	streamconfig "lunar/engine/streams/config"
	sharedConfig "lunar/shared-model/config"
	"lunar/toolkit-core/configuration"
	"lunar/toolkit-core/urltree"

	"pgregory.net/rapid"

	"verif/harness/internal/engine"
	"verif/harness/internal/ev"
	"verif/harness/internal/loglevel"
	"verif/harness/internal/vclock"
)

type mapProxy struct {
	mu        sync.Mutex
	managed   map[string]bool
	manageAll bool
	calls     int
	failAt    int // 1-based index of the admin call answered with 503 (0 = none)
	failed    string
	// holdDelete: the next DELETE of a managed endpoint (a deferred un-registration at work) is kept waiting until
	// letGo is closed, at most 150 ms - the proxy is slow to answer while the gateway does something else
	holdDelete atomic.Bool
	holding    atomic.Bool
	letGo      chan struct{}
}

func (p *mapProxy) RoundTrip(req *http.Request) (*http.Response, error) {
	if req.Method == http.MethodDelete && strings.HasSuffix(req.URL.Path, "/managed_endpoint") && p.holdDelete.CompareAndSwap(true, false) {
		p.holding.Store(true)
		if os.Getenv("C14_TRACE") != "" {
			b, _ := io.ReadAll(req.Body)
			req.Body = io.NopCloser(strings.NewReader(string(b)))
			fmt.Printf("PROXY holds DELETE %q\n", string(b))
		}
		select {
		case <-p.letGo:
		case <-time.After(150 * time.Millisecond):
		}
		p.holding.Store(false)
	}
	body := ""
	if req.Body != nil {
		b, _ := io.ReadAll(req.Body)
		req.Body.Close()
		body = string(b)
	}
	p.mu.Lock()
	defer p.mu.Unlock()
	if os.Getenv("C14_TRACE") != "" {
		fmt.Printf("PROXY %s %s %q\n", req.Method, req.URL.Path, body)
	}
	status := 200
	admin := req.Method == http.MethodPut || req.Method == http.MethodDelete
	if admin {
		p.calls++
		if p.calls == p.failAt {
			status = 503
			p.failed = req.Method + " " + req.URL.Path
		}
	}
	if status == 200 {
		switch {
		case strings.HasSuffix(req.URL.Path, "/managed_endpoint") && req.Method == http.MethodPut:
			p.managed[body] = true
		case strings.HasSuffix(req.URL.Path, "/managed_endpoint") && req.Method == http.MethodDelete:
			delete(p.managed, body)
		case strings.HasSuffix(req.URL.Path, "/manage_all") && req.Method == http.MethodPut:
			p.manageAll = true
		case strings.HasSuffix(req.URL.Path, "/unmanage_global"):
			p.manageAll = false
		case strings.HasSuffix(req.URL.Path, "/unmanage_all"):
			p.manageAll = false
			p.managed = map[string]bool{}
		}
	}
	text := "ok"
	if status != 200 {
		text = "unavailable"
	} else if req.Method == http.MethodGet {
		// the read-only side of the admin API as haproxy.cfg defines it: /managed_endpoint answers whether the
		// body, taken as text, is matched by one of the stored expressions (map_reg), /manage_all whether every
		// endpoint is managed
		switch {
		case strings.HasSuffix(req.URL.Path, "/managed_endpoint"):
			text = "false"
			for k := range p.managed {
				if re, err := regexp.Compile(k); err == nil && re.MatchString(body) {
					text = "true"
				}
			}
		case strings.HasSuffix(req.URL.Path, "/manage_all"):
			text = fmt.Sprintf("%v", p.manageAll)
		case strings.HasSuffix(req.URL.Path, "/unmanage_all"):
			text = fmt.Sprintf("%v", !p.manageAll && len(p.managed) == 0)
		}
	}
	return &http.Response{StatusCode: status, Status: fmt.Sprintf("%d", status), Body: io.NopCloser(strings.NewReader(text)), Header: http.Header{}, Request: req}, nil
}

func (p *mapProxy) arm(failAt int) {
	p.mu.Lock()
	p.calls, p.failAt, p.failed = 0, failAt, ""
	p.mu.Unlock()
}

func (p *mapProxy) state() ([]string, bool, string) {
	p.mu.Lock()
	defer p.mu.Unlock()
	ks := []string{}
	for k := range p.managed {
		ks = append(ks, k)
	}
	return ks, p.manageAll, p.failed
}

// unmanageIdle reports whether no deferred un-registration goroutine is running or sleeping.
func unmanageIdle() bool {
	buf := make([]byte, 1<<20)
	n := runtime.Stack(buf, true)
	dump := string(buf[:n])
	for _, f := range []string{"ScheduleUnmanageHAProxyEndpoints", "unmanageHAProxyEndpoints", "scheduleUnmanageHAProxyGlobal", "unmanageGlobal"} {
		if strings.Contains(dump, f) {
			return false
		}
	}
	return true
}

type reloadStep struct {
	Specs  []spec `json:"flows"`
	FailAt int    `json:"admin_call_answered_503,omitempty"`
	// Soon: the next reload follows within the 30 s after which this reload's deferred un-registration runs
	Soon bool `json:"next_reload_within_30s,omitempty"`
	// Overlap: the next reload arrives while this reload's deferred un-registration is at work (its first DELETE
	// is kept waiting by the proxy until the next reload has been answered, at most 150 ms)
	Overlap bool `json:"next_reload_during_the_deferred_unregistration,omitempty"`
}

func TestProxyMapOverReloads(t *testing.T) {
	e2eSetup()
	if e2eErr != nil {
		fmt.Println("VERIF-INFRA: manager setup failed:", e2eErr)
		t.Fatalf("%v", e2eErr)
	}
	r := ev.New(t, "C14")
	proxy := &mapProxy{managed: map[string]bool{}}
	http.DefaultTransport = proxy
	defer func() { http.DefaultTransport = e2eProxy }()
	rapid.Check(t, func(t *rapid.T) {
		// a small pool of patterns so that consecutive configurations share endpoints
		pool := rapid.SliceOfN(genURLPattern(), 2, 3).Draw(t, "urls")
		steps := rapid.SliceOfN(rapid.Custom(func(t *rapid.T) reloadStep {
			st := reloadStep{}
			n := rapid.IntRange(1, 3).Draw(t, "filters")
			seen := map[string]bool{}
			for i := 0; i < n; i++ {
				s := spec{Name: fmt.Sprintf("f%d", i), URL: rapid.SampledFrom(pool).Draw(t, "url"), Methods: genMethods().Draw(t, "methods"),
					Body: rapid.IntRange(0, 2).Draw(t, "needs-body") == 0}
				key := s.URL + " " + strings.Join(s.Methods, ",")
				if seen[key] || strings.ContainsAny(s.URL, "\"\\") {
					continue
				}
				seen[key] = true
				st.Specs = append(st.Specs, s)
			}
			if rapid.IntRange(0, 3).Draw(t, "fault") == 0 {
				st.FailAt = rapid.IntRange(1, 8).Draw(t, "fail-at")
			}
			st.Soon = rapid.IntRange(0, 2).Draw(t, "soon") == 0
			st.Overlap = !st.Soon && rapid.IntRange(0, 2).Draw(t, "overlap") == 0
			return st
		}), 2, 4).Draw(t, "reloads")
		// an edit of the flows that leaves their filters alone: the same filters as the reload before, each with the
		// other body requirement (a processor was added to / removed from the flow)
		for i := 1; i < len(steps); i++ {
			if rapid.IntRange(0, 3).Draw(t, "same-filters-other-processors") == 0 {
				steps[i].Specs = append([]spec(nil), steps[i-1].Specs...)
				for j := range steps[i].Specs {
					steps[i].Specs[j].Body = !steps[i].Specs[j].Body
				}
			}
		}
		// a configuration change that is taken back: the reload that arrives during the deferred un-registration
		// of reload i brings the flows of reload i-1 again (half of the time)
		for i := 1; i+1 < len(steps); i++ {
			if steps[i].Overlap && rapid.Bool().Draw(t, "taken-back") {
				steps[i+1].Specs = append([]spec(nil), steps[i-1].Specs...)
			}
		}
		// one case in three is exactly that: A, then B, then - while B's deferred un-registration of what A had
		// is at work - A again
		if len(steps) >= 3 && rapid.IntRange(0, 2).Draw(t, "a-b-a") == 0 {
			steps[0].Soon, steps[0].Overlap, steps[0].FailAt = false, false, 0
			steps[1].Soon, steps[1].Overlap, steps[1].FailAt = false, true, 0
			steps[2].Specs, steps[2].FailAt = append([]spec(nil), steps[0].Specs...), 0
		}
		// one case in four: an endpoint that another endpoint's expression covers ({id} or /* over a literal
		// segment) - first the covering one alone, then both, then the covered one alone, each reload long enough
		// after the other for the deferred un-registration to run
		if rapid.IntRange(0, 3).Draw(t, "covered") == 0 {
			// hosts without a dot (service names) half of the time: their expressions read like plain text
			base := rapid.SampledFrom([]string{"orders-svc", "localhost:8080", "h.com", "api.h.com"}).Draw(t, "cov-host")
			for _, sg := range rapid.SliceOfN(rapid.SampledFrom(plainSegs), 0, 2).Draw(t, "cov-segs") {
				base += "/" + sg
			}
			over := base + rapid.SampledFrom([]string{"/{id}", "/*", "/{id}/*"}).Draw(t, "cov-over")
			under := base + "/" + rapid.SampledFrom([]string{"me", "v1", "a-b"}).Draw(t, "cov-under")
			if strings.HasSuffix(over, "/{id}/*") {
				under += "/x"
			}
			ms := genMethods().Draw(t, "cov-methods")
			a := spec{Name: "f0", URL: over, Methods: ms}
			b := spec{Name: "f1", URL: under, Methods: ms, Body: rapid.Bool().Draw(t, "cov-body")}
			steps = []reloadStep{{Specs: []spec{a}}, {Specs: []spec{a, b}}, {Specs: []spec{b}}, {Specs: []spec{b}}}
		}
		clk := vclock.New(time.Unix(1_700_000_000, 0))
		engine.SetClock(clk)
		// the proxy keeps its maps from case to case, exactly as the gateway keeps its idea of what is registered
		drain := func() {
			for i := 0; i < 50 && !unmanageIdle(); i++ {
				clk.Advance(31 * time.Second)
				deadline := time.Now().Add(100 * time.Millisecond)
				for !unmanageIdle() && time.Now().Before(deadline) {
					time.Sleep(200 * time.Microsecond)
				}
			}
		}
		defer drain()
		var running []spec
		check := func(si int, when string) {
			keys, all, _ := proxy.state()
			for k := 0; k < 4; k++ {
				if len(running) == 0 {
					return
				}
				d := genDerived(t, running)
				ran := e2eRun(d.q)
				for _, s := range running {
					level := loglevel.Gen().Draw(t, "log level")
					r.Class("log level " + level)
					defer loglevel.Set(level)()
					r.Case()
					if !ran[s.Name] || !(refMatch(s.URL, d.q.URL) && methodOK(s.Methods, d.q.Method)) {
						continue
					}
					if all || search(keys, d.q.Method, d.q.URL) {
						r.Class("registered " + when)
						continue
					}
					own, _ := registeredForFilter(&streamconfig.Filter{Name: s.Name, URL: s.URL, Method: append([]string(nil), s.Methods...)})
					fail := &caseRepr{Kind: "reloads", Configured: running, Subject: s, Request: d.q, Registered: keys}
					if !search(own, d.q.Method, d.q.URL) {
						if _, _, ok := attribute(r, s, own, d.q, true, func() any { return fail }); ok {
							r.Class("bypass attributed to a listed translation finding")
							continue
						}
					}
					fail.Note = fmt.Sprintf("reload %d, %s: the running engine executes flow %s for %s %s, but the proxy's managed map %q does not match it: the transaction bypasses the engine",
						si, when, s.Name, d.q.Method, d.q.URL, keys)
					t.Fatalf("%s", r.Fail(map[string]any{"reloads": steps, "failure": fail}, "%s", fail.Note))
				}
			}
		}
		for si, st := range steps {
			if len(st.Specs) == 0 {
				continue
			}
			entries, _ := os.ReadDir(filepath.Join(e2eRoot, "flows"))
			for _, e := range entries {
				os.Remove(filepath.Join(e2eRoot, "flows", e.Name()))
			}
			for i := range st.Specs {
				st.Specs[i].Name = fmt.Sprintf("r%df%d", si, i)
			}
			for _, s := range st.Specs {
				os.WriteFile(filepath.Join(e2eRoot, "flows", s.Name+".yaml"), []byte(e2eFlowYAML(s)), 0o644)
			}
			proxy.arm(st.FailAt)
			rr := httptest.NewRecorder()
			e2eMux.ServeHTTP(rr, httptest.NewRequest(http.MethodPost, "/load_flows", nil))
			proxy.arm(0)
			if proxy.letGo != nil {
				// a deferred un-registration of the reload before was kept waiting meanwhile: it goes on now
				if os.Getenv("C14_TRACE") != "" {
					fmt.Println("PROXY lets the held DELETE go on; reload answered", rr.Code)
				}
				close(proxy.letGo)
				proxy.letGo = nil
				proxy.holdDelete.Store(false)
				drainShort := time.Now().Add(300 * time.Millisecond)
				for !unmanageIdle() && time.Now().Before(drainShort) {
					time.Sleep(200 * time.Microsecond)
				}
			}
			_, _, failed := proxy.state()
			switch {
			case rr.Code == 200 && failed != "":
				r.Class("reload succeeded although an admin call failed: " + failed)
			case rr.Code == 200:
				r.Class("reload succeeded")
			default:
				r.Class("reload refused")
			}
			if rr.Code != 200 {
				// a refused reload is C08's subject (which configuration runs afterwards); the next successful
				// reload defines the configuration again
				running = nil
				drain()
				continue
			}
			running = st.Specs
			if si > 0 {
				r.NonTrivial(ev.JSON([]any{"reloads", steps, si}), func() any { return map[string]any{"kind": "reloads", "reloads": steps, "upto": si} })
			}
			check(si, "right after the reload")
			if st.Soon && si+1 < len(steps) {
				r.Class("next reload within 30 s")
				clk.Advance(10 * time.Second)
				continue
			}
			if st.Overlap && si+1 < len(steps) {
				proxy.letGo = make(chan struct{})
				proxy.holdDelete.Store(true)
				clk.Advance(31 * time.Second)
				deadline := time.Now().Add(50 * time.Millisecond)
				for !proxy.holding.Load() && time.Now().Before(deadline) {
					time.Sleep(100 * time.Microsecond)
				}
				if proxy.holding.Load() {
					r.Class("next reload while a deferred un-registration is at work")
					continue
				}
				// nothing was to be un-registered
				close(proxy.letGo)
				proxy.letGo = nil
				proxy.holdDelete.Store(false)
			}
			drain()
			check(si, "after the deferred un-registration (30 s later)")
		}
		if proxy.letGo != nil {
			close(proxy.letGo)
			proxy.letGo = nil
			proxy.holdDelete.Store(false)
		}
	})
}

// ---- policy mode: the same history through the policies accessor (UpdatePoliciesData) ------------------------

var (
	polOnce sync.Once
	polErr  error
	polAcc  *config.TxnPoliciesAccessor
)

func polRender(eps []spec, dir string, global bool) []byte {
	var b strings.Builder
	if global {
		// an enabled global remedy: the gateway asks the proxy to manage everything
		b.WriteString("global:\n  remedies:\n    - name: \"g\"\n      enabled: true\n      config:\n        fixed_response:\n          status_code: 418\n  diagnosis: []\nendpoints:\n")
	} else {
		b.WriteString("global:\n  remedies: []\n  diagnosis: []\nendpoints:\n")
	}
	for i, e := range eps {
		fmt.Fprintf(&b, "  - url: %q\n    method: %s\n    remedies:\n      - name: \"r%d\"\n        enabled: true\n        config:\n          fixed_response:\n            status_code: 418\n", e.URL, e.Methods[0], i)
	}
	if len(eps) == 0 {
		b.WriteString("  []\n")
	}
	fmt.Fprintf(&b, "exporters:\n  file:\n    file_dir: %s\n    file_name: out.log\n", dir)
	return []byte(b.String())
}

func TestProxyMapOverPolicyReloads(t *testing.T) {
	r := ev.New(t, "C14")
	proxy := &mapProxy{managed: map[string]bool{}}
	dir := os.Getenv("VERIF_SCRATCH")
	if dir == "" {
		dir = t.TempDir()
	}
	polOnce.Do(func() {
		engine.Setup()
		http.DefaultTransport = proxy
		os.Setenv("LUNAR_PROXY_POLICIES_CONFIG", filepath.Join(dir, "policies.yaml"))
		os.Setenv("LUNAR_PROXY_CONFIG_DIR", dir)
		sharedConfig.Validate.RegisterStructValidation(config.ValidateStructLevel, sharedConfig.Remedy{}, sharedConfig.Diagnosis{}, sharedConfig.PoliciesConfig{})
		if err := sharedConfig.Validate.RegisterValidation("validateInt", config.ValidateInt); err != nil {
			polErr = err
			return
		}
		engine.SetClock(vclock.New(time.Unix(1_700_000_000, 0)))
		if err := os.WriteFile(filepath.Join(dir, "policies.yaml"), polRender(nil, dir, false), 0o644); err != nil {
			polErr = err
			return
		}
		res, err := config.BuildInitialFromFile()
		if err != nil {
			polErr = err
			return
		}
		polAcc = res.Accessor
	})
	if polErr != nil {
		fmt.Println("VERIF-INFRA: cannot build the policies accessor:", polErr)
		t.Fatalf("%v", polErr)
	}
	rapid.Check(t, func(t *rapid.T) {
		pool := rapid.SliceOfN(genURLPattern(), 2, 3).Draw(t, "urls")
		for i, u := range pool {
			if anyURL(u) {
				pool[i] = "h.com/*"
			}
		}
		steps := rapid.SliceOfN(rapid.Custom(func(t *rapid.T) []spec {
			n := rapid.IntRange(1, 3).Draw(t, "endpoints")
			seen := map[string]bool{}
			eps := []spec{}
			for i := 0; i < n; i++ {
				s := spec{Name: fmt.Sprintf("e%d", i), URL: rapid.SampledFrom(pool).Draw(t, "url"), Methods: []string{rapid.SampledFrom(allMethods).Draw(t, "method")}}
				if seen[s.URL+" "+s.Methods[0]] || strings.ContainsAny(s.URL, "\"\\") {
					continue
				}
				seen[s.URL+" "+s.Methods[0]] = true
				eps = append(eps, s)
			}
			return eps
		}), 2, 4).Draw(t, "reloads")
		// one case in four: an endpoint is dropped, declared again within 30 s (its un-registration is still
		// pending), and then the proxy refuses a reload that does not contain it - the engine stays on the
		// configuration that has the endpoint, and the pending un-registration runs
		refusedAfterReadd := len(steps[0]) >= 2 && rapid.IntRange(0, 3).Draw(t, "refused-after-readd") == 0
		if refusedAfterReadd {
			ab := steps[0]
			other := spec{Name: "ex", URL: "extra.com/x/{id}", Methods: []string{"GET"}}
			steps = [][]spec{ab, ab[:1], ab, {ab[0], other}}
		}
		clk := vclock.New(time.Unix(1_700_000_000, 0))
		engine.SetClock(clk)
		// the proxy keeps its maps from case to case, exactly as the gateway keeps its idea of what is registered
		drain := func() {
			for i := 0; i < 50 && !unmanageIdle(); i++ {
				clk.Advance(31 * time.Second)
				deadline := time.Now().Add(100 * time.Millisecond)
				for !unmanageIdle() && time.Now().Before(deadline) {
					time.Sleep(200 * time.Microsecond)
				}
			}
		}
		defer drain()
		// the check of the configuration in force (set by the last reload that succeeded): a refused reload leaves
		// the engine on it, so it must stay registered - right after the refusal and when the un-registrations
		// deferred by earlier reloads have run
		var inForce func(when string)
		for si, eps := range steps {
			if len(eps) == 0 {
				continue
			}
			global := rapid.IntRange(0, 3).Draw(t, "global-remedy") == 0
			if global {
				r.Class("reload with an enabled global remedy")
			}
			// a large configuration: one reload in six declares many further endpoints (one per service of a
			// provider), far more than the handful above
			bulk := 0
			if rapid.IntRange(0, 5).Draw(t, "bulk") == 0 {
				bulk = rapid.SampledFrom([]int{60, 125, 126, 127, 128, 129, 130, 131, 200, 303}).Draw(t, "bulk-endpoints")
				r.Class(fmt.Sprintf("reload with >=128 endpoints=%v", bulk+len(eps) >= 128))
			}
			small := eps
			bulkAt := len(eps)
			eps = append([]spec{}, eps...)
			for i := 0; i < bulk; i++ {
				eps = append(eps, spec{Name: fmt.Sprintf("bulk%d", i), URL: fmt.Sprintf("bulk.com/svc%d/{id}", i), Methods: []string{"GET"}})
			}
			res, err := configuration.UnmarshalPolicyRawData[sharedConfig.PoliciesConfig](polRender(eps, dir, global))
			if err != nil {
				r.Class("policies rejected by the parser")
				continue
			}
			pd, err := config.BuildPolicyData(res.UnmarshaledData, false)
			if err != nil {
				r.Class("policies rejected (trie)")
				continue
			}
			// one admin call of this reload may be answered with 503 (every policy endpoint takes three PUTs:
			// managed, body, request capture)
			failAt := 0
			if rapid.IntRange(0, 2).Draw(t, "fault") == 0 {
				failAt = rapid.IntRange(1, 9).Draw(t, "fail-at")
			}
			if refusedAfterReadd {
				failAt = 0
				if si == 3 {
					failAt = rapid.IntRange(1, 3).Draw(t, "refusal-at")
				}
			}
			proxy.arm(failAt)
			err = polAcc.UpdatePoliciesData(pd, false)
			proxy.arm(0)
			_, _, failed := proxy.state()
			if err != nil {
				r.Class("reload refused")
				if inForce != nil {
					r.Class("reload refused while an earlier configuration is in force")
					inForce("right after a reload the proxy refused (the engine stays on the configuration before it)")
					drain()
					inForce("after a refused reload, when the un-registrations deferred by earlier reloads have run")
				} else {
					drain()
				}
				continue
			}
			if failed != "" {
				r.Class("reload succeeded although an admin call failed: " + failed)
			}
			tree := &polAcc.GetCurrentPoliciesData().EndpointPolicyTree
			check := func(when string) {
				keys, all, _ := proxy.state()
				// every one of the many endpoints: its own expression must be in the proxy's map (and match)
				if bulk > 0 && !all {
					have := map[string]bool{}
					for _, k := range keys {
						have[k] = true
					}
					for _, e := range eps[bulkAt:] {
						r.Case()
						q := request{Method: "GET", URL: strings.Replace(e.URL, "{id}", "7", 1)}
						own := config.HaproxyEndpointFormat("GET", e.URL, nil).Endpoint
						lr := tree.Lookup(q.URL)
						if lr.Value == nil {
							continue
						}
						if _, ok := (*lr.Value)[urltree.Method("GET")]; !ok {
							continue
						}
						if have[own] && search([]string{own}, q.Method, q.URL) {
							continue
						}
						if search(keys, q.Method, q.URL) {
							continue
						}
						fail := &caseRepr{Kind: "policy reloads", Subject: e, Request: q}
						fail.Note = fmt.Sprintf("policy reload %d (%d endpoints), %s: the engine applies the policy of GET %s to GET %s, but none of the %d expressions of the proxy's managed map matches it: the transaction bypasses the engine",
							si, len(eps), when, e.URL, q.URL, len(keys))
						t.Fatalf("%s", r.Fail(map[string]any{"reloads": steps, "bulk_endpoints_in_this_reload": bulk, "failure": fail}, "%s", fail.Note))
					}
				}
				for k := 0; k < 4; k++ {
					d := genDerived(t, small)
					r.Case()
					lr := tree.Lookup(d.q.URL)
					if lr.Value == nil {
						continue
					}
					p, ok := (*lr.Value)[urltree.Method(d.q.Method)]
					if !ok {
						continue
					}
					var s *spec
					for i := range eps {
						if eps[i].URL == p.URL && eps[i].Methods[0] == d.q.Method {
							s = &eps[i]
						}
					}
					if s == nil || !refMatch(s.URL, d.q.URL) {
						continue
					}
					if all || search(keys, d.q.Method, d.q.URL) {
						r.Class("registered " + when)
						continue
					}
					own := []string{config.HaproxyEndpointFormat(s.Methods[0], s.URL, nil).Endpoint}
					fail := &caseRepr{Kind: "policy reloads", Configured: eps, Subject: *s, Request: d.q, Registered: keys}
					if !search(own, d.q.Method, d.q.URL) {
						if _, _, ok := attribute(r, *s, own, d.q, true, func() any { return fail }); ok {
							r.Class("bypass attributed to a listed translation finding")
							continue
						}
					}
					fail.Note = fmt.Sprintf("policy reload %d, %s: the engine applies the policy of %s %s to %s %s, but the proxy's managed map %q does not match it: the transaction bypasses the engine",
						si, when, s.Methods[0], s.URL, d.q.Method, d.q.URL, keys)
					t.Fatalf("%s", r.Fail(map[string]any{"reloads": steps, "failure": fail}, "%s", fail.Note))
				}
			}
			if si > 0 {
				r.NonTrivial(ev.JSON([]any{"policy reloads", steps, si}), func() any { return map[string]any{"kind": "policy reloads", "reloads": steps, "upto": si} })
			}
			inForce = check
			check("right after the reload")
			if si+1 < len(steps) && (rapid.IntRange(0, 2).Draw(t, "next-reload-within-30s") == 0 || (refusedAfterReadd && si >= 1)) {
				r.Class("next reload within 30 s")
				clk.Advance(10 * time.Second)
				continue
			}
			drain()
			check("after the deferred un-registration (30 s later)")
		}
	})
}
