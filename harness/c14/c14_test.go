// C14 — traffic a flow or policy must see is always registered as managed.
//
// Two independent translations of the same configured URL are cross-validated:
//
//	engine side  the real tries (streamfilter.FilterTree.GetFlow for flow filters,
//	             config.EndpointPolicyTree.Lookup + method map for policy endpoints);
//	proxy side   what the engine registers (config.HaproxyEndpointFormat for each of
//	             Filter.GetSupportedMethods(), manage-all for IsAnyURLAccepted();
//	             config.BuildHAProxyEndpointsRequest for policies) evaluated the way
//	             haproxy.cfg does: map_reg = unanchored regex search over "METHOD:::URL".
//
// Required (R): engine matches  =>  registered expression matches.
// Required (L): literal characters are matched literally: a URL that differs from a
//
//	matching URL in one literal character is not matched by the expression.
package c14

import (
	"fmt"
	"regexp"
	"sort"
	"strings"
	"testing"

	"lunar/engine/config"
	lunarMessages "lunar/engine/messages"
	streamconfig "lunar/engine/streams/config"
	streamfilter "lunar/engine/streams/filter"
	internaltypes "lunar/engine/streams/internal-types"
	lunarContext "lunar/engine/streams/lunar-context"
	publictypes "lunar/engine/streams/public-types"
	streamtypes "lunar/engine/streams/types"
	sharedConfig "lunar/shared-model/config"
	"lunar/toolkit-core/urltree"

	"github.com/rs/zerolog"
	"pgregory.net/rapid"

	"verif/harness/internal/ev"
	"verif/harness/internal/loglevel"
)

func init() { zerolog.SetGlobalLevel(zerolog.Disabled) }

const (
	findingMeta   = "C14-F1" // regex metacharacters of the literal URL text are emitted unescaped
	findingMethod = "C14-F2" // a filter without methods is registered for five methods, the engine accepts any
	findingPName  = "C14-F3" // {param} whose name is outside [a-zA-Z0-9-_]+ is not translated
	findingSlash  = "C14-F4" // the engine ignores a trailing slash, the expression does not
)

var fiveMethods = []string{"GET", "POST", "PUT", "DELETE", "PATCH"}

// ---- engine side: flow stubs -----------------------------------------------------

type stubFlow struct {
	name   string
	filter *streamconfig.Filter
}

func (f *stubFlow) GetFilter() publictypes.FilterI                                   { return f.filter }
func (f *stubFlow) GetName() string                                                  { return f.name }
func (f *stubFlow) GetType() internaltypes.FlowType                                  { return internaltypes.UserFlow }
func (f *stubFlow) GetExecutionContext() publictypes.LunarContextI                   { return nil }
func (f *stubFlow) GetResourceManagement() publictypes.ResourceManagementI           { return nil }
func (f *stubFlow) CleanExecution()                                                  {}
func (f *stubFlow) GetDirection(publictypes.StreamType) internaltypes.FlowDirectionI { return nil }
func (f *stubFlow) GetRequestDirection() internaltypes.FlowDirectionI                { return nil }
func (f *stubFlow) GetResponseDirection() internaltypes.FlowDirectionI               { return nil }
func (f *stubFlow) IsUserFlow() bool                                                 { return true }

var sharedState = lunarContext.NewMemoryState[[]byte]()

func apiStream(m, url string) publictypes.APIStreamI {
	path := ""
	if i := strings.IndexByte(url, '/'); i >= 0 {
		path = url[i:]
	}
	return streamtypes.NewRequestAPIStream(lunarMessages.OnRequest{ID: "t", SequenceID: "t", Method: m, Scheme: "https",
		URL: url, Path: path, Headers: map[string]string{}}, sharedState)
}

// ---- the pattern language, split independently of urltree -------------------------

type spec struct {
	Name    string   `json:"name"`
	URL     string   `json:"url"`
	Methods []string `json:"methods,omitempty"`
	// Body (gateway units): the flow's processor needs the request body (DataSanitation instead of a header Filter),
	// so the filter is also registered with the proxy's include-body map
	Body bool `json:"needs_body,omitempty"`
}

type request struct {
	Method string `json:"method"`
	URL    string `json:"url"`
}

func paramShaped(s string) bool { return strings.HasPrefix(s, "{") && strings.HasSuffix(s, "}") }

var wordParam = regexp.MustCompile(`^\{[a-zA-Z0-9\-_]+\}$`)

func anyURL(u string) bool { return u == "" || u == "*" || u == ".*" }

// refMatch: the most permissive reasonable reading of "URL u matches pattern p":
// surrounding '/' and '.' are insignificant (as the engine normalises them), literal
// parts are equal, {name} is exactly one non-empty part, a trailing * covers zero or
// more further path segments.
func refMatch(p, u string) bool {
	if anyURL(p) {
		return true
	}
	split := func(s string) (host []string, path []string) {
		s = strings.Trim(s, "./")
		segs := strings.Split(s, "/")
		return strings.Split(segs[0], "."), segs[1:]
	}
	ph, pp := split(p)
	uh, up := split(u)
	wild := false
	if n := len(pp); n > 0 && pp[n-1] == "*" {
		wild, pp = true, pp[:n-1]
	}
	if len(ph) != len(uh) {
		return false
	}
	one := func(a, b string) bool {
		if paramShaped(a) {
			return b != ""
		}
		return a == b
	}
	for i := range ph {
		// host names are case-insensitive (RFC 3986): an engine that matches API.h.com to a filter on api.h.com
		// reads the pattern in a defensible way - and must then have that traffic registered
		if !one(ph[i], uh[i]) && !(!paramShaped(ph[i]) && strings.EqualFold(ph[i], uh[i])) {
			return false
		}
	}
	if wild {
		if len(up) < len(pp) {
			return false
		}
	} else if len(up) != len(pp) {
		return false
	}
	for i := range pp {
		if !one(pp[i], up[i]) {
			return false
		}
	}
	return true
}

func methodOK(methods []string, m string) bool {
	if len(methods) == 0 {
		return true
	}
	for _, x := range methods {
		if x == m {
			return true
		}
	}
	return false
}

// ---- proxy side ----------------------------------------------------------------------

// search applies the registered expressions the way the proxy does.
func search(exprs []string, m, u string) bool {
	subject := m + ":::" + u
	for _, e := range exprs {
		re, err := regexp.Compile(e)
		if err != nil {
			continue // an expression the proxy cannot load matches nothing
		}
		if re.MatchString(subject) {
			return true
		}
	}
	return false
}

// registeredForFilter restates HandlingDataManager.buildHAProxyFlowsEndpointsRequest for
// one filter group, calling the real translation.
func registeredForFilter(f *streamconfig.Filter) (exprs []string, manageAll bool) {
	if f.IsAnyURLAccepted() {
		manageAll = true
	}
	for _, m := range f.GetSupportedMethods() {
		exprs = append(exprs, config.HaproxyEndpointFormat(m, f.GetURL(), f.GetRequirements()).Endpoint)
	}
	return exprs, manageAll
}

// ---- model of the translation, with each deviation repairable ---------------------------

type fixes struct{ meta, pname, method, slash bool }

func (f fixes) ids() []string {
	out := []string{}
	if f.meta {
		out = append(out, findingMeta)
	}
	if f.method {
		out = append(out, findingMethod)
	}
	if f.pname {
		out = append(out, findingPName)
	}
	if f.slash {
		out = append(out, findingSlash)
	}
	return out
}

var fixSubsets = func() []fixes {
	all := []fixes{}
	for n := 0; n < 16; n++ {
		all = append(all, fixes{n&1 != 0, n&2 != 0, n&4 != 0, n&8 != 0})
	}
	sort.SliceStable(all, func(i, j int) bool { return len(all[i].ids()) < len(all[j].ids()) })
	return all
}()

var implParam = regexp.MustCompile(`/\{[a-zA-Z0-9-_]+\}`)

// modelURL with no fix is HaproxyEndpointFormat restated; each fix repairs one deviation.
func modelURL(url string, fx fixes) string {
	if !fx.meta && !fx.pname && !fx.slash {
		u := strings.ReplaceAll(url, ".", `\.`)
		wild := strings.HasSuffix(u, "/*")
		if wild {
			u = strings.TrimSuffix(u, "/*") + "(/.*)?"
		}
		u = implParam.ReplaceAllString(u, "/[^/]+")
		if !wild {
			u += "$"
		}
		return u
	}
	u := url
	if fx.slash {
		u = strings.TrimRight(u, "/")
	}
	wild := strings.HasSuffix(u, "/*")
	if wild {
		u = strings.TrimSuffix(u, "/*")
	}
	esc := func(s string) string {
		if fx.meta {
			return regexp.QuoteMeta(s)
		}
		return strings.ReplaceAll(s, ".", `\.`)
	}
	segs := strings.Split(u, "/")
	out := esc(segs[0])
	for _, s := range segs[1:] {
		switch {
		case wordParam.MatchString(s), fx.pname && paramShaped(s):
			out += "/[^/]+"
		default:
			out += "/" + esc(s)
		}
	}
	switch {
	case wild:
		out += "(/.*)?"
	case fx.slash:
		out += "/?$"
	default:
		out += "$"
	}
	return out
}

func modelExprs(s spec, fx fixes) []string {
	methods := s.Methods
	if len(methods) == 0 {
		methods = fiveMethods
		if fx.method {
			methods = []string{"[A-Z]+"}
		}
	}
	out := []string{}
	for _, m := range methods {
		out = append(out, m+":::"+modelURL(s.URL, fx))
	}
	return out
}

// literal text of a pattern: everything but whole-segment parameters and the wildcard
func literalText(url string) string {
	u := strings.TrimSuffix(strings.TrimRight(url, "/"), "/*")
	segs := strings.Split(u, "/")
	out := segs[0]
	for _, s := range segs[1:] {
		if !paramShaped(s) {
			out += "/" + s
		}
	}
	return out
}

func predicate(id string, s spec, q request) bool {
	switch id {
	case findingMeta:
		return strings.ContainsAny(literalText(s.URL), `\+*?()|[]{}^$`)
	case findingMethod:
		return len(s.Methods) == 0 && !methodOK(fiveMethods, q.Method)
	case findingPName:
		for _, seg := range strings.Split(s.URL, "/")[1:] {
			if paramShaped(seg) && !wordParam.MatchString(seg) {
				return true
			}
		}
		return false
	case findingSlash:
		return strings.HasSuffix(s.URL, "/") || strings.HasSuffix(q.URL, "/")
	}
	return false
}

// present tells which repairs the implementation already contains: the smallest set of
// repairs under which the model emits exactly the registered expressions (none today;
// falls back to none when the implementation is not any of the modelled variants).
func present(s spec, own []string) fixes {
	uniq := []string{}
	seen := map[string]bool{}
	for _, e := range own {
		if !seen[e] {
			seen[e] = true
			uniq = append(uniq, e)
		}
	}
	for _, fx := range fixSubsets {
		if strings.Join(modelExprs(s, fx), "\n") == strings.Join(uniq, "\n") {
			return fx
		}
	}
	return fixes{}
}

func (f fixes) or(g fixes) fixes {
	return fixes{f.meta || g.meta, f.pname || g.pname, f.method || g.method, f.slash || g.slash}
}

func (f fixes) overlaps(g fixes) bool {
	return f.meta && g.meta || f.pname && g.pname || f.method && g.method || f.slash && g.slash
}

// attribute: the deviation on q is attributed only if (a) the model of the translation
// as it stands (with the repairs the implementation already contains) shows the same
// deviation on q, i.e. the implementation agrees with the defect model on this case,
// (b) some set of further repairs makes the model behave as required (want), and
// (c) every repair of the smallest such set is a listed finding whose structural
// predicate holds for the case.
func attribute(r *ev.Recorder, s spec, own []string, q request, want bool, c func() any) (ids []string, explained []string, ok bool) {
	have := present(s, own)
	if search(modelExprs(s, have), q.Method, q.URL) == want {
		return nil, nil, false // the implementation is not the modelled one here
	}
	for _, fx := range fixSubsets[1:] {
		if fx.overlaps(have) || search(modelExprs(s, have.or(fx)), q.Method, q.URL) != want {
			continue
		}
		if explained == nil {
			explained = fx.ids()
		}
		good := true
		for _, id := range fx.ids() {
			good = good && r.IsOpen(id) && predicate(id, s, q)
		}
		if !good {
			continue
		}
		for _, id := range fx.ids() {
			r.KnownFinding(id, c)
		}
		return fx.ids(), explained, true
	}
	return nil, explained, false
}

// ---- case evaluation ---------------------------------------------------------------------

type caseRepr struct {
	Kind       string   `json:"kind"` // flow | policy
	Configured []spec   `json:"configured"`
	Subject    spec     `json:"subject"`
	Request    request  `json:"request"`
	Registered []string `json:"registered_expressions"`
	Note       string   `json:"note"`
}

type infraError struct{ msg string }

func (e infraError) Error() string { return "VERIF-INFRA: " + e.msg }

func hasSpecial(url string) string {
	k := []string{}
	if strings.HasSuffix(url, "/*") {
		k = append(k, "wildcard")
	}
	for _, seg := range strings.Split(url, "/")[1:] {
		if paramShaped(seg) {
			k = append(k, "param")
			break
		}
	}
	if strings.ContainsAny(literalText(url), `\+*?()|[]{}^$`) {
		k = append(k, "meta")
	}
	return strings.Join(k, "+")
}

// judge decides one (subject, request) pair given the engine's verdict.
//
//	own      expressions registered for the subject itself (ownAll: it registered manage-all)
//	others   everything else registered in the same configuration (incl. manage-all)
func judge(r *ev.Recorder, kind string, all []spec, s spec, q request, engine bool, own []string, ownAll, othersMatch bool) *caseRepr {
	r.Case() // one evaluation per (subject, request) pair

	mk := func(note string) *caseRepr {
		return &caseRepr{Kind: kind, Configured: all, Subject: s, Request: q, Registered: own, Note: note}
	}
	if !engine {
		r.Class("engine: no match")
		return nil
	}
	if !(refMatch(s.URL, q.URL) && methodOK(s.Methods, q.Method)) {
		// the engine selects it although under no reading of the pattern it should (C03/C13 territory)
		r.Class("engine over-match (not required to be registered)")
		return nil
	}
	special := hasSpecial(s.URL)
	if special != "" {
		r.NonTrivial(ev.JSON([]any{kind, s, q}), func() any { return map[string]any{"kind": kind, "subject": s, "request": q, "registered": own} })
		r.Class("engine match, pattern with " + special)
	} else {
		r.Class("engine match, plain pattern")
	}
	if ownAll {
		r.Class("registered: manage-all")
		return nil
	}
	if search(own, q.Method, q.URL) {
		r.Class("registered: own expression matches")
		return nil
	}
	if othersMatch {
		r.Class("registered: only by another entry of the configuration")
		return nil
	}
	ids, explained, ok := attribute(r, s, own, q, true, func() any { return mk("engine matches, no registered expression does") })
	if ok {
		for _, id := range ids {
			r.Class("bypass attributed to " + id)
		}
		return nil
	}
	note := fmt.Sprintf("the engine matches %s %s to %q but none of the registered expressions %q does: the transaction bypasses the engine", q.Method, q.URL, s.URL, own)
	if explained != nil {
		note += fmt.Sprintf(" [repairing %v would make it match, but that is not a listed finding whose predicate holds here]", explained)
	}
	return mk(note)
}

// literally checks (L) for a URL u that matches s with the given mask of literal positions.
func literally(r *ev.Recorder, kind string, all []spec, s spec, m, u string, mask []bool, at int, own []string) *caseRepr {
	lit := []int{}
	for i, b := range mask {
		if b {
			lit = append(lit, i)
		}
	}
	if len(lit) == 0 || anyURL(s.URL) {
		return nil
	}
	i := lit[at%len(lit)]
	c := byte('x')
	if u[i] == 'x' {
		c = 'y'
	}
	mut := u[:i] + string(c) + u[i+1:]
	if refMatch(s.URL, mut) {
		return nil // e.g. the changed character was a surrounding '/' or '.'
	}
	r.Class("literal-character probes")
	if !search(own, m, mut) {
		return nil
	}
	q := request{m, mut}
	mk := func(note string) *caseRepr {
		return &caseRepr{Kind: kind, Configured: all, Subject: s, Request: q, Registered: own, Note: note}
	}
	ids, explained, ok := attribute(r, s, own, q, false, func() any {
		return mk(fmt.Sprintf("differs from the matching URL %q in the literal character at offset %d and is still matched", u, i))
	})
	if ok {
		for _, id := range ids {
			r.Class("non-literal match attributed to " + id)
		}
		return nil
	}
	note := fmt.Sprintf("%q registered for %q also matches %s %s, which differs from %s in the literal character at offset %d: literal characters are not matched literally", own, s.URL, m, mut, u, i)
	if explained != nil {
		note += fmt.Sprintf(" [repairing %v would stop it, but that is not a listed finding whose predicate holds here]", explained)
	}
	return mk(note)
}

func implIsModelled(s spec, own []string) bool {
	return strings.Join(modelExprs(s, fixes{}), "\n") == strings.Join(own, "\n")
}

// ---- generators ------------------------------------------------------------------------------

var (
	genHosts     = []string{"h.com", "h.com", "api.h.com", "h.com:8080", "10.0.0.1", "my-api.example.io", "orders-svc", "localhost:8080"}
	plainSegs    = []string{"a", "b", "v1", "users", "api", "x_y", "a-b"}
	dotSegs      = []string{"v1.2", "file.json", "a.b"}
	metaSegs     = []string{"a+b", "(x)", "q$", "a|b", "x?", "[id]", "^a", "a{1}", "a*", "a\\b", "(a", "a)", "$", "+", "c++", "v1(beta)", "a{1,2}", "f[0]", "x.y+z"}
	pctSegs      = []string{"a%20b", "%7Bid%7D", "a%2Fb"}
	paramSegs    = []string{"{id}", "{user_id}", "{x-1}", "{A}"}
	oddParamSegs = []string{"{user.id}", "{a~b}", "{a b}", "{}"}
	metaChars    = []string{"+", "(", ")", "[", "]", "?", "|", "$", "^", "\\", "{", "}", "*"}
	allMethods   = []string{"GET", "POST", "PUT", "DELETE", "PATCH", "HEAD", "OPTIONS"}
	values       = []string{"1", "abc", "x.y", "a-b", "42"}
)

func genSegment() *rapid.Generator[string] {
	return rapid.Custom(func(t *rapid.T) string {
		var s string
		switch k := rapid.IntRange(0, 19).Draw(t, "segkind"); {
		case k < 7:
			s = rapid.SampledFrom(plainSegs).Draw(t, "plain")
		case k < 9:
			s = rapid.SampledFrom(dotSegs).Draw(t, "dot")
		case k < 12:
			s = rapid.SampledFrom(metaSegs).Draw(t, "meta")
		case k < 13:
			s = rapid.StringMatching(`[a-c]{0,2}`).Draw(t, "pre") + rapid.SampledFrom(metaChars).Draw(t, "metachar") + rapid.StringMatching(`[a-c]{0,2}`).Draw(t, "post")
		case k < 14:
			s = rapid.SampledFrom(pctSegs).Draw(t, "pct")
		case k < 19:
			s = rapid.SampledFrom(paramSegs).Draw(t, "param")
		default:
			s = rapid.SampledFrom(oddParamSegs).Draw(t, "oddparam")
		}
		if s == "*" || s == "" {
			s = "a*"
		}
		return s
	})
}

func genURLPattern() *rapid.Generator[string] {
	return rapid.Custom(func(t *rapid.T) string {
		if rapid.IntRange(0, 119).Draw(t, "any") == 0 {
			return rapid.SampledFrom([]string{"*", ".*"}).Draw(t, "anyurl")
		}
		url := rapid.SampledFrom(genHosts).Draw(t, "host")
		segs := rapid.SliceOfN(genSegment(), 0, 4).Draw(t, "segs")
		for _, s := range segs {
			url += "/" + s
		}
		switch k := rapid.IntRange(0, 19).Draw(t, "tail"); {
		case k < 6:
			url += "/*"
		case k == 6 && len(segs) > 0:
			url += "/"
		}
		return url
	})
}

func genMethods() *rapid.Generator[[]string] {
	return rapid.Custom(func(t *rapid.T) []string {
		if rapid.IntRange(0, 2).Draw(t, "nomethods") == 0 {
			return nil
		}
		ms := rapid.SliceOfNDistinct(rapid.SampledFrom(allMethods), 1, 3, rapid.ID[string]).Draw(t, "methods")
		return ms
	})
}

// instantiate produces a URL matching pattern p together with the mask of the positions
// that stem from literal characters of p.
func instantiate(t *rapid.T, p string) (string, []bool) {
	if anyURL(p) {
		u := rapid.SampledFrom([]string{"h.com/a", "x.org", "api.h.com/v1/users/7"}).Draw(t, "anyurl-request")
		return u, make([]bool, len(u))
	}
	p = strings.TrimRight(p, "/")
	wild := strings.HasSuffix(p, "/*")
	if wild {
		p = strings.TrimSuffix(p, "/*")
	}
	segs := strings.Split(p, "/")
	u, mask := segs[0], make([]bool, 0, len(p))
	for range segs[0] {
		mask = append(mask, true)
	}
	for _, s := range segs[1:] {
		// a '/' is never probed: replacing it changes the segmentation, and an
		// expression with an open end may then legitimately match another alignment
		u += "/"
		mask = append(mask, false)
		if paramShaped(s) {
			v := rapid.SampledFrom(values).Draw(t, "value")
			u += v
			for range v {
				mask = append(mask, false)
			}
		} else {
			u += s
			for range s {
				mask = append(mask, true)
			}
		}
	}
	if wild {
		for _, v := range rapid.SliceOfN(rapid.SampledFrom(plainSegs), 0, 2).Draw(t, "tail") {
			u += "/" + v
			for i := 0; i <= len(v); i++ {
				mask = append(mask, false)
			}
		}
	}
	return u, mask
}

type derived struct {
	q    request
	from int    // index of the configured entry it was derived from
	mask []bool // nil unless the URL is an unmodified instantiation
	at   int
}

func genDerived(t *rapid.T, specs []spec) derived {
	from := rapid.IntRange(0, len(specs)-1).Draw(t, "from")
	s := specs[from]
	u, mask := instantiate(t, s.URL)
	d := derived{from: from}
	switch k := rapid.IntRange(0, 19).Draw(t, "mutation"); {
	case k < 11:
		d.mask, d.at = mask, rapid.IntRange(0, 1<<16).Draw(t, "at")
	case k == 11, k == 12: // extra trailing segment
		u += "/" + rapid.SampledFrom(plainSegs).Draw(t, "extra")
	case k == 13, k == 14: // missing last segment
		if i := strings.LastIndexByte(u, '/'); i > 0 {
			u = u[:i]
		}
	case k == 15: // host only
		if i := strings.IndexByte(u, '/'); i > 0 {
			u = u[:i]
		}
	case k == 16, k == 17: // trailing slash
		u += "/"
	case k == 18: // an empty segment
		if i := strings.IndexByte(u, '/'); i > 0 {
			u = u[:i] + "/" + u[i:]
		}
	default: // something else: another URL, or the same URL with the host in another letter case
		if rapid.Bool().Draw(t, "hostcase") {
			i := strings.IndexByte(u+"/", '/')
			host := u[:i]
			if rapid.Bool().Draw(t, "whole") {
				host = strings.ToUpper(host)
			} else if j := strings.IndexByte(host, '.'); j > 0 {
				host = strings.ToUpper(host[:j]) + host[j:]
			} else {
				host = strings.ToUpper(host[:1]) + host[1:]
			}
			u = host + u[i:]
		} else {
			u = rapid.SampledFrom(genHosts).Draw(t, "otherhost") + "/" + rapid.SampledFrom(plainSegs).Draw(t, "otherpath")
		}
	}
	m := rapid.SampledFrom(allMethods).Draw(t, "method")
	if len(s.Methods) > 0 && rapid.IntRange(0, 3).Draw(t, "ownmethod") > 0 {
		m = rapid.SampledFrom(s.Methods).Draw(t, "m")
	}
	d.q = request{m, u}
	return d
}

// ---- flow filters --------------------------------------------------------------------------------

func TestFlowFilterRegistered(t *testing.T) {
	r := ev.New(t, "C14")
	rapid.Check(t, func(t *rapid.T) {
		n := rapid.SampledFrom([]int{1, 1, 1, 2, 2, 3}).Draw(t, "filters")
		specs := []spec{}
		seen := map[string]bool{}
		for i := 0; i < n; i++ {
			s := spec{Name: fmt.Sprintf("f%d", i), URL: genURLPattern().Draw(t, "url"), Methods: genMethods().Draw(t, "methods")}
			key := s.URL + " " + strings.Join(s.Methods, ",")
			if seen[key] {
				continue
			}
			seen[key] = true
			specs = append(specs, s)
		}
		level := loglevel.Gen().Draw(t, "log level")
		r.Class("log level " + level)
		defer loglevel.Set(level)()
		r.Case()
		tree := streamfilter.NewFilterTree()
		flows := []*stubFlow{}
		kept := []spec{}
		for _, s := range specs {
			f := &stubFlow{name: s.Name, filter: &streamconfig.Filter{Name: s.Name, URL: s.URL, Method: append([]string(nil), s.Methods...)}}
			if err := tree.AddFlow(f); err != nil {
				r.Class("filter rejected by the trie")
				continue
			}
			flows = append(flows, f)
			kept = append(kept, s)
		}
		if len(kept) == 0 {
			return
		}
		r.Class(fmt.Sprintf("filters=%d", len(kept)))
		own := make([][]string, len(kept))
		ownAll := make([]bool, len(kept))
		manageAll := false
		for i, f := range flows {
			own[i], ownAll[i] = registeredForFilter(f.filter)
			manageAll = manageAll || ownAll[i]
			if !implIsModelled(kept[i], own[i]) {
				r.Class("translation differs from the modelled one")
			}
		}
		for k := 0; k < 6; k++ {
			d := genDerived(t, kept)
			res, found := tree.GetFlow(apiStream(d.q.Method, d.q.URL))
			selected := map[string]bool{}
			if found {
				uf, _ := res.GetUserFlow()
				for _, f := range uf {
					selected[f.GetName()] = true
				}
			}
			for i, s := range kept {
				others := manageAll
				for j := range kept {
					if j != i && search(own[j], d.q.Method, d.q.URL) {
						others = true
					}
				}
				if fail := judge(r, "flow", kept, s, d.q, selected[s.Name], own[i], ownAll[i], others); fail != nil {
					t.Fatalf("%s", r.Fail(fail, "%s", fail.Note))
				}
			}
			if d.mask != nil && selected[kept[d.from].Name] && !manageAll {
				s := kept[d.from]
				if fail := literally(r, "flow", kept, s, d.q.Method, d.q.URL, d.mask, d.at, own[d.from]); fail != nil {
					t.Fatalf("%s", r.Fail(fail, "%s", fail.Note))
				}
			}
		}
	})
}

// ---- policy endpoints ---------------------------------------------------------------------------------

type endpointSpec struct {
	spec
	Remedy    string `json:"remedy,omitempty"` // "on" | "off" | ""
	Diagnosis string `json:"diagnosis,omitempty"`
}

func plugins(e endpointSpec, kind int) sharedConfig.EndpointConfig {
	ep := sharedConfig.EndpointConfig{URL: e.URL, Method: e.Methods[0], Remedies: []sharedConfig.Remedy{}, Diagnosis: []sharedConfig.Diagnosis{}}
	if e.Remedy != "" {
		rem := sharedConfig.Remedy{Enabled: e.Remedy == "on", Name: "R-" + e.Name}
		if kind%2 == 0 {
			rem.Config.FixedResponse = &sharedConfig.FixedResponseConfig{StatusCode: 200}
		} else {
			rem.Config.Caching = &sharedConfig.CachingConfig{}
		}
		ep.Remedies = append(ep.Remedies, rem)
	}
	if e.Diagnosis != "" {
		ep.Diagnosis = append(ep.Diagnosis, sharedConfig.Diagnosis{Enabled: e.Diagnosis == "on", Name: "D-" + e.Name, Export: "file",
			Config: sharedConfig.DiagnosisConfig{Void: &sharedConfig.VoidConfig{}}})
	}
	return ep
}

func TestPolicyEndpointRegistered(t *testing.T) {
	r := ev.New(t, "C14")
	rapid.Check(t, func(t *rapid.T) {
		n := rapid.SampledFrom([]int{1, 1, 1, 2}).Draw(t, "endpoints")
		eps := []endpointSpec{}
		for i := 0; i < n; i++ {
			e := endpointSpec{spec: spec{Name: fmt.Sprintf("e%d", i), URL: genURLPattern().Draw(t, "url"),
				Methods: []string{rapid.SampledFrom(allMethods).Draw(t, "method")}}}
			if anyURL(e.URL) {
				e.URL = "h.com/*"
			}
			switch rapid.IntRange(0, 9).Draw(t, "plugins") {
			case 0:
				e.Diagnosis = "on"
			case 1:
				e.Remedy, e.Diagnosis = "off", "on"
			case 2:
				e.Remedy = "off"
			case 3:
				e.Remedy, e.Diagnosis = "on", "off"
			default:
				e.Remedy = "on"
			}
			if i > 0 && e.URL == eps[0].URL && e.Methods[0] == eps[0].Methods[0] {
				continue
			}
			eps = append(eps, e)
		}
		global := rapid.IntRange(0, 19).Draw(t, "global") == 0
		level := loglevel.Gen().Draw(t, "log level")
		r.Class("log level " + level)
		defer loglevel.Set(level)()
		r.Case()
		pc := &sharedConfig.PoliciesConfig{}
		for i, e := range eps {
			pc.Endpoints = append(pc.Endpoints, plugins(e, i))
		}
		if global {
			pc.Global.Diagnosis = []sharedConfig.Diagnosis{{Enabled: true, Name: "G", Export: "file", Config: sharedConfig.DiagnosisConfig{Void: &sharedConfig.VoidConfig{}}}}
		}
		tree, err := config.BuildEndpointPolicyTree(pc.Endpoints)
		if err != nil {
			r.Class("endpoints rejected by the trie")
			return
		}
		r.Class(fmt.Sprintf("endpoints=%d", len(eps)))
		reg := config.BuildHAProxyEndpointsRequest(pc)
		registered := []string{}
		for _, me := range reg.ManagedEndpoints {
			registered = append(registered, me.Endpoint)
		}
		specs := make([]spec, len(eps))
		for i, e := range eps {
			specs[i] = e.spec
		}
		for k := 0; k < 6; k++ {
			d := genDerived(t, specs)
			// engine: which declared endpoint's enabled plugins would run on (method, url)
			res := tree.Lookup(d.q.URL)
			applied := -1
			if res.Value != nil {
				if p, ok := (*res.Value)[urltree.Method(d.q.Method)]; ok {
					on := false
					for _, rem := range p.Remedies {
						on = on || rem.IsEnabled()
					}
					for _, dg := range p.Diagnosis {
						on = on || dg.IsEnabled()
					}
					if on {
						for i, e := range eps {
							if e.URL == p.URL && e.Methods[0] == d.q.Method {
								applied = i
							}
						}
					}
				}
			}
			if applied < 0 {
				r.Class("engine: no match")
				continue
			}
			s := specs[applied]
			own := []string{}
			ownExpr := config.HaproxyEndpointFormat(s.Methods[0], s.URL, nil).Endpoint
			rest := []string{}
			for _, e := range registered {
				if e == ownExpr {
					own = append(own, e)
				} else {
					rest = append(rest, e)
				}
			}
			if !implIsModelled(s, []string{ownExpr}) {
				r.Class("translation differs from the modelled one")
			}
			if fail := judge(r, "policy", specs, s, d.q, true, own, false, reg.ManageAll || search(rest, d.q.Method, d.q.URL)); fail != nil {
				t.Fatalf("%s", r.Fail(fail, "%s", fail.Note))
			}
			if d.mask != nil && applied == d.from && !reg.ManageAll {
				if fail := literally(r, "policy", specs, s, d.q.Method, d.q.URL, d.mask, d.at, own); fail != nil {
					t.Fatalf("%s", r.Fail(fail, "%s", fail.Note))
				}
			}
		}
	})
}

// ---- fixed battery: the documented pattern shapes must be registered correctly ---------------------

func TestDocumentedShapes(t *testing.T) {
	r := ev.New(t, "C14")
	type row struct {
		url  string
		hits []string
	}
	rows := []row{
		{"twitter.com/user/1234", []string{"twitter.com/user/1234"}},
		{"twitter.com/user/{userID}", []string{"twitter.com/user/1", "twitter.com/user/a.b-c"}},
		{"twitter.com/user/*", []string{"twitter.com/user/1", "twitter.com/user/1/2/3"}},
		{"twitter.com/user/{userID}/messages/*", []string{"twitter.com/user/7/messages/1", "twitter.com/user/7/messages/a/b"}},
		{"api.h.com:8080/v1.2/{id}", []string{"api.h.com:8080/v1.2/9"}},
		{"h.com/*", []string{"h.com", "h.com/a", "h.com/a/b"}},
	}
	for _, row := range rows {
		for _, methods := range [][]string{nil, {"GET"}, {"POST", "HEAD"}} {
			s := spec{Name: "f", URL: row.url, Methods: methods}
			f := &stubFlow{name: "f", filter: &streamconfig.Filter{Name: "f", URL: s.URL, Method: methods}}
			tree := streamfilter.NewFilterTree()
			if err := tree.AddFlow(f); err != nil {
				t.Fatalf("%s", r.Fail(s, "documented pattern rejected: %v", err))
			}
			own, _ := registeredForFilter(f.filter)
			ms := methods
			if ms == nil {
				ms = fiveMethods
			}
			for _, u := range row.hits {
				for _, m := range ms {
					r.Case()
					_, engine := tree.GetFlow(apiStream(m, u))
					if !engine {
						t.Fatalf("%s", r.Fail(caseRepr{Kind: "flow", Subject: s, Request: request{m, u}}, "the engine does not match %s %s to %q", m, u, s.URL))
					}
					if fail := judge(r, "flow", []spec{s}, s, request{m, u}, engine, own, false, false); fail != nil {
						t.Fatalf("%s", r.Fail(fail, "%s", fail.Note))
					}
				}
			}
		}
	}
}

// ---- witnesses ---------------------------------------------------------------------------------------

func witnessFlow(t *testing.T, id string, s spec, q request, what string) {
	r := ev.New(t, "C14")
	r.Case()
	f := &stubFlow{name: s.Name, filter: &streamconfig.Filter{Name: s.Name, URL: s.URL, Method: s.Methods}}
	tree := streamfilter.NewFilterTree()
	if err := tree.AddFlow(f); err != nil {
		t.Fatalf("%s", r.Fail(s, "witness filter rejected: %v", err))
	}
	own, all := registeredForFilter(f.filter)
	_, engine := tree.GetFlow(apiStream(q.Method, q.URL))
	proxy := all || search(own, q.Method, q.URL)
	c := caseRepr{Kind: "flow", Configured: []spec{s}, Subject: s, Request: q, Registered: own, Note: what}
	r.NonTrivial(ev.JSON(c), func() any { return c })
	if !engine || proxy {
		r.Class("defect absent")
		return
	}
	r.Class("defect present")
	if !r.KnownFinding(id, func() any { return c }) {
		t.Fatalf("%s", r.Fail(c, "%s", what))
	}
}

func TestWitnessMetacharacters(t *testing.T) {
	witnessFlow(t, findingMeta, spec{Name: "f", URL: "h.com/a+b", Methods: []string{"GET"}}, request{"GET", "h.com/a+b"},
		"filter h.com/a+b is registered as GET:::h\\.com/a+b$ ('+' unescaped): the request GET h.com/a+b, which the engine matches, is not managed")
}

func TestWitnessMethodlessFilter(t *testing.T) {
	witnessFlow(t, findingMethod, spec{Name: "f", URL: "h.com/a"}, request{"HEAD", "h.com/a"},
		"a filter without methods is registered for GET/POST/PUT/DELETE/PATCH only, but the engine runs it for any method: HEAD h.com/a is not managed")
}

func TestWitnessParameterName(t *testing.T) {
	witnessFlow(t, findingPName, spec{Name: "f", URL: "h.com/u/{user.id}", Methods: []string{"GET"}}, request{"GET", "h.com/u/7"},
		"{user.id} is a path parameter for the engine but is registered as the literal text {user\\.id}: GET h.com/u/7 is not managed")
}

func TestWitnessTrailingSlash(t *testing.T) {
	witnessFlow(t, findingSlash, spec{Name: "f", URL: "h.com/a", Methods: []string{"GET"}}, request{"GET", "h.com/a/"},
		"the engine ignores a trailing slash (h.com/a/ runs the flow of h.com/a), the registered GET:::h\\.com/a$ does not: GET h.com/a/ is not managed")
}
