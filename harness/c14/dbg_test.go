package c14

import (
	"fmt"
	"testing"

	streamconfig "lunar/engine/streams/config"
	streamfilter "lunar/engine/streams/filter"
)

func TestDbg(t *testing.T) {
	show := func(specs []spec, qs ...request) {
		tree := streamfilter.NewFilterTree()
		for _, s := range specs {
			f := &stubFlow{name: s.Name, filter: &streamconfig.Filter{Name: s.Name, URL: s.URL, Method: s.Methods}}
			if err := tree.AddFlow(f); err != nil {
				fmt.Println("ERR", err)
			}
			own, all := registeredForFilter(f.filter)
			fmt.Printf("  %s %q %v -> %q all=%v\n", s.Name, s.URL, s.Methods, own, all)
		}
		for _, q := range qs {
			res, found := tree.GetFlow(apiStream(q.Method, q.URL))
			names := []string{}
			if found {
				uf, _ := res.GetUserFlow()
				for _, f := range uf {
					names = append(names, f.GetName())
				}
			}
			fmt.Printf("  %v -> %v\n", q, names)
		}
	}
	show([]spec{{Name: "f", URL: "h.com/a", Methods: []string{"GET"}}}, request{"GET", "h.com/a/b"}, request{"GET", "h.com/a/"}, request{"GET", "h.com//a"}, request{"GET", "h.com"})
	show([]spec{{Name: "f", URL: "h.com/a/{id}/b", Methods: []string{"GET"}}}, request{"GET", "h.com/a//b"}, request{"GET", "h.com/a/1/b/"})
	show([]spec{{Name: "f", URL: "h.com/a/*", Methods: []string{"GET"}}}, request{"GET", "h.com/a"}, request{"GET", "h.com/a/"}, request{"GET", "h.com/a/x"})
	show([]spec{{Name: "f", URL: "h.com/*", Methods: []string{"GET"}}}, request{"GET", "h.com"}, request{"GET", "h.com/"})
	show([]spec{{Name: "f", URL: "*"}}, request{"HEAD", "h.com"})
	show([]spec{{Name: "f1", URL: "h.com/a"}, {Name: "f2", URL: "h.com/a", Methods: []string{"GET"}}}, request{"HEAD", "h.com/a"}, request{"POST", "h.com/a"})
	show([]spec{{Name: "f2", URL: "h.com/a", Methods: []string{"GET"}}, {Name: "f1", URL: "h.com/a"}}, request{"HEAD", "h.com/a"}, request{"POST", "h.com/a"})
}
