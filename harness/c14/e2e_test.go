package c14

// End-to-end unit: the expressions the running gateway REALLY registers with the proxy. A real
// HandlingDataManager loads generated flow files; an in-process RoundTripper records what it PUTs to
// HAProxy's admin endpoints; the engine-side verdict comes from executing the transaction through
// routing.Handler (processor events name the flows that ran).

import (
	"fmt"
	"io"
	"net"
	"net/http"
	"net/http/httptest"
	"os"
	"path/filepath"
	"strings"
	"sync"
	"sync/atomic"
	"testing"
	"time"

	"lunar/engine/routing"
	streamconfig "lunar/engine/streams/config"
	contextmanager "lunar/toolkit-core/context-manager"
	"lunar/toolkit-core/logging"

	"github.com/negasus/haproxy-spoe-go/message"
	"github.com/negasus/haproxy-spoe-go/payload/kv"
	spoereq "github.com/negasus/haproxy-spoe-go/request"
	"github.com/rs/zerolog"
	"pgregory.net/rapid"

	"verif/harness/internal/engine"
	"verif/harness/internal/ev"
)

type recordingProxy struct {
	mu        sync.Mutex
	exprs     []string
	manageAll bool
}

func (p *recordingProxy) RoundTrip(req *http.Request) (*http.Response, error) {
	body := ""
	if req.Body != nil {
		b, _ := io.ReadAll(req.Body)
		req.Body.Close()
		body = string(b)
	}
	p.mu.Lock()
	if req.Method == http.MethodPut && strings.HasSuffix(req.URL.Path, "/managed_endpoint") {
		p.exprs = append(p.exprs, body)
	}
	if req.Method == http.MethodPut && strings.HasSuffix(req.URL.Path, "/manage_all") {
		p.manageAll = true
	}
	p.mu.Unlock()
	return &http.Response{StatusCode: 200, Status: "200 OK", Body: io.NopCloser(strings.NewReader("ok")), Header: http.Header{}, Request: req}, nil
}

func (p *recordingProxy) reset() {
	p.mu.Lock()
	p.exprs, p.manageAll = nil, false
	p.mu.Unlock()
}

func (p *recordingProxy) snapshot() ([]string, bool) {
	p.mu.Lock()
	defer p.mu.Unlock()
	return append([]string(nil), p.exprs...), p.manageAll
}

var (
	e2eOnce    sync.Once
	e2eErr     error
	e2eRoot    string
	e2eMux     *http.ServeMux
	e2eHandler routing.MessageHandler
	e2eProxy   = &recordingProxy{}
	e2eRec     *engine.Recorder
)

func e2eFlowYAML(s spec) string {
	var b strings.Builder
	fmt.Fprintf(&b, "name: %s\nfilter:\n  url: \"%s\"\n", s.Name, s.URL)
	if len(s.Methods) > 0 {
		fmt.Fprintf(&b, "  method: [%s]\n", strings.Join(s.Methods, ", "))
	}
	if s.Body {
		b.WriteString(`processors:
  P:
    processor: DataSanitation
flow:
  request:
    - from:
        stream:
          name: globalStream
          at: start
      to:
        processor:
          name: P
    - from:
        processor:
          name: P
      to:
        stream:
          name: globalStream
          at: end
  response:
    - from:
        stream:
          name: globalStream
          at: start
      to:
        stream:
          name: globalStream
          at: end
`)
		return b.String()
	}
	b.WriteString(`processors:
  P:
    processor: Filter
    parameters:
      - key: header
        value: "x-never=1"
flow:
  request:
    - from:
        stream:
          name: globalStream
          at: start
      to:
        processor:
          name: P
    - from:
        processor:
          name: P
          condition: hit
      to:
        stream:
          name: globalStream
          at: end
    - from:
        processor:
          name: P
          condition: miss
      to:
        stream:
          name: globalStream
          at: end
  response:
    - from:
        stream:
          name: globalStream
          at: start
      to:
        stream:
          name: globalStream
          at: end
`)
	return b.String()
}

func e2eSetup() {
	e2eOnce.Do(func() {
		engine.Setup()
		base := os.Getenv("VERIF_SCRATCH")
		if base == "" {
			base = os.TempDir()
		}
		d, err := os.MkdirTemp(base, "c14mgr-")
		if err != nil {
			e2eErr = err
			return
		}
		e2eRoot = d
		for _, sub := range []string{"flows", "quotas", "path_params", "state"} {
			os.MkdirAll(filepath.Join(d, sub), 0o755)
		}
		metrics, _ := os.ReadFile(filepath.Join(engine.Repo(), "proxy/metrics.yaml"))
		os.WriteFile(filepath.Join(d, "metrics_default.yaml"), metrics, 0o644)
		for k, v := range map[string]string{
			"LUNAR_STREAMS_ENABLED":              "true",
			"TENANT_NAME":                        "verif",
			"LUNAR_PROXY_FLOW_DIRECTORY":         filepath.Join(d, "flows"),
			"LUNAR_PROXY_QUOTAS_DIRECTORY":       filepath.Join(d, "quotas"),
			"LUNAR_FLOWS_PATH_PARAM_DIR":         filepath.Join(d, "path_params"),
			"LUNAR_PROXY_CONFIG":                 filepath.Join(d, "gateway_config.yaml"),
			"LUNAR_PROXY_METRICS_CONFIG":         filepath.Join(d, "metrics_user.yaml"),
			"LUNAR_PROXY_METRICS_CONFIG_DEFAULT": filepath.Join(d, "metrics_default.yaml"),
			"DISCOVERY_STATE_LOCATION":           filepath.Join(d, "state", "discovery.json"),
			"REMEDY_STATE_LOCATION":              filepath.Join(d, "state", "remedy.json"),
			"LUNAR_FLOWS_PATH_PARAM_CONFIG":      filepath.Join(d, "state", "path_param_conf.yaml"),
		} {
			os.Setenv(k, v)
		}
		os.WriteFile(filepath.Join(d, "flows", "f0.yaml"), []byte(e2eFlowYAML(spec{Name: "f0", URL: "h.com/a"})), 0o644)
		http.DefaultTransport = e2eProxy
		if ln, err := net.Listen("tcp", "127.0.0.1:5140"); err == nil {
			go func() {
				for {
					c, err := ln.Accept()
					if err != nil {
						return
					}
					go io.Copy(io.Discard, c)
				}
			}()
		}
		e2eErr = func() (err error) {
			defer func() {
				if r := recover(); r != nil {
					err = fmt.Errorf("panic in manager setup: %v", r)
				}
			}()
			tw := logging.ConfigureLogger("lunar-engine", false, contextmanager.Get().GetClock())
			if os.Getenv("VERIF_LOG") == "" {
				zerolog.SetGlobalLevel(zerolog.Disabled)
			}
			data := routing.NewHandlingDataManager(10*time.Second, nil)
			if err := data.Setup(tw); err != nil {
				return err
			}
			e2eMux = http.NewServeMux()
			data.SetHandleRoutes(e2eMux)
			e2eHandler = routing.Handler(data)
			return nil
		}()
		e2eRec = engine.Capture(0)
	})
}

var e2eSeq atomic.Int64

// e2eRun sends the request through the SPOE handler and returns the names of the flows that ran.
func e2eRun(q request) map[string]bool {
	id := fmt.Sprintf("e%d", e2eSeq.Add(1))
	path := "/"
	if i := strings.Index(q.URL, "/"); i >= 0 {
		path = q.URL[i:]
	}
	k := kv.NewKV()
	k.Add("id", id)
	k.Add("sequence_id", id)
	k.Add("method", q.Method)
	k.Add("scheme", "https")
	k.Add("url", q.URL)
	k.Add("path", path)
	k.Add("query", "")
	k.Add("headers", "host: h.com\r\n\r\n") // the proxy's req.hdrs dump: CRLF-terminated lines and the closing empty line
	k.Add("body", []byte(""))
	msgs := message.Messages{&message.Message{Name: "lunar-on-request", KV: k}}
	req := &spoereq.Request{Messages: &msgs}
	e2eRec.Take()
	e2eHandler(req)
	ran := map[string]bool{}
	for _, e := range e2eRec.Take() {
		ran[e.Flow] = true
	}
	return ran
}

func TestRegisteredByRunningGateway(t *testing.T) {
	e2eSetup()
	if e2eErr != nil {
		fmt.Println("VERIF-INFRA: manager setup failed:", e2eErr)
		t.Fatalf("%v", e2eErr)
	}
	r := ev.New(t, "C14")
	rapid.Check(t, func(t *rapid.T) {
		n := rapid.SampledFrom([]int{1, 2, 2, 3}).Draw(t, "filters")
		specs := []spec{}
		seen := map[string]bool{}
		// several flows share one URL pattern (with different method lists) on purpose
		pool := rapid.SliceOfN(genURLPattern(), 1, 2).Draw(t, "urls")
		for i := 0; i < n; i++ {
			s := spec{Name: fmt.Sprintf("f%d", i), URL: rapid.SampledFrom(pool).Draw(t, "url"), Methods: genMethods().Draw(t, "methods")}
			key := s.URL + " " + strings.Join(s.Methods, ",")
			if seen[key] || strings.ContainsAny(s.URL, "\"\\") {
				continue
			}
			seen[key] = true
			specs = append(specs, s)
		}
		if len(specs) == 0 {
			return
		}
		// a large configuration: one case in twelve has dozens of further flows (a filter without a method list
		// is registered once per supported method, so 26 of them are 130 expressions)
		small := specs
		if rapid.IntRange(0, 11).Draw(t, "bulk") == 0 {
			nb := rapid.SampledFrom([]int{12, 26, 27, 30, 51}).Draw(t, "bulk-flows")
			specs = append([]spec{}, specs...)
			for i := 0; i < nb; i++ {
				specs = append(specs, spec{Name: fmt.Sprintf("bulk%d", i), URL: fmt.Sprintf("bulk.com/svc%d/{id}", i)})
			}
			r.Class(fmt.Sprintf("bulk flows=%d", nb))
		}
		entries, _ := os.ReadDir(filepath.Join(e2eRoot, "flows"))
		for _, e := range entries {
			os.Remove(filepath.Join(e2eRoot, "flows", e.Name()))
		}
		for _, s := range specs {
			os.WriteFile(filepath.Join(e2eRoot, "flows", s.Name+".yaml"), []byte(e2eFlowYAML(s)), 0o644)
		}
		e2eProxy.reset()
		rr := httptest.NewRecorder()
		e2eMux.ServeHTTP(rr, httptest.NewRequest(http.MethodPost, "/load_flows", nil))
		if rr.Code != 200 {
			r.Class("configuration rejected by the loader")
			return
		}
		exprs, manageAll := e2eProxy.snapshot()
		r.Class(fmt.Sprintf("flows=%d", len(small)))
		if len(specs) > len(small) && !manageAll {
			have := map[string]bool{}
			for _, e := range exprs {
				have[e] = true
			}
			for _, s := range specs[len(small):] {
				for _, m := range []string{"GET", "PATCH"} {
					r.Case()
					q := request{Method: m, URL: strings.Replace(s.URL, "{id}", "7", 1)}
					if !e2eRun(q)[s.Name] {
						continue
					}
					own, _ := registeredForFilter(&streamconfig.Filter{Name: s.Name, URL: s.URL})
					ok := false
					for _, o := range own {
						ok = ok || (have[o] && search([]string{o}, q.Method, q.URL))
					}
					if ok || search(exprs, q.Method, q.URL) {
						continue
					}
					fail := &caseRepr{Kind: "e2e", Subject: s, Request: q}
					fail.Note = fmt.Sprintf("%d flows loaded: the running engine executes flow %s for %s %s, but none of the %d expressions it registered with the proxy matches it: the transaction bypasses the engine",
						len(specs), s.Name, q.Method, q.URL, len(exprs))
					t.Fatalf("%s", r.Fail(map[string]any{"flows": small, "bulk_flows": len(specs) - len(small), "failure": fail}, "%s", fail.Note))
				}
			}
		}
		specs = small
		for k := 0; k < 6; k++ {
			d := genDerived(t, specs)
			ran := e2eRun(d.q)
			for _, s := range specs {
				r.Case()
				if !ran[s.Name] {
					continue
				}
				if !(refMatch(s.URL, d.q.URL) && methodOK(s.Methods, d.q.Method)) {
					r.Class("engine over-match (not required to be registered)")
					continue
				}
				r.NonTrivial(ev.JSON([]any{"e2e", specs, s.Name, d.q}), func() any {
					return map[string]any{"kind": "e2e", "flows": specs, "subject": s, "request": d.q, "registered": exprs}
				})
				if manageAll || search(exprs, d.q.Method, d.q.URL) {
					r.Class("registered by the running gateway")
					continue
				}
				// not registered: is it one of the listed translation findings (then the modelled translation misses it too)?
				own, _ := registeredForFilter(&streamconfig.Filter{Name: s.Name, URL: s.URL, Method: append([]string(nil), s.Methods...)})
				fail := &caseRepr{Kind: "e2e", Configured: specs, Subject: s, Request: d.q, Registered: exprs}
				if !search(own, d.q.Method, d.q.URL) {
					if _, _, ok := attribute(r, s, own, d.q, true, func() any { return fail }); ok {
						r.Class("bypass attributed to a listed translation finding")
						continue
					}
				}
				fail.Note = fmt.Sprintf("the running engine executes flow %s for %s %s, but none of the %d expressions it registered with the proxy matches it (the translation of this filter alone would give %q): the transaction bypasses the engine",
					s.Name, d.q.Method, d.q.URL, len(exprs), own)
				t.Fatalf("%s", r.Fail(fail, "%s", fail.Note))
			}
		}
	})
}
