// C15 — discovery statistics are independent of batching and lose no traffic.
//
// The harness drives the exported functions of the aggregation output plugin in
// the order runner.go / main.go use them:
//
//	common.BuildTree(knownEndpoints, maxSplitThreshold)         (FLBPluginInit)
//	discovery.State{DiscoverFilepath}.InitializeState()         (FLBPluginInit)
//	discovery.Run(state, records, tree)                         (FLBPluginFlushCtx)
//	   = filter internal → GetUpdatedAggregations (ConvergeAggregation →
//	     ExtractAggs → CombineAggregation) → State.UpdateAggregation (JSON file)
//
// and, for exact (millisecond) observation, discovery.GetUpdatedAggregations
// directly (State keeps its aggregation unexported; the only other observation
// point is the JSON state file, whose time stamps have one-second resolution).
// DecodeRecords (msgpack from fluent-bit via cgo pointers) is not driven.
package c15

import (
	"errors"
	"encoding/json"
	"fmt"
	"math"
	"os"
	"path/filepath"
	"sort"
	"strings"
	"testing"
	"time"

	"lunar/aggregation-plugin/common"
	"lunar/aggregation-plugin/discovery"
	sd "lunar/shared-model/discovery"
	"lunar/toolkit-core/urltree"

	"github.com/rs/zerolog"
	"pgregory.net/rapid"

	"verif/harness/internal/ev"
	"verif/harness/internal/loglevel"
)

func init() { zerolog.SetGlobalLevel(zerolog.Disabled) }

// productionThreshold is urlTreeMaxSplitThreshold of aggregation-output-plugin/main.go.
const productionThreshold = 50

// ---- case description -------------------------------------------------------

type rec struct {
	M  string `json:"m"`
	U  string `json:"u"`
	S  int    `json:"s"`
	D  int    `json:"d"`
	TD int    `json:"td"`
	T  int64  `json:"t"`
	C  string `json:"c,omitempty"`
	I  string `json:"i,omitempty"`
	In bool   `json:"internal,omitempty"`
}

type kase struct {
	Threshold int      `json:"threshold"`
	Known     []string `json:"known,omitempty"`
	Recs      []rec    `json:"recs"`
	CutsA     []int    `json:"cutsA"`
	CutsB     []int    `json:"cutsB"`
	Restart   []bool   `json:"restart,omitempty"` // one flag per boundary of CutsB (stateful run)
	// WriteFail: one flag per batch of CutsB: the state file cannot be written while that batch is flushed (a
	// directory sits at its path); a later flush succeeds and no restart happens in between, so nothing may be lost
	WriteFail []bool `json:"state_file_write_fails,omitempty"`
	// ZoneMin: the local time zone of the plugin process, minutes east of UTC (the statistics carry absolute
	// instants: nothing may depend on it)
	ZoneMin int `json:"local_zone_minutes_east,omitempty"`
}

func (r rec) accessLog(i int) common.AccessLog {
	return common.AccessLog{
		Timestamp: r.T, Duration: r.D, TotalDuration: r.TD, StatusCode: r.S, Method: r.M,
		URL: r.U, Interceptor: r.I, ConsumerTag: r.C, Internal: r.In, RequestID: fmt.Sprintf("r%d", i),
	}
}

func batches(n int, cuts []int) [][2]int {
	out := [][2]int{}
	prev := 0
	for _, c := range cuts {
		out = append(out, [2]int{prev, c})
		prev = c
	}
	return append(out, [2]int{prev, n})
}

func buildTree(c kase) (*spyTree, error) {
	ke := sd.KnownEndpoints{}
	for _, u := range c.Known {
		ke.Endpoints = append(ke.Endpoints, sd.Endpoint{Method: "GET", URL: u})
	}
	tr, err := common.BuildTree(ke, c.Threshold)
	if err != nil {
		return nil, err
	}
	return &spyTree{inner: tr}, nil
}

// ---- drivers ----------------------------------------------------------------

// spyTree forwards every call to the real URL tree unchanged and notes when the
// tree converged inside a plain Insert — the call NormalizeURL makes — whose
// convergence indication the callers cannot see.
type spyTree struct {
	inner  *common.SimpleURLTree
	silent int // convergences that happened inside Insert (indication discarded)
	loud   int // convergences reported through InsertWithConvergenceIndication
	miss   int // lookups that did not find the exact URL (no match, or only a wildcard)
	// silentUnseen counts silent convergences on a URL of the current batch that the convergence pre-pass of
	// that batch (ConvergeAggregation -> NormalizeTree, which inserts every URL of the batch with the
	// indication) never inserted. The listed finding C15-F1 cannot produce that: there the pre-pass has seen
	// every URL of the batch and the silent convergence is a second-order one.
	silentUnseen int
	batch        map[string]bool
	loudSeen     map[string]bool
}

// begin tells the spy which URLs the batch about to be processed holds.
func (s *spyTree) begin(urls []string) {
	s.batch, s.loudSeen = map[string]bool{}, map[string]bool{}
	for _, u := range urls {
		s.batch[u] = true
	}
}

func (s *spyTree) Insert(url string, v *common.EmptyStruct) error {
	conv, err := s.inner.InsertWithConvergenceIndication(url, v) // = URLTree.Insert, keeping the flag
	if conv {
		s.silent++
		if s.batch[url] && !s.loudSeen[url] {
			s.silentUnseen++
		}
	}
	return err
}

func (s *spyTree) InsertDeclaredURL(url string, v *common.EmptyStruct) error {
	return s.inner.InsertDeclaredURL(url, v)
}

func (s *spyTree) InsertWithConvergenceIndication(url string, v *common.EmptyStruct) (bool, error) {
	if s.loudSeen != nil {
		s.loudSeen[url] = true
	}
	conv, err := s.inner.InsertWithConvergenceIndication(url, v)
	if conv {
		s.loud++
	}
	return conv, err
}

func (s *spyTree) Lookup(url string) urltree.LookupResult[common.EmptyStruct] {
	res := s.inner.Lookup(url)
	// every Lookup the plugin makes follows an Insert of the same URL, so the
	// exact node must be found; falling back to "no match" or to a wildcard
	// means the terminal node has no value
	if !res.Match || (strings.HasSuffix(res.NormalizedURL, "*") && !strings.HasSuffix(strings.Trim(url, "./"), "*")) {
		s.miss++
	}
	return res
}

type runInfo struct {
	batches    int // non-empty batches processed
	rekeys     int // batches after which a previously existing endpoint key had disappeared (re-keying)
	restarts   int // restarts performed while the state was non-empty
	resets     int // restarts performed at all (each one rebuilds the URL tree from the known endpoints)
	silent     int // convergences of the tree inside NormalizeURL (not reported to ConvergeAggregation)
	unseen     int // ... of which on a URL of the batch that the batch's convergence pre-pass never inserted
	writeFails int // flushes whose state-file write was made to fail
	loud       int // convergences reported to ConvergeAggregation
	miss       int // NormalizeURL lookups that missed the URL just inserted
	rejectErr  error
	rejected   [][2]int // batches the plugin refused with an error (their records are not in the statistics)
}

// hasEmptySegment: the URL has an empty host label or path segment (`//`), which
// urltree.validateURL refuses.
func hasEmptySegment(u string) bool {
	for _, p := range parts(u) {
		if p.val == "" {
			return true
		}
	}
	return false
}

// survivors are the records of recs[:upto] outside the rejected batches.
func survivors(recs []rec, upto int, rejected [][2]int) []rec {
	out := []rec{}
	for i := 0; i < upto; i++ {
		lost := false
		for _, b := range rejected {
			lost = lost || (i >= b[0] && i < b[1])
		}
		if !lost {
			out = append(out, recs[i])
		}
	}
	return out
}

// runPure applies GetUpdatedAggregations batch by batch (what Run does between
// filtering and persisting) and returns the final aggregate at full resolution.
func runPure(c kase, cuts []int) (discovery.Agg, runInfo, error) {
	info := runInfo{}
	tree, err := buildTree(c)
	if err != nil {
		return discovery.Agg{}, info, err
	}
	agg := discovery.Agg{ // as State.InitializeState creates it
		Endpoints:    map[sd.Endpoint]sd.EndpointAgg{},
		Interceptors: map[common.Interceptor]discovery.InterceptorAgg{},
	}
	for _, b := range batches(len(c.Recs), cuts) {
		if b[0] == b[1] {
			continue // Run returns before touching anything
		}
		logs := []discovery.AccessLog{}
		for i := b[0]; i < b[1]; i++ {
			if !c.Recs[i].In {
				logs = append(logs, discovery.AccessLog(c.Recs[i].accessLog(i)))
			}
		}
		prev := make([]sd.Endpoint, 0, len(agg.Endpoints))
		for k := range agg.Endpoints {
			prev = append(prev, k)
		}
		us := make([]string, 0, len(logs))
		for _, l := range logs {
			us = append(us, l.URL)
		}
		tree.begin(us)
		next, err := discovery.GetUpdatedAggregations(agg, logs, tree)
		if err != nil {
			// Run logs the error and returns it without updating the state
			info.rejected = append(info.rejected, b)
			info.rejectErr = fmt.Errorf("GetUpdatedAggregations(batch %v): %w", b, err)
			continue
		}
		agg = next
		info.batches++
		for _, k := range prev {
			if _, ok := agg.Endpoints[k]; !ok {
				info.rekeys++
				break
			}
		}
	}
	info.silent, info.loud, info.miss, info.unseen = tree.silent, tree.loud, tree.miss, tree.silentUnseen
	return agg, info, nil
}

// lostState: the state file as the plugin left it after flushes it reported as successful cannot be read back -
// that is the statement's "written to disk and read back, the totals are preserved" failing outright, not a
// problem of the harness.
type lostState struct{ msg string }

func (e *lostState) Error() string { return e.msg }

func readState(path string) (*discovery.Agg, error) {
	b, err := os.ReadFile(path)
	if err != nil {
		return nil, &lostState{fmt.Sprintf("the state file cannot be read: %v", err)}
	}
	out := sd.Output{}
	if err := json.Unmarshal(b, &out); err != nil {
		return nil, &lostState{fmt.Sprintf("the state file the plugin wrote is not valid JSON: %v (%d bytes; it ends %.80q)", err, len(b), string(b[max(0, len(b)-80):]))}
	}
	return discovery.ConvertFromPersisted(out), nil
}

// runStateful drives discovery.Run with a real state file; at the flagged batch
// boundaries the plugin "restarts": a fresh State reads the file and the URL tree
// is rebuilt from the known endpoints only, exactly as FLBPluginInit does.
// check is called with the persisted aggregate and the prefix length at every
// restart and at the end.
func runStateful(c kase, cuts []int, restart []bool, dir string, check func(a *discovery.Agg, upto int, rejected [][2]int, when string) error) (*discovery.Agg, runInfo, error) {
	info := runInfo{}
	path := filepath.Join(dir, "discovery-state.json")
	_ = os.Remove(path)
	defer os.Remove(path)
	st := &discovery.State{DiscoverFilepath: path}
	if err := st.InitializeState(); err != nil {
		return nil, info, fmt.Errorf("InitializeState: %w", err)
	}
	tree, err := buildTree(c)
	if err != nil {
		return nil, info, err
	}
	for bi, b := range batches(len(c.Recs), cuts) {
		if bi > 0 && bi-1 < len(restart) && restart[bi-1] {
			persisted, err := readState(path)
			if err != nil {
				return nil, info, err
			}
			if err := check(persisted, b[0], info.rejected, fmt.Sprintf("state file before restart at record %d", b[0])); err != nil {
				return nil, info, err
			}
			info.resets++
			if len(persisted.Endpoints) > 0 {
				info.restarts++
			}
			st = &discovery.State{DiscoverFilepath: path}
			if err := st.InitializeState(); err != nil {
				return nil, info, &lostState{fmt.Sprintf("after a restart at record %d the plugin cannot load the state it wrote: %v", b[0], err)}
			}
			info.silent, info.loud, info.miss, info.unseen = info.silent+tree.silent, info.loud+tree.loud, info.miss+tree.miss, info.unseen+tree.silentUnseen
			if tree, err = buildTree(c); err != nil {
				return nil, info, err
			}
		}
		logs := make([]common.AccessLog, 0, b[1]-b[0])
		for i := b[0]; i < b[1]; i++ {
			logs = append(logs, c.Recs[i].accessLog(i))
		}
		// (records of the gateway's own traffic are dropped by Run before the convergence pre-pass sees them)
		us := make([]string, 0, len(logs))
		for i := b[0]; i < b[1]; i++ {
			if !c.Recs[i].In {
				us = append(us, c.Recs[i].U)
			}
		}
		tree.begin(us)
		failWrite := bi < len(c.WriteFail) && c.WriteFail[bi] && len(logs) > 0
		if failWrite {
			_ = os.Remove(path)
			if err := os.Mkdir(path, 0o755); err != nil {
				return nil, info, fmt.Errorf("cannot block the state file: %w", err)
			}
		}
		err := discovery.Run(st, logs, tree)
		if failWrite {
			_ = os.Remove(path)
			info.writeFails++
			if err == nil {
				return nil, info, fmt.Errorf("Run reported success although the state file could not be written")
			}
			// the flush failed on the way to the disk: its records stay in memory and must reach the next file
			info.batches++
			continue
		}
		if err != nil {
			info.rejected = append(info.rejected, b)
			info.rejectErr = fmt.Errorf("Run(batch %v): %w", b, err)
			continue
		}
		if len(logs) > 0 {
			info.batches++
		}
	}
	info.silent, info.loud, info.miss, info.unseen = info.silent+tree.silent, info.loud+tree.loud, info.miss+tree.miss, info.unseen+tree.silentUnseen
	final, err := readState(path)
	if err != nil {
		return nil, info, err
	}
	return final, info, check(final, len(c.Recs), info.rejected, "final state file")
}

// ---- oracle: independent fold over the raw records --------------------------

type part struct {
	host bool
	val  string
}

// parts splits a URL the way the statement's "endpoint" is structured: host
// labels, then path segments; leading/trailing separators are immaterial.
func parts(u string) []part {
	u = strings.Trim(u, "./")
	sp := strings.Split(u, "/")
	out := []part{}
	for _, h := range strings.Split(sp[0], ".") {
		out = append(out, part{true, h})
	}
	for _, p := range sp[1:] {
		out = append(out, part{false, p})
	}
	return out
}

func isParam(s string) bool { return strings.HasPrefix(s, "{") && strings.HasSuffix(s, "}") }

// covers: the record URL r may be attributed to endpoint key k — k equals r
// segment by segment, a `{name}` segment standing for any value (and a final
// `*` for any remainder). This is deliberately the weakest reading of
// "attributed": every key the normaliser can legitimately produce covers the
// raw URL, whatever the tree had learnt at that moment.
func covers(k, r []part) bool {
	for i, kp := range k {
		if kp.val == "*" && i == len(k)-1 {
			return true
		}
		if i >= len(r) || kp.host != r[i].host {
			return false
		}
		if kp.val != r[i].val && !isParam(kp.val) {
			return false
		}
	}
	return len(k) == len(r)
}

func floorSec(t int64) int64 { return t - ((t%1000)+1000)%1000 }

func closeTo(got float32, want float64) bool {
	return math.Abs(float64(got)-want) <= 1e-4*math.Abs(want)+1e-3
}

// checkMapping checks one endpoint→statistics mapping against the raw records
// that must be accounted for in it. secRes: time stamps are compared at
// one-second resolution (the state went through the JSON file).
func checkMapping(label string, m map[sd.Endpoint]sd.EndpointAgg, recs []rec, secRes bool) error {
	norm := func(t int64) int64 {
		if secRes {
			return floorSec(t)
		}
		return t
	}
	total := 0
	keys := make([]sd.Endpoint, 0, len(m))
	for k := range m {
		keys = append(keys, k)
	}
	sort.Slice(keys, func(i, j int) bool {
		if keys[i].Method != keys[j].Method {
			return keys[i].Method < keys[j].Method
		}
		return keys[i].URL < keys[j].URL
	})
	var sumD, sumTD float64
	for _, k := range keys {
		a := m[k]
		total += int(a.Count)
		sc := 0
		for s, n := range a.StatusCodes {
			if n < 0 {
				return fmt.Errorf("%s: %v has negative count for status %d", label, k, s)
			}
			sc += int(n)
		}
		if sc != int(a.Count) {
			return fmt.Errorf("%s: endpoint %v has count %d but its status counts sum to %d (%v)", label, k, a.Count, sc, a.StatusCodes)
		}
		sumD += float64(a.AverageDuration) * float64(a.Count)
		sumTD += float64(a.AverageTotalDuration) * float64(a.Count)
	}
	if total != len(recs) {
		return fmt.Errorf("%s: endpoint counts sum to %d, but %d records were processed", label, total, len(recs))
	}
	// totals that no attribution can change
	wantStatus := map[int]int{}
	wantMethod := map[string]int{}
	var wantD, wantTD float64
	for _, r := range recs {
		wantStatus[r.S]++
		wantMethod[r.M]++
		wantD += float64(r.D)
		wantTD += float64(r.TD)
	}
	gotStatus := map[int]int{}
	gotMethod := map[string]int{}
	for _, k := range keys {
		gotMethod[k.Method] += int(m[k].Count)
		for s, n := range m[k].StatusCodes {
			gotStatus[s] += int(n)
		}
	}
	for s, n := range wantStatus {
		if gotStatus[s] != n {
			return fmt.Errorf("%s: status %d counted %d times over all endpoints, %d records had it", label, s, gotStatus[s], n)
		}
	}
	for mth, n := range wantMethod {
		if gotMethod[mth] != n {
			return fmt.Errorf("%s: method %s counted %d times over all endpoints, %d records had it", label, mth, gotMethod[mth], n)
		}
	}
	if len(recs) > 0 {
		n := float64(len(recs))
		if !closeTo(float32(sumD/n), wantD/n) || !closeTo(float32(sumTD/n), wantTD/n) {
			return fmt.Errorf("%s: count-weighted mean of the endpoint averages is %.4f / %.4f, the true overall means are %.4f / %.4f", label, sumD/n, sumTD/n, wantD/n, wantTD/n)
		}
	}
	// attribution
	kparts := make([][]part, len(keys))
	for i, k := range keys {
		kparts[i] = parts(k.URL)
	}
	type set struct {
		all, uniq []int
	}
	sets := make([]set, len(keys))
	for ri, r := range recs {
		rp := parts(r.U)
		cov := []int{}
		for ki, k := range keys {
			if k.Method == r.M && (k.URL == r.U || covers(kparts[ki], rp)) {
				cov = append(cov, ki)
			}
		}
		if len(cov) == 0 {
			return fmt.Errorf("%s: record #%d %s %s is attributed to no endpoint", label, ri, r.M, r.U)
		}
		for _, ki := range cov {
			sets[ki].all = append(sets[ki].all, ri)
			if len(cov) == 1 {
				sets[ki].uniq = append(sets[ki].uniq, ri)
			}
		}
	}
	for ki, k := range keys {
		a := m[k]
		all, uniq := sets[ki].all, sets[ki].uniq
		if int(a.Count) < len(uniq) || int(a.Count) > len(all) {
			return fmt.Errorf("%s: endpoint %v has count %d; %d records can only belong to it, %d can belong to it at all", label, k, a.Count, len(uniq), len(all))
		}
		if a.Count == 0 {
			continue
		}
		stAll, stUniq := map[int]int{}, map[int]int{}
		times := map[int64]bool{}
		var minAll, maxAll int64 = math.MaxInt64, math.MinInt64
		dLo, dHi, tdLo, tdHi := math.MaxFloat64, -math.MaxFloat64, math.MaxFloat64, -math.MaxFloat64
		for _, ri := range all {
			r := recs[ri]
			stAll[r.S]++
			times[norm(r.T)] = true
			minAll, maxAll = min(minAll, norm(r.T)), max(maxAll, norm(r.T))
			dLo, dHi = math.Min(dLo, float64(r.D)), math.Max(dHi, float64(r.D))
			tdLo, tdHi = math.Min(tdLo, float64(r.TD)), math.Max(tdHi, float64(r.TD))
		}
		var minU, maxU int64 = math.MaxInt64, math.MinInt64
		var sD, sTD float64
		for _, ri := range uniq {
			r := recs[ri]
			stUniq[r.S]++
			minU, maxU = min(minU, norm(r.T)), max(maxU, norm(r.T))
			sD += float64(r.D)
			sTD += float64(r.TD)
		}
		for s, n := range a.StatusCodes {
			if int(n) > stAll[s] || int(n) < stUniq[s] {
				return fmt.Errorf("%s: endpoint %v counts status %d %d times; attributable records have it between %d and %d times", label, k, s, n, stUniq[s], stAll[s])
			}
		}
		for s, n := range stUniq {
			if int(a.StatusCodes[s]) < n {
				return fmt.Errorf("%s: endpoint %v counts status %d %d times but %d records with it can only belong to it", label, k, s, a.StatusCodes[s], n)
			}
		}
		gotMin, gotMax := norm(a.MinTime), norm(a.MaxTime)
		if !times[gotMin] || !times[gotMax] {
			return fmt.Errorf("%s: endpoint %v has min/max time %d/%d which is not the time stamp of any record attributable to it", label, k, a.MinTime, a.MaxTime)
		}
		if gotMin > gotMax {
			return fmt.Errorf("%s: endpoint %v has min time %d > max time %d", label, k, a.MinTime, a.MaxTime)
		}
		if len(uniq) > 0 && (gotMin > minU || gotMax < maxU) {
			return fmt.Errorf("%s: endpoint %v has min/max time %d/%d but records that can only belong to it span %d..%d", label, k, a.MinTime, a.MaxTime, minU, maxU)
		}
		if len(uniq) == len(all) {
			// unambiguous attribution: everything is determined
			if gotMin != minAll || gotMax != maxAll {
				return fmt.Errorf("%s: endpoint %v has min/max time %d/%d, its records span %d..%d", label, k, a.MinTime, a.MaxTime, minAll, maxAll)
			}
			n := float64(len(all))
			if !closeTo(a.AverageDuration, sD/n) || !closeTo(a.AverageTotalDuration, sTD/n) {
				return fmt.Errorf("%s: endpoint %v has average durations %v/%v, the true means of its %d records are %.4f/%.4f", label, k, a.AverageDuration, a.AverageTotalDuration, len(all), sD/n, sTD/n)
			}
		} else {
			lo := func(x float64) float64 { return x - 1e-4*math.Abs(x) - 1e-3 }
			hi := func(x float64) float64 { return x + 1e-4*math.Abs(x) + 1e-3 }
			if d := float64(a.AverageDuration); d < lo(dLo) || d > hi(dHi) {
				return fmt.Errorf("%s: endpoint %v has average duration %v outside the range %v..%v of its attributable records", label, k, a.AverageDuration, dLo, dHi)
			}
			if d := float64(a.AverageTotalDuration); d < lo(tdLo) || d > hi(tdHi) {
				return fmt.Errorf("%s: endpoint %v has average total duration %v outside the range %v..%v of its attributable records", label, k, a.AverageTotalDuration, tdLo, tdHi)
			}
		}
	}
	return nil
}

func consumerOf(r rec) string {
	if r.C == "" {
		return discovery.UnknownConsumerTag
	}
	return r.C
}

// conservation: the aggregate accounts for exactly the non-internal records of recs.
func conservation(label string, a discovery.Agg, recs []rec, secRes bool) error {
	ext := []rec{}
	byConsumer := map[string][]rec{}
	for _, r := range recs {
		if r.In {
			continue
		}
		ext = append(ext, r)
		byConsumer[consumerOf(r)] = append(byConsumer[consumerOf(r)], r)
	}
	if err := checkMapping(label+" endpoints", a.Endpoints, ext, secRes); err != nil {
		return err
	}
	for tag, rs := range byConsumer {
		m, ok := a.Consumers[tag]
		if !ok {
			return fmt.Errorf("%s: consumer %q sent %d records but has no statistics", label, tag, len(rs))
		}
		if err := checkMapping(fmt.Sprintf("%s consumer %q", label, tag), m, rs, secRes); err != nil {
			return err
		}
	}
	for tag, m := range a.Consumers {
		if _, ok := byConsumer[tag]; !ok && len(m) > 0 {
			n := 0
			for _, e := range m {
				n += int(e.Count)
			}
			if n > 0 {
				return fmt.Errorf("%s: consumer %q has %d requests but sent no record", label, tag, n)
			}
		}
	}
	// interceptors: the newest "last transaction" over all interceptors is the newest record
	if len(ext) > 0 {
		var newest, got int64 = math.MinInt64, math.MinInt64
		times := map[int64]bool{}
		for _, r := range ext {
			t := r.T
			if secRes {
				t = floorSec(t)
			}
			newest = max(newest, t)
			times[t] = true
		}
		if len(a.Interceptors) == 0 {
			return fmt.Errorf("%s: records were processed but no interceptor is listed", label)
		}
		for ic, ia := range a.Interceptors {
			t := ia.Timestamp
			if secRes {
				t = floorSec(t)
			}
			if !times[t] {
				return fmt.Errorf("%s: interceptor %v has last-transaction time %d which is no record's time stamp", label, ic, ia.Timestamp)
			}
			got = max(got, t)
		}
		if got != newest {
			return fmt.Errorf("%s: newest interceptor time %d, newest record %d", label, got, newest)
		}
	}
	return nil
}

// ---- oracle: batch invariance -----------------------------------------------

func diffMapping(label string, a, b map[sd.Endpoint]sd.EndpointAgg, secRes bool) string {
	norm := func(t int64) int64 {
		if secRes {
			return floorSec(t)
		}
		return t
	}
	keys := map[sd.Endpoint]bool{}
	for k := range a {
		keys[k] = true
	}
	for k := range b {
		keys[k] = true
	}
	ks := make([]sd.Endpoint, 0, len(keys))
	for k := range keys {
		ks = append(ks, k)
	}
	sort.Slice(ks, func(i, j int) bool { return ks[i].Method+" "+ks[i].URL < ks[j].Method+" "+ks[j].URL })
	for _, k := range ks {
		x, okx := a[k]
		y, oky := b[k]
		if !okx || !oky {
			if (okx && x.Count == 0) || (oky && y.Count == 0) {
				continue
			}
			return fmt.Sprintf("%s: endpoint %v present in one result only (%+v vs %+v)", label, k, x, y)
		}
		if x.Count != y.Count {
			return fmt.Sprintf("%s: endpoint %v count %d vs %d", label, k, x.Count, y.Count)
		}
		for s, n := range x.StatusCodes {
			if y.StatusCodes[s] != n {
				return fmt.Sprintf("%s: endpoint %v status %d count %d vs %d", label, k, s, n, y.StatusCodes[s])
			}
		}
		for s, n := range y.StatusCodes {
			if x.StatusCodes[s] != n {
				return fmt.Sprintf("%s: endpoint %v status %d count %d vs %d", label, k, s, x.StatusCodes[s], n)
			}
		}
		if norm(x.MinTime) != norm(y.MinTime) || norm(x.MaxTime) != norm(y.MaxTime) {
			return fmt.Sprintf("%s: endpoint %v min/max %d/%d vs %d/%d", label, k, x.MinTime, x.MaxTime, y.MinTime, y.MaxTime)
		}
		if !closeTo(x.AverageDuration, float64(y.AverageDuration)) || !closeTo(x.AverageTotalDuration, float64(y.AverageTotalDuration)) {
			return fmt.Sprintf("%s: endpoint %v averages %v/%v vs %v/%v", label, k, x.AverageDuration, x.AverageTotalDuration, y.AverageDuration, y.AverageTotalDuration)
		}
	}
	return ""
}

func diffAgg(a, b discovery.Agg, secRes bool) string {
	if d := diffMapping("endpoints", a.Endpoints, b.Endpoints, secRes); d != "" {
		return d
	}
	tags := map[string]bool{}
	for t := range a.Consumers {
		tags[t] = true
	}
	for t := range b.Consumers {
		tags[t] = true
	}
	ts := make([]string, 0, len(tags))
	for t := range tags {
		ts = append(ts, t)
	}
	sort.Strings(ts)
	for _, t := range ts {
		if d := diffMapping(fmt.Sprintf("consumer %q", t), a.Consumers[t], b.Consumers[t], secRes); d != "" {
			return d
		}
	}
	ics := map[common.Interceptor]bool{}
	for i := range a.Interceptors {
		ics[i] = true
	}
	for i := range b.Interceptors {
		ics[i] = true
	}
	for i := range ics {
		x, okx := a.Interceptors[i]
		y, oky := b.Interceptors[i]
		tx, ty := x.Timestamp, y.Timestamp
		if secRes {
			tx, ty = floorSec(tx), floorSec(ty)
		}
		if okx != oky || tx != ty {
			return fmt.Sprintf("interceptor %v: %v(%v) vs %v(%v)", i, x.Timestamp, okx, y.Timestamp, oky)
		}
	}
	return ""
}

// ---- oracle: persistence round trip -----------------------------------------

func roundTrip(a discovery.Agg) string {
	out := discovery.ConvertToPersisted(a)
	b, err := json.Marshal(out)
	if err != nil {
		return "persisted form cannot be marshalled: " + err.Error()
	}
	back := sd.Output{}
	if err := json.Unmarshal(b, &back); err != nil {
		return "persisted form cannot be unmarshalled: " + err.Error()
	}
	got := discovery.ConvertFromPersisted(back)
	if d := diffAgg(a, *got, true); d != "" {
		return "ConvertFromPersisted(ConvertToPersisted(a)) differs from a: " + d
	}
	return ""
}

// ---- classification ---------------------------------------------------------

func paramDepth(a discovery.Agg) (assumed int, declared int) {
	for k := range a.Endpoints {
		n, d := 0, 0
		for _, p := range parts(k.URL) {
			if strings.HasPrefix(p.val, "{_param_") {
				n++
			} else if isParam(p.val) {
				d++
			}
		}
		assumed, declared = max(assumed, n), max(declared, d)
	}
	return
}

func bucket(n int, edges ...int) string {
	lo := 0
	for _, e := range edges {
		if n <= e {
			return fmt.Sprintf("%d-%d", lo, e)
		}
		lo = e + 1
	}
	return fmt.Sprintf("%d+", lo)
}

// ---- generator --------------------------------------------------------------

var hostPool = []string{"api.com", "api.com", "svc.io", "x.api.com"}
var segPool = []string{"users", "orders", "v1", "items", "#", "#", "#"}
var fixedTemplates = [][]string{
	{"users", "#"},
	{"users", "#", "orders", "#"},
	{"v1", "#", "items"},
	{"users", "#", "orders", "#", "items", "#"},
	{"#"},
	{"v1", "users", "#"},
}
// "arn:aws:s3:::logs": a path segment that contains the delimiter of the persisted endpoint keys ("<method>:::<url>")
var oddValues = []string{"me", "users", "orders", "0", "arn:aws:s3:::logs"}

type tmpl struct {
	host string
	segs []string
}

func (t tmpl) slots() int {
	n := 0
	for _, s := range t.segs {
		if s == "#" {
			n++
		}
	}
	return n
}

func (t tmpl) url(vals []string) string {
	out := []string{t.host}
	i := 0
	for _, s := range t.segs {
		if s == "#" {
			out = append(out, vals[i])
			i++
		} else {
			out = append(out, s)
		}
	}
	return strings.Join(out, "/")
}

type genOpts struct {
	thresholds []int
	maxRecs    int
	maxItems   int
	burstOneIn int // a stream item is a burst of consecutive ids with probability 1/burstOneIn
	burstMin   func(threshold int) int
	badOneIn   int // one case in badOneIn may contain URLs with an empty path segment (0 = never)
}

var smallTrees = genOpts{thresholds: []int{2, 2, 2, 3, 3, 5, productionThreshold}, maxRecs: 200, maxItems: 40, burstOneIn: 4,
	burstMin: func(int) int { return 2 }, badOneIn: 25}

// productionTrees: only the plugin's real threshold, streams made of few long
// bursts so that the 50-way split is crossed at several depths.
var productionTrees = genOpts{thresholds: []int{productionThreshold}, maxRecs: 400, maxItems: 12, burstOneIn: 2,
	burstMin: func(th int) int { return th - 1 }}

func genCase(t *rapid.T, g genOpts) kase {
	c := kase{ZoneMin: rapid.SampledFrom([]int{0, 0, 180, -300, 330, 765, -720}).Draw(t, "zone")}
	maxRecs := g.maxRecs
	c.Threshold = rapid.SampledFrom(g.thresholds).Draw(t, "threshold")
	nT := rapid.IntRange(1, 4).Draw(t, "ntemplates")
	tmpls := make([]tmpl, nT)
	for i := range tmpls {
		tmpls[i].host = rapid.SampledFrom(hostPool).Draw(t, "host")
		if rapid.IntRange(0, 2).Draw(t, "fixed") > 0 {
			tmpls[i].segs = rapid.SampledFrom(fixedTemplates).Draw(t, "template")
		} else {
			tmpls[i].segs = rapid.SliceOfN(rapid.SampledFrom(segPool), 1, 4).Draw(t, "segs")
		}
	}
	// known endpoints (declared parameters, literals next to parameters, a wildcard)
	for i, tp := range tmpls {
		switch rapid.SampledFrom([]string{"", "", "", "", "param", "param", "literal", "wild"}).Draw(t, fmt.Sprintf("known%d", i)) {
		case "param":
			vals := make([]string, tp.slots())
			for j := range vals {
				vals[j] = fmt.Sprintf("{p%d}", j+1)
			}
			c.Known = append(c.Known, tp.url(vals))
		case "literal":
			vals := make([]string, tp.slots())
			for j := range vals {
				vals[j] = "me"
			}
			c.Known = append(c.Known, tp.url(vals))
		case "wild":
			c.Known = append(c.Known, tp.host+"/*")
		}
	}
	span := c.Threshold + 3
	allowBad := g.badOneIn > 0 && rapid.IntRange(1, g.badOneIn).Draw(t, "allowbad") == g.badOneIn
	// one case in four has a provider outage: HAProxy logs "duration" (%Tr) as -1 for a transaction whose server
	// never answered, so most records of such a case carry -1 (and a small total duration)
	outage := rapid.IntRange(0, 3).Draw(t, "outage") == 0
	recGen := func(url string) *rapid.Generator[rec] {
		return rapid.Custom(func(t *rapid.T) rec {
			r := rec{U: url}
			if allowBad && rapid.IntRange(0, 7).Draw(t, "bad") == 7 {
				// a doubled slash, as a client may well send it
				k := rapid.IntRange(1, strings.Count(url, "/")).Draw(t, "badpos")
				idx := 0
				for i := 0; i < len(url); i++ {
					if url[i] == '/' {
						if k--; k == 0 {
							idx = i
						}
					}
				}
				r.U = url[:idx] + "/" + url[idx:]
			}
			if rapid.IntRange(0, 19).Draw(t, "slash") == 19 {
				r.U += "/"
			}
			r.M = rapid.SampledFrom([]string{"GET", "GET", "GET", "POST", "POST", "DELETE", "get"}).Draw(t, "method") // "get": a method token is case-sensitive text, logged as received
			r.S = rapid.SampledFrom([]int{200, 200, 200, 201, 404, 429, 500, 503}).Draw(t, "status")
			r.D = rapid.OneOf(rapid.IntRange(0, 1000), rapid.IntRange(0, 1_000_000)).Draw(t, "dur")
			r.TD = r.D + rapid.IntRange(0, 500).Draw(t, "extra")
			if outage && rapid.IntRange(0, 4).Draw(t, "unanswered") > 0 {
				r.D, r.TD = -1, rapid.IntRange(0, 3).Draw(t, "aborted-after")
			} else if outage {
				r.D = rapid.IntRange(0, 3).Draw(t, "quick")
				r.TD = r.D + 1
			}
			r.T = 1_700_000_000_000 + int64(rapid.OneOf(rapid.IntRange(0, 3000), rapid.IntRange(0, 5_000_000)).Draw(t, "ts"))
			r.C = rapid.SampledFrom([]string{"", "", "a", "b"}).Draw(t, "consumer")
			r.I = rapid.SampledFrom([]string{"lunar-aiohttp-interceptor/2.0.2", "lunar-aiohttp-interceptor/2.0.2", "lunar-py/1.0", "", "bad", "a/b/c"}).Draw(t, "interceptor")
			r.In = rapid.IntRange(0, 9).Draw(t, "internal") == 9
			return r
		})
	}
	// one stream item: a single record, or a burst of records with consecutive ids in one slot
	itemGen := rapid.Custom(func(t *rapid.T) []rec {
		tp := tmpls[rapid.IntRange(0, nT-1).Draw(t, "tmpl")]
		ns := tp.slots()
		base := make([]int, ns)
		odd := make([]string, ns)
		for j := range base {
			base[j] = rapid.IntRange(0, span).Draw(t, "id")
			if rapid.IntRange(0, 11).Draw(t, "odd") == 11 {
				odd[j] = rapid.SampledFrom(oddValues).Draw(t, "oddv")
			}
		}
		burst, vary := 1, 0
		if ns > 0 && rapid.IntRange(0, g.burstOneIn-1).Draw(t, "isburst") == g.burstOneIn-1 {
			burst = rapid.IntRange(g.burstMin(c.Threshold), c.Threshold+2).Draw(t, "burst")
			vary = rapid.IntRange(0, ns-1).Draw(t, "vary")
		}
		out := []rec{}
		for b := 0; b < burst; b++ {
			vals := make([]string, ns)
			for j := range vals {
				v := base[j]
				if j == vary {
					v += b
				}
				vals[j] = fmt.Sprintf("%d", v)
				if odd[j] != "" && b == 0 {
					vals[j] = odd[j]
				}
			}
			out = append(out, recGen(tp.url(vals)).Draw(t, "rec"))
		}
		return out
	})
	minItems := rapid.SampledFrom([]int{1, 1, 4, 8}).Draw(t, "minitems") // rapid favours short slices
	for _, item := range rapid.SliceOfN(itemGen, min(minItems, g.maxItems), g.maxItems).Draw(t, "items") {
		for _, r := range item {
			if len(c.Recs) < maxRecs {
				c.Recs = append(c.Recs, r)
			}
		}
	}
	n := len(c.Recs)
	cut := func(label string) []int {
		cs := rapid.SliceOfN(rapid.IntRange(0, n), 0, 6).Draw(t, label)
		sort.Ints(cs)
		return cs
	}
	c.CutsA = cut("cutsA")
	c.CutsB = cut("cutsB")
	if len(c.CutsB) > 0 && rapid.IntRange(0, 2).Draw(t, "restarts") == 2 {
		c.Restart = make([]bool, len(c.CutsB))
		for i := range c.Restart {
			c.Restart[i] = rapid.IntRange(0, 1).Draw(t, "restart") == 1
		}
	}
	if len(c.CutsB) > 0 && rapid.IntRange(0, 3).Draw(t, "write-failure") == 0 {
		bs := batches(n, c.CutsB)
		bi := rapid.IntRange(0, len(bs)-1).Draw(t, "failing-flush")
		// only where the statement is unambiguous: no record of the failing flush is refused for another reason,
		// a later flush with records succeeds, and the plugin is not restarted before that one
		ok, later := bs[bi][1] > bs[bi][0], -1
		for i := bs[bi][0]; i < bs[bi][1]; i++ {
			ok = ok && !strings.Contains(c.Recs[i].U, "//")
		}
		for j := bi + 1; j < len(bs) && later < 0; j++ {
			clean := bs[j][1] > bs[j][0]
			for i := bs[j][0]; i < bs[j][1]; i++ {
				clean = clean && !strings.Contains(c.Recs[i].U, "//")
			}
			if clean {
				later = j
			}
		}
		if ok && later > 0 {
			c.WriteFail = make([]bool, len(bs))
			c.WriteFail[bi] = true
			for j := bi; j < later && j < len(c.Restart); j++ {
				c.Restart[j] = false
			}
		}
	}
	return c
}

// ---- classifier side: the attribution model "as implemented" -----------------
//
// Used only to attribute a batch-invariance failure to a listed known finding,
// never to accept a result. It follows every record individually through the
// procedure of GetUpdatedAggregations: per batch (1) insert the batch's URLs,
// (2) if the tree reported a convergence, re-normalise the keys assigned so far
// with the tree as it is now, (3) normalise the new records — once for the
// endpoint table, once more for the consumer tables — and finally folds the raw
// records under the key each one ended up with (exact arithmetic).

type model struct {
	agg    discovery.Agg
	silent int
	miss   int
	ek, ck map[int]string // record index → endpoint key URL in the endpoint table / in its consumer's table
}

func interceptorOf(r rec) common.Interceptor {
	p := strings.Split(r.I, "/")
	if len(p) == 2 {
		return common.Interceptor{Type: p[0], Version: p[1]}
	}
	return common.Interceptor{Type: "unknown", Version: "unknown"}
}

func foldRecords(recs []rec, idx []int, key map[int]string) map[sd.Endpoint]sd.EndpointAgg {
	type acc struct {
		n       int
		st      map[int]sd.Count
		mn, mx  int64
		sd, std float64
	}
	accs := map[sd.Endpoint]*acc{}
	for _, i := range idx {
		r := recs[i]
		k := sd.Endpoint{Method: r.M, URL: key[i]}
		a := accs[k]
		if a == nil {
			a = &acc{st: map[int]sd.Count{}, mn: math.MaxInt64, mx: math.MinInt64}
			accs[k] = a
		}
		a.n++
		a.st[r.S]++
		a.mn, a.mx = min(a.mn, r.T), max(a.mx, r.T)
		a.sd += float64(r.D)
		a.std += float64(r.TD)
	}
	out := map[sd.Endpoint]sd.EndpointAgg{}
	for k, a := range accs {
		out[k] = sd.EndpointAgg{MinTime: a.mn, MaxTime: a.mx, Count: sd.Count(a.n), StatusCodes: a.st,
			AverageDuration: float32(a.sd / float64(a.n)), AverageTotalDuration: float32(a.std / float64(a.n))}
	}
	return out
}

func modelRun(c kase, cuts []int) (model, error) {
	tree, err := buildTree(c)
	if err != nil {
		return model{}, err
	}
	ek, ck := map[int]string{}, map[int]string{}
	seen := []int{}
	rekey := func(m map[int]string) {
		distinct := map[string]bool{}
		for _, i := range seen {
			distinct[m[i]] = true
		}
		urls := make([]string, 0, len(distinct))
		for u := range distinct {
			urls = append(urls, u)
		}
		sort.Strings(urls)
		to := map[string]string{}
		for _, u := range urls {
			to[u] = common.NormalizeURL(tree, u)
		}
		for _, i := range seen {
			m[i] = to[m[i]]
		}
	}
	for _, b := range batches(len(c.Recs), cuts) {
		if b[0] == b[1] {
			continue
		}
		idx := []int{}
		for i := b[0]; i < b[1]; i++ {
			if !c.Recs[i].In {
				idx = append(idx, i)
			}
		}
		conv := false
		for _, i := range idx {
			f, err := tree.InsertWithConvergenceIndication(c.Recs[i].U, &common.EmptyStruct{})
			if err != nil {
				return model{}, err
			}
			conv = conv || f
		}
		if conv {
			rekey(ek)
			rekey(ck)
		}
		for _, i := range idx {
			ek[i] = common.NormalizeURL(tree, c.Recs[i].U)
		}
		tags := map[string][]int{}
		names := []string{}
		for _, i := range idx {
			tg := consumerOf(c.Recs[i])
			if _, ok := tags[tg]; !ok {
				names = append(names, tg)
			}
			tags[tg] = append(tags[tg], i)
		}
		sort.Strings(names)
		for _, tg := range names {
			for _, i := range tags[tg] {
				ck[i] = common.NormalizeURL(tree, c.Recs[i].U)
			}
		}
		seen = append(seen, idx...)
	}
	m := model{silent: tree.silent, miss: tree.miss, ek: ek, ck: ck}
	m.agg.Endpoints = foldRecords(c.Recs, seen, ek)
	m.agg.Consumers = map[string]sd.EndpointMapping{}
	m.agg.Interceptors = map[common.Interceptor]discovery.InterceptorAgg{}
	byTag := map[string][]int{}
	for _, i := range seen {
		byTag[consumerOf(c.Recs[i])] = append(byTag[consumerOf(c.Recs[i])], i)
		ic := interceptorOf(c.Recs[i])
		if cur, ok := m.agg.Interceptors[ic]; !ok || c.Recs[i].T > cur.Timestamp {
			m.agg.Interceptors[ic] = discovery.InterceptorAgg{Timestamp: c.Recs[i].T}
		}
	}
	for tg, idx := range byTag {
		m.agg.Consumers[tg] = foldRecords(c.Recs, idx, ck)
	}
	return m, nil
}

func sortedKeys(a map[sd.Endpoint]sd.EndpointAgg) []sd.Endpoint {
	out := make([]sd.Endpoint, 0, len(a))
	for k := range a {
		out = append(out, k)
	}
	sort.Slice(out, func(i, j int) bool { return out[i].Method+" "+out[i].URL < out[j].Method+" "+out[j].URL })
	return out
}

// isSilentConvergence (C15-F1): the URL tree converged inside NormalizeURL — whose
// Insert drops the convergence indication — so ConvergeAggregation was never
// told to re-key; isMergedConstantBesideParameter (C15-F2): no such event, the
// runs differ although every convergence was reported. In both cases the
// implementation must agree exactly with the as-implemented attribution model
// for each of the two batchings and the results must be the same up to
// redistribution between overlapping keys.
func classifyBatchDependence(c kase, cutsX, cutsY []int, x, y discovery.Agg, ix, iy runInfo) string {
	if isSilentConvergence(ix, iy) {
		// From that moment the result also depends on Go's map iteration order
		// (re-keying and the per-consumer pass walk maps while inserting into the
		// tree), so no deterministic model can reproduce it; the spy's direct
		// observation of the unreported convergence is the predicate. Conservation
		// is checked unconditionally and is not waived.
		return "C15-F1"
	}
	if isLostTerminal(ix, iy) {
		return "C15-F3"
	}
	mx, err := modelRun(c, cutsX)
	if err != nil {
		return ""
	}
	my, err := modelRun(c, cutsY)
	if err != nil {
		return ""
	}
	if mx.miss+my.miss > 0 {
		// the same tree operations hit a valueless terminal in the model's own
		// tree instance: which sibling's value survives a merge is decided by
		// map iteration order, so this case is subject to F3 as well
		return "C15-F3"
	}
	if mx.silent+my.silent > 0 || diffAgg(x, mx.agg, false) != "" || diffAgg(y, my.agg, false) != "" {
		return ""
	}
	// structural predicate: a re-keying took place, and every record the two
	// batchings file differently is filed under keys that both cover its URL
	if ix.rekeys+iy.rekeys == 0 {
		return ""
	}
	moved := 0
	for i, r := range c.Recs {
		if r.In {
			continue
		}
		for _, pair := range [][2]string{{mx.ek[i], my.ek[i]}, {mx.ck[i], my.ck[i]}} {
			if pair[0] == pair[1] {
				continue
			}
			moved++
			rp := parts(r.U)
			if !covers(parts(pair[0]), rp) || !covers(parts(pair[1]), rp) {
				return ""
			}
		}
	}
	if moved == 0 {
		return ""
	}
	return "C15-F2"
}

func isSilentConvergence(ix, iy runInfo) bool {
	return ix.silent+iy.silent > 0 && ix.unseen+iy.unseen == 0
}

// isLostTerminal (C15-F3): a URL that had just been inserted (or a stored key
// whose re-insertion failed on a parameter-name mismatch) was not found by
// Lookup, because convergeNodesPaths gives the merged node the value of
// whichever sibling comes first in map order — possibly none. NormalizeURL then
// returns the URL unchanged (or the wildcard), the key is not re-keyed, and the
// outcome differs from run to run.
func isLostTerminal(ix, iy runInfo) bool { return ix.miss+iy.miss > 0 }

// ---- the property -----------------------------------------------------------

type attributed struct {
	id  string // known-finding id the classifier attributes the failure to
	msg string
}

type outcome struct {
	single, partA, partB       discovery.Agg
	info1, infoA, infoB, infoS runInfo
	stateful                   *discovery.Agg
	restarted                  bool
	attributed                 []attributed // failures a classifier attributes to a finding
	violation                  error        // failure no classifier explains
	outside                    error        // case outside the domain (tree refuses the known endpoints)
}

// evaluate runs the case four ways and applies the oracles.
func evaluate(c kase, dir string) (o outcome) {
	prevLocal := time.Local
	time.Local = time.FixedZone(fmt.Sprintf("UTC%+dm", c.ZoneMin), c.ZoneMin*60)
	defer func() { time.Local = prevLocal }()
	if _, err := buildTree(c); err != nil {
		o.outside = err
		return
	}
	var err error
	if o.single, o.info1, err = runPure(c, nil); err != nil {
		o.outside = err
		return
	}
	if o.partA, o.infoA, err = runPure(c, c.CutsA); err != nil {
		o.outside = err
		return
	}
	if o.partB, o.infoB, err = runPure(c, c.CutsB); err != nil {
		o.outside = err
		return
	}
	runs := []struct {
		name string
		cuts []int
		a    discovery.Agg
		info runInfo
	}{{"single batch", nil, o.single, o.info1}, {fmt.Sprintf("batches cut at %v", c.CutsA), c.CutsA, o.partA, o.infoA}, {fmt.Sprintf("batches cut at %v", c.CutsB), c.CutsB, o.partB, o.infoB}}
	// (0) no batch may be refused: its records would be missing from the statistics
	rejectedSeen := false
	for _, x := range runs {
		if len(x.info.rejected) == 0 {
			continue
		}
		rejectedSeen = true
		if !o.noteRejection(c, x.name, x.info) {
			return
		}
	}
	// (1) conservation, every run (after a refusal attributed to C15-F4: of the records outside the refused batches)
	for _, x := range runs {
		if e := conservation(x.name, x.a, survivors(c.Recs, len(c.Recs), x.info.rejected), false); e != nil {
			o.violation = e
			return
		}
	}
	// (2) batch invariance of the final statistics
	for _, x := range runs[1:] {
		if len(o.info1.rejected)+len(x.info.rejected) > 0 {
			continue // different batches were refused: already reported under (0)
		}
		d := diffAgg(o.single, x.a, false)
		if d == "" {
			continue
		}
		msg := fmt.Sprintf("final statistics depend on the batch boundaries (single batch vs cuts %v): %s", x.cuts, d)
		if id := classifyBatchDependence(c, nil, x.cuts, o.single, x.a, o.info1, x.info); id != "" {
			o.attributed = append(o.attributed, attributed{id, msg})
			continue
		}
		o.violation = fmt.Errorf("%s", msg)
		return
	}
	// (3) persistence round trip of the conversion functions
	if d := roundTrip(o.single); d != "" {
		o.violation = fmt.Errorf("%s", d)
		return
	}
	// (4) the real Run with a state file, optionally restarting between batches
	for _, f := range c.Restart {
		o.restarted = o.restarted || f
	}
	var violation error
	o.stateful, o.infoS, err = runStateful(c, c.CutsB, c.Restart, dir, func(a *discovery.Agg, upto int, rejected [][2]int, when string) error {
		if e := conservation(when, *a, survivors(c.Recs, upto, rejected), true); e != nil && violation == nil {
			violation = e
		}
		return nil
	})
	var lost *lostState
	if errors.As(err, &lost) {
		o.violation = fmt.Errorf("Run with a state file (cuts %v, restarts %v): %s - everything discovered so far is gone", c.CutsB, c.Restart, lost.msg)
		return
	}
	if err != nil {
		o.violation = fmt.Errorf("VERIF-INFRA: stateful run could not be driven: %v", err)
		return
	}
	if len(o.infoS.rejected) > 0 && !rejectedSeen {
		if !o.noteRejection(c, "Run with state file", o.infoS) {
			return
		}
	}
	if violation != nil {
		o.violation = violation
		return
	}
	if o.infoS.resets == 0 {
		// same batches, same tree history: the file must show the same statistics
		if d := diffAgg(o.partB, *o.stateful, true); d != "" {
			msg := fmt.Sprintf("state file written by Run differs from the statistics computed for the same batches: %s", d)
			if isSilentConvergence(o.infoB, o.infoS) {
				o.attributed = append(o.attributed, attributed{"C15-F1", msg})
			} else if isLostTerminal(o.infoB, o.infoS) {
				o.attributed = append(o.attributed, attributed{"C15-F3", msg})
			} else {
				o.violation = fmt.Errorf("%s", msg)
			}
		}
	}
	return
}

// isRejectedForEmptySegment (C15-F4): every refused batch contains a non-internal
// record whose URL has an empty segment. The defect model — exactly the records
// of the refused batches are missing, everything else is conserved — is what the
// conservation oracle is then run against.
func isRejectedForEmptySegment(c kase, info runInfo) bool {
	for _, b := range info.rejected {
		found := false
		for i := b[0]; i < b[1]; i++ {
			found = found || (!c.Recs[i].In && hasEmptySegment(c.Recs[i].U))
		}
		if !found {
			return false
		}
	}
	return len(info.rejected) > 0
}

func (o *outcome) noteRejection(c kase, name string, info runInfo) bool {
	lost := 0
	for _, b := range info.rejected {
		for i := b[0]; i < b[1]; i++ {
			if !c.Recs[i].In {
				lost++
			}
		}
	}
	msg := fmt.Sprintf("%s: %d batch(es) refused, %d records missing from the statistics: %v", name, len(info.rejected), lost, info.rejectErr)
	if isRejectedForEmptySegment(c, info) {
		o.attributed = append(o.attributed, attributed{"C15-F4", msg})
		return true
	}
	o.violation = fmt.Errorf("%s", msg)
	return false
}

func scratchDir(t testing.TB) string {
	base := os.Getenv("VERIF_SCRATCH")
	if base == "" {
		base = os.TempDir()
	}
	d, err := os.MkdirTemp(base, "c15-")
	if err != nil {
		t.Fatalf("VERIF-INFRA: cannot create scratch dir: %v", err)
	}
	t.Cleanup(func() { os.RemoveAll(d) })
	return d
}

func classify(r *ev.Recorder, c kase, o outcome) {
	r.Class(fmt.Sprintf("threshold=%d", c.Threshold))
	r.Class("records=" + bucket(len(c.Recs), 5, 20, 60, 120))
	r.Class("batchesA=" + bucket(o.infoA.batches, 1, 3))
	as, de := paramDepth(o.single)
	r.Class(fmt.Sprintf("assumed-param-depth=%d", min(as, 3)))
	if de > 0 {
		r.Class("declared-param-key")
	}
	if len(c.Known) > 0 {
		r.Class("known-endpoints")
	}
	if o.infoA.rekeys+o.infoB.rekeys > 0 {
		r.Class("rekey-after-convergence")
	}
	if o.infoA.rekeys+o.infoB.rekeys > 1 {
		r.Class("rekey-twice-or-more")
	}
	if o.infoS.restarts > 0 {
		r.Class("restart-with-state")
	}
	if o.restarted && as > 0 {
		r.Class("restart-and-convergence")
	}
	if o.info1.silent+o.infoA.silent+o.infoB.silent > 0 {
		r.Class("silent-convergence")
	}
	if o.infoS.silent > 0 && o.infoS.restarts > 0 {
		r.Class("silent-convergence-in-restarted-run")
	}
	if c.Threshold == productionThreshold {
		r.Class(fmt.Sprintf("threshold=50:assumed-param-depth=%d", min(as, 3)))
		if o.infoA.rekeys+o.infoB.rekeys > 0 {
			r.Class("threshold=50:rekey-after-convergence")
		}
	}
	if o.info1.miss+o.infoA.miss+o.infoB.miss > 0 {
		r.Class("lookup-miss-after-insert")
	}
	if len(o.info1.rejected) > 0 {
		r.Class("url-with-empty-segment")
	}
	for _, a := range o.attributed {
		r.Class("attributed-" + a.id)
	}
}

func nonTrivial(o outcome) bool {
	return o.infoA.rekeys+o.infoB.rekeys > 0 || o.infoS.restarts > 0
}

// judge turns an outcome into pass / known finding / failure.
func judge(t interface{ Fatalf(string, ...any) }, r *ev.Recorder, c kase, o outcome) {
	for _, a := range o.attributed {
		if !r.KnownFinding(a.id, func() any { return c }) {
			t.Fatalf("%s", r.Fail(c, "%s [classifier: %s, not listed as a known finding]", a.msg, a.id))
		}
	}
	if o.violation != nil {
		t.Fatalf("%s", r.Fail(c, "%v", o.violation))
	}
}

func TestBatchInvariance(t *testing.T)               { property(t, smallTrees) }
func TestBatchInvarianceProductionTree(t *testing.T) { property(t, productionTrees) }

func property(t *testing.T, g genOpts) {
	if p := os.Getenv("VERIF_REPLAY"); p != "" && !strings.HasSuffix(p, ".fail") {
		replay(t, p)
		return
	}
	r := ev.New(t, "C15")
	dir := scratchDir(t)
	rapid.Check(t, func(t *rapid.T) {
		c := genCase(t, g)
		o := evaluate(c, dir)
		if o.outside != nil {
			t.Skipf("outside domain: %v", o.outside)
		}
		level := loglevel.Gen().Draw(t, "log level")
		r.Class("log level " + level)
		defer loglevel.Set(level)()
		r.Case()
		classify(r, c, o)
		if nonTrivial(o) {
			r.NonTrivial(ev.JSON(c), func() any { return c })
		}
		judge(t, r, c, o)
	})
}

// TestReplay re-evaluates one case from a JSON file ($VERIF_REPLAY: either a
// replay file written by ./check, or a bare case) and prints what every run
// produced. Without the variable it does nothing.
func TestReplay(t *testing.T) {
	path := os.Getenv("VERIF_REPLAY")
	if path == "" {
		t.Skip("VERIF_REPLAY not set")
	}
	replay(t, path)
}

func replay(t *testing.T, path string) {
	b, err := os.ReadFile(path)
	if err != nil {
		t.Fatalf("VERIF-INFRA: %v", err)
	}
	var wrapped struct {
		Failure *struct {
			Case *kase `json:"case"`
		} `json:"failure"`
	}
	var c kase
	if json.Unmarshal(b, &wrapped) == nil && wrapped.Failure != nil && wrapped.Failure.Case != nil {
		c = *wrapped.Failure.Case
	} else if err := json.Unmarshal(b, &c); err != nil {
		t.Fatalf("VERIF-INFRA: %s is neither a replay file nor a case: %v", path, err)
	}
	r := ev.New(t, "C15")
	r.Case()
	o := evaluate(c, scratchDir(t))
	dump := func(name string, a discovery.Agg, i runInfo) {
		t.Logf("%s: batches=%d rekeys=%d loud=%d silent=%d unseen=%d miss=%d", name, i.batches, i.rekeys, i.loud, i.silent, i.unseen, i.miss)
		for _, k := range sortedKeys(a.Endpoints) {
			t.Logf("    %-6s %-50s %+v", k.Method, k.URL, a.Endpoints[k])
		}
	}
	dump("single", o.single, o.info1)
	dump(fmt.Sprintf("cutsA %v", c.CutsA), o.partA, o.infoA)
	dump(fmt.Sprintf("cutsB %v", c.CutsB), o.partB, o.infoB)
	if o.stateful != nil {
		dump(fmt.Sprintf("stateful cutsB %v restart %v", c.CutsB, c.Restart), *o.stateful, o.infoS)
	}
	if m, err := modelRun(c, c.CutsA); err == nil {
		dump("model cutsA", m.agg, runInfo{silent: m.silent})
	}
	for _, a := range o.attributed {
		t.Logf("attributed to %s: %s", a.id, a.msg)
	}
	judge(t, r, c, o)
}

// ---- witnesses of the known findings ---------------------------------------

func get(url string, i int) rec {
	return rec{M: "GET", U: url, S: 200, D: 10 + i, TD: 12 + i, T: 1_700_000_000_000 + int64(i)*1500, I: "lunar-aiohttp-interceptor/2.0.2"}
}

func witnessCase(threshold int, cut int, urls []string) kase {
	c := kase{Threshold: threshold, CutsA: []int{cut}, CutsB: []int{}}
	for i, u := range urls {
		c.Recs = append(c.Recs, get(u, i))
	}
	return c
}

// C15-F1. t/1/u converges to a parameter, t/2/u keeps `threshold` constants, then
// t itself converges: the merged u node holds >= threshold constants next to a
// parameter child, so merely re-inserting t/1/u/1 (NormalizeURL does that) makes
// the tree converge again — unreported.
func witnessF1(threshold int) kase {
	urls := []string{}
	for i := 1; i <= threshold+1; i++ {
		urls = append(urls, fmt.Sprintf("t.io/t/1/u/%d", i))
	}
	for i := 1; i <= threshold; i++ {
		urls = append(urls, fmt.Sprintf("t.io/t/2/u/a%d", i))
	}
	for i := 3; i <= threshold; i++ {
		urls = append(urls, fmt.Sprintf("t.io/t/%d/x", i))
	}
	urls = append(urls, fmt.Sprintf("t.io/t/%d/x", threshold+1))
	return witnessCase(threshold, len(urls)-1, urls)
}

// C15-F2. users/0/orders converges to a parameter (orders 0,1,2 are filed under
// it), users/2/orders/0 stays constant, then users converges: the merged orders
// node has the constant child 0 next to the parameter child. A single batch files
// users/0/orders/0 under .../orders/0, two batches leave it under .../orders/{_param_2}.
func witnessF2(threshold int) kase {
	urls := []string{}
	for k := 1; k < threshold; k++ {
		urls = append(urls, fmt.Sprintf("api.com/users/%d/orders/0", k))
	}
	for j := 0; j <= threshold; j++ {
		urls = append(urls, fmt.Sprintf("api.com/users/0/orders/%d", j))
	}
	urls = append(urls, "api.com/users/me")
	return witnessCase(threshold, len(urls)-1, urls)
}

func runWitness(t *testing.T, id string, cases ...kase) {
	r := ev.New(t, "C15")
	dir := scratchDir(t)
	for _, c := range cases {
		r.Case()
		o := evaluate(c, dir)
		if o.outside != nil {
			t.Fatalf("VERIF-INFRA: witness outside the domain: %v", o.outside)
		}
		classify(r, c, o)
		present := false
		for _, a := range o.attributed {
			present = present || a.id == id
			t.Logf("threshold %d: %s present: %s", c.Threshold, a.id, a.msg)
		}
		if present {
			r.NonTrivial(ev.JSON(c), func() any {
				urls := []string{}
				for _, x := range c.Recs {
					urls = append(urls, x.U)
				}
				return map[string]any{"threshold": c.Threshold, "cut": c.CutsA, "urls": urls}
			})
		} else if o.violation == nil {
			t.Logf("threshold %d: %s is absent on this tree (batch-invariant)", c.Threshold, id)
		}
		judge(t, r, c, o) // fails iff the defect is present but not listed, or anything else is wrong
	}
}

func TestWitnessF1SilentConvergence(t *testing.T) {
	runWitness(t, "C15-F1", witnessF1(2), witnessF1(productionThreshold))
}

func TestWitnessF2ConstantBesideParameter(t *testing.T) {
	runWitness(t, "C15-F2", witnessF2(2), witnessF2(productionThreshold))
}

// C15-F3. users/{id} (terminal, has a value) and v1/{p1} (inner node, no value)
// are merged when api.com converges; the merged node keeps the value of the
// sibling that happens to come first in map order. Re-keying the stored key
// api.com/users/{id} cannot re-insert it (name mismatch with {_param_2}) and
// Lookup misses it in about every second run, so the witness is repeated.
func witnessF3() kase {
	c := witnessCase(2, 1, []string{"api.com/users/0", "api.com/orders"})
	c.Known = []string{"api.com/users/{id}", "api.com/v1/{p1}/items"}
	return c
}

func TestWitnessF3LostTerminalValue(t *testing.T) {
	cases := []kase{}
	for i := 0; i < 200; i++ {
		cases = append(cases, witnessF3())
	}
	runWitness(t, "C15-F3", cases...)
}

// C15-F4. A doubled slash in one URL: the whole batch is refused.
func TestWitnessF4BatchRefused(t *testing.T) {
	runWitness(t, "C15-F4", witnessCase(2, 1, []string{"api.com/users/0", "api.com/users//1", "api.com/users/2"}))
}

// TestRegressionFixedDefects: cases that failed on the pinned tree before a fix: commit.
func TestRegressionFixedDefects(t *testing.T) {
	r := ev.New(t, "C15")
	cases := []kase{
		// a path segment that contains the delimiter of the persisted keys: the URL came back cut (a405742)
		witnessCase(productionThreshold, 1, []string{"api.com/users/arn:aws:s3:::logs"}),
		witnessCase(productionThreshold, 2, []string{"api.com/users/0", "api.com/users/arn:aws:s3:::logs", "api.com/users/arn:aws:s3:::logs", "api.com/users/1"}),
	}
	for _, c := range cases {
		c.CutsB = []int{1}
		r.Case()
		cc := c
		r.NonTrivial(ev.JSON(cc), func() any { return cc })
		o := evaluate(c, t.TempDir())
		judge(t, r, c, o)
	}
}
