// C15 — discovery statistics are independent of batching and lose no traffic.
//
// The harness drives the exported functions of the aggregation output plugin in
// the order runner.go / main.go use them:
//
//	common.BuildTree(knownEndpoints, maxSplitThreshold)         (FLBPluginInit)
//	discovery.State{DiscoverFilepath}.InitializeState()         (FLBPluginInit)
//	discovery.Run(state, records, tree)                         (FLBPluginFlushCtx)
//	   = filter internal → GetUpdatedAggregations (ConvergeAggregation →
//	     ExtractAggs → CombineAggregation) → State.UpdateAggregation (JSON file)
//
// and, for exact (millisecond) observation, discovery.GetUpdatedAggregations
// directly (State keeps its aggregation unexported; the only other observation
// point is the JSON state file, whose time stamps have one-second resolution).
// DecodeRecords (msgpack from fluent-bit via cgo pointers) is not driven.
package c15

import (
	"encoding/json"
	"fmt"
	"math"
	"os"
	"path/filepath"
	"sort"
	"strings"
	"testing"

	"lunar/aggregation-plugin/common"
	"lunar/aggregation-plugin/discovery"
	sd "lunar/shared-model/discovery"
	"lunar/toolkit-core/urltree"

	"github.com/rs/zerolog"
	"pgregory.net/rapid"

	"verif/harness/internal/ev"
)

func init() { zerolog.SetGlobalLevel(zerolog.Disabled) }

// productionThreshold is urlTreeMaxSplitThreshold of aggregation-output-plugin/main.go.
const productionThreshold = 50

// ---- case description -------------------------------------------------------

type rec struct {
	M  string `json:"m"`
	U  string `json:"u"`
	S  int    `json:"s"`
	D  int    `json:"d"`
	TD int    `json:"td"`
	T  int64  `json:"t"`
	C  string `json:"c,omitempty"`
	I  string `json:"i,omitempty"`
	In bool   `json:"internal,omitempty"`
}

type kase struct {
	Threshold int      `json:"threshold"`
	Known     []string `json:"known,omitempty"`
	Recs      []rec    `json:"recs"`
	CutsA     []int    `json:"cutsA"`
	CutsB     []int    `json:"cutsB"`
	Restart   []bool   `json:"restart,omitempty"` // one flag per boundary of CutsB (stateful run)
}

func (r rec) accessLog(i int) common.AccessLog {
	return common.AccessLog{
		Timestamp: r.T, Duration: r.D, TotalDuration: r.TD, StatusCode: r.S, Method: r.M,
		URL: r.U, Interceptor: r.I, ConsumerTag: r.C, Internal: r.In, RequestID: fmt.Sprintf("r%d", i),
	}
}

func batches(n int, cuts []int) [][2]int {
	out := [][2]int{}
	prev := 0
	for _, c := range cuts {
		out = append(out, [2]int{prev, c})
		prev = c
	}
	return append(out, [2]int{prev, n})
}

func buildTree(c kase) (*spyTree, error) {
	ke := sd.KnownEndpoints{}
	for _, u := range c.Known {
		ke.Endpoints = append(ke.Endpoints, sd.Endpoint{Method: "GET", URL: u})
	}
	tr, err := common.BuildTree(ke, c.Threshold)
	if err != nil {
		return nil, err
	}
	return &spyTree{inner: tr}, nil
}

// ---- drivers ----------------------------------------------------------------

// spyTree forwards every call to the real URL tree unchanged and notes when the
// tree converged inside a plain Insert — the call NormalizeURL makes — whose
// convergence indication the callers cannot see.
type spyTree struct {
	inner  *common.SimpleURLTree
	silent int // convergences that happened inside Insert (indication discarded)
	loud   int // convergences reported through InsertWithConvergenceIndication
}

func (s *spyTree) Insert(url string, v *common.EmptyStruct) error {
	conv, err := s.inner.InsertWithConvergenceIndication(url, v) // = URLTree.Insert, keeping the flag
	if conv {
		s.silent++
	}
	return err
}

func (s *spyTree) InsertDeclaredURL(url string, v *common.EmptyStruct) error {
	return s.inner.InsertDeclaredURL(url, v)
}

func (s *spyTree) InsertWithConvergenceIndication(url string, v *common.EmptyStruct) (bool, error) {
	conv, err := s.inner.InsertWithConvergenceIndication(url, v)
	if conv {
		s.loud++
	}
	return conv, err
}

func (s *spyTree) Lookup(url string) urltree.LookupResult[common.EmptyStruct] {
	return s.inner.Lookup(url)
}

type runInfo struct {
	batches  int // non-empty batches processed
	rekeys   int // batches after which a previously existing endpoint key had disappeared (re-keying)
	restarts int // restarts performed while the state was non-empty
	silent   int // convergences of the tree inside NormalizeURL (not reported to ConvergeAggregation)
	loud     int // convergences reported to ConvergeAggregation
}

// runPure applies GetUpdatedAggregations batch by batch (what Run does between
// filtering and persisting) and returns the final aggregate at full resolution.
func runPure(c kase, cuts []int) (discovery.Agg, runInfo, error) {
	info := runInfo{}
	tree, err := buildTree(c)
	if err != nil {
		return discovery.Agg{}, info, err
	}
	agg := discovery.Agg{ // as State.InitializeState creates it
		Endpoints:    map[sd.Endpoint]sd.EndpointAgg{},
		Interceptors: map[common.Interceptor]discovery.InterceptorAgg{},
	}
	for _, b := range batches(len(c.Recs), cuts) {
		if b[0] == b[1] {
			continue // Run returns before touching anything
		}
		logs := []discovery.AccessLog{}
		for i := b[0]; i < b[1]; i++ {
			if !c.Recs[i].In {
				logs = append(logs, discovery.AccessLog(c.Recs[i].accessLog(i)))
			}
		}
		prev := make([]sd.Endpoint, 0, len(agg.Endpoints))
		for k := range agg.Endpoints {
			prev = append(prev, k)
		}
		agg, err = discovery.GetUpdatedAggregations(agg, logs, tree)
		if err != nil {
			return agg, info, fmt.Errorf("GetUpdatedAggregations(batch %v): %w", b, err)
		}
		info.batches++
		for _, k := range prev {
			if _, ok := agg.Endpoints[k]; !ok {
				info.rekeys++
				break
			}
		}
	}
	info.silent, info.loud = tree.silent, tree.loud
	return agg, info, nil
}

func readState(path string) (*discovery.Agg, error) {
	b, err := os.ReadFile(path)
	if err != nil {
		return nil, err
	}
	out := sd.Output{}
	if err := json.Unmarshal(b, &out); err != nil {
		return nil, fmt.Errorf("state file is not valid JSON: %w", err)
	}
	return discovery.ConvertFromPersisted(out), nil
}

// runStateful drives discovery.Run with a real state file; at the flagged batch
// boundaries the plugin "restarts": a fresh State reads the file and the URL tree
// is rebuilt from the known endpoints only, exactly as FLBPluginInit does.
// check is called with the persisted aggregate and the prefix length at every
// restart and at the end.
func runStateful(c kase, cuts []int, restart []bool, dir string, check func(a *discovery.Agg, upto int, when string) error) (*discovery.Agg, runInfo, error) {
	info := runInfo{}
	path := filepath.Join(dir, "discovery-state.json")
	_ = os.Remove(path)
	defer os.Remove(path)
	st := &discovery.State{DiscoverFilepath: path}
	if err := st.InitializeState(); err != nil {
		return nil, info, fmt.Errorf("InitializeState: %w", err)
	}
	tree, err := buildTree(c)
	if err != nil {
		return nil, info, err
	}
	for bi, b := range batches(len(c.Recs), cuts) {
		if bi > 0 && bi-1 < len(restart) && restart[bi-1] {
			persisted, err := readState(path)
			if err != nil {
				return nil, info, err
			}
			if err := check(persisted, b[0], fmt.Sprintf("state file before restart at record %d", b[0])); err != nil {
				return nil, info, err
			}
			if len(persisted.Endpoints) > 0 {
				info.restarts++
			}
			st = &discovery.State{DiscoverFilepath: path}
			if err := st.InitializeState(); err != nil {
				return nil, info, fmt.Errorf("InitializeState after restart: %w", err)
			}
			info.silent, info.loud = info.silent+tree.silent, info.loud+tree.loud
			if tree, err = buildTree(c); err != nil {
				return nil, info, err
			}
		}
		logs := make([]common.AccessLog, 0, b[1]-b[0])
		for i := b[0]; i < b[1]; i++ {
			logs = append(logs, c.Recs[i].accessLog(i))
		}
		if err := discovery.Run(st, logs, tree); err != nil {
			return nil, info, fmt.Errorf("Run(batch %v): %w", b, err)
		}
		if len(logs) > 0 {
			info.batches++
		}
	}
	info.silent, info.loud = info.silent+tree.silent, info.loud+tree.loud
	final, err := readState(path)
	if err != nil {
		return nil, info, err
	}
	return final, info, check(final, len(c.Recs), "final state file")
}

// ---- oracle: independent fold over the raw records --------------------------

type part struct {
	host bool
	val  string
}

// parts splits a URL the way the statement's "endpoint" is structured: host
// labels, then path segments; leading/trailing separators are immaterial.
func parts(u string) []part {
	u = strings.Trim(u, "./")
	sp := strings.Split(u, "/")
	out := []part{}
	for _, h := range strings.Split(sp[0], ".") {
		out = append(out, part{true, h})
	}
	for _, p := range sp[1:] {
		out = append(out, part{false, p})
	}
	return out
}

func isParam(s string) bool { return strings.HasPrefix(s, "{") && strings.HasSuffix(s, "}") }

// covers: the record URL r may be attributed to endpoint key k — k equals r
// segment by segment, a `{name}` segment standing for any value (and a final
// `*` for any remainder). This is deliberately the weakest reading of
// "attributed": every key the normaliser can legitimately produce covers the
// raw URL, whatever the tree had learnt at that moment.
func covers(k, r []part) bool {
	for i, kp := range k {
		if kp.val == "*" && i == len(k)-1 {
			return true
		}
		if i >= len(r) || kp.host != r[i].host {
			return false
		}
		if kp.val != r[i].val && !isParam(kp.val) {
			return false
		}
	}
	return len(k) == len(r)
}

func floorSec(t int64) int64 { return t - ((t%1000)+1000)%1000 }

func closeTo(got float32, want float64) bool {
	return math.Abs(float64(got)-want) <= 1e-4*math.Abs(want)+1e-3
}

// checkMapping checks one endpoint→statistics mapping against the raw records
// that must be accounted for in it. secRes: time stamps are compared at
// one-second resolution (the state went through the JSON file).
func checkMapping(label string, m map[sd.Endpoint]sd.EndpointAgg, recs []rec, secRes bool) error {
	norm := func(t int64) int64 {
		if secRes {
			return floorSec(t)
		}
		return t
	}
	total := 0
	keys := make([]sd.Endpoint, 0, len(m))
	for k := range m {
		keys = append(keys, k)
	}
	sort.Slice(keys, func(i, j int) bool {
		if keys[i].Method != keys[j].Method {
			return keys[i].Method < keys[j].Method
		}
		return keys[i].URL < keys[j].URL
	})
	var sumD, sumTD float64
	for _, k := range keys {
		a := m[k]
		total += int(a.Count)
		sc := 0
		for s, n := range a.StatusCodes {
			if n < 0 {
				return fmt.Errorf("%s: %v has negative count for status %d", label, k, s)
			}
			sc += int(n)
		}
		if sc != int(a.Count) {
			return fmt.Errorf("%s: endpoint %v has count %d but its status counts sum to %d (%v)", label, k, a.Count, sc, a.StatusCodes)
		}
		sumD += float64(a.AverageDuration) * float64(a.Count)
		sumTD += float64(a.AverageTotalDuration) * float64(a.Count)
	}
	if total != len(recs) {
		return fmt.Errorf("%s: endpoint counts sum to %d, but %d records were processed", label, total, len(recs))
	}
	// totals that no attribution can change
	wantStatus := map[int]int{}
	wantMethod := map[string]int{}
	var wantD, wantTD float64
	for _, r := range recs {
		wantStatus[r.S]++
		wantMethod[r.M]++
		wantD += float64(r.D)
		wantTD += float64(r.TD)
	}
	gotStatus := map[int]int{}
	gotMethod := map[string]int{}
	for _, k := range keys {
		gotMethod[k.Method] += int(m[k].Count)
		for s, n := range m[k].StatusCodes {
			gotStatus[s] += int(n)
		}
	}
	for s, n := range wantStatus {
		if gotStatus[s] != n {
			return fmt.Errorf("%s: status %d counted %d times over all endpoints, %d records had it", label, s, gotStatus[s], n)
		}
	}
	for mth, n := range wantMethod {
		if gotMethod[mth] != n {
			return fmt.Errorf("%s: method %s counted %d times over all endpoints, %d records had it", label, mth, gotMethod[mth], n)
		}
	}
	if len(recs) > 0 {
		n := float64(len(recs))
		if !closeTo(float32(sumD/n), wantD/n) || !closeTo(float32(sumTD/n), wantTD/n) {
			return fmt.Errorf("%s: count-weighted mean of the endpoint averages is %.4f / %.4f, the true overall means are %.4f / %.4f", label, sumD/n, sumTD/n, wantD/n, wantTD/n)
		}
	}
	// attribution
	kparts := make([][]part, len(keys))
	for i, k := range keys {
		kparts[i] = parts(k.URL)
	}
	type set struct {
		all, uniq []int
	}
	sets := make([]set, len(keys))
	for ri, r := range recs {
		rp := parts(r.U)
		cov := []int{}
		for ki, k := range keys {
			if k.Method == r.M && (k.URL == r.U || covers(kparts[ki], rp)) {
				cov = append(cov, ki)
			}
		}
		if len(cov) == 0 {
			return fmt.Errorf("%s: record #%d %s %s is attributed to no endpoint", label, ri, r.M, r.U)
		}
		for _, ki := range cov {
			sets[ki].all = append(sets[ki].all, ri)
			if len(cov) == 1 {
				sets[ki].uniq = append(sets[ki].uniq, ri)
			}
		}
	}
	for ki, k := range keys {
		a := m[k]
		all, uniq := sets[ki].all, sets[ki].uniq
		if int(a.Count) < len(uniq) || int(a.Count) > len(all) {
			return fmt.Errorf("%s: endpoint %v has count %d; %d records can only belong to it, %d can belong to it at all", label, k, a.Count, len(uniq), len(all))
		}
		if a.Count == 0 {
			continue
		}
		stAll, stUniq := map[int]int{}, map[int]int{}
		times := map[int64]bool{}
		var minAll, maxAll int64 = math.MaxInt64, math.MinInt64
		dLo, dHi, tdLo, tdHi := math.MaxFloat64, -math.MaxFloat64, math.MaxFloat64, -math.MaxFloat64
		for _, ri := range all {
			r := recs[ri]
			stAll[r.S]++
			times[norm(r.T)] = true
			minAll, maxAll = min(minAll, norm(r.T)), max(maxAll, norm(r.T))
			dLo, dHi = math.Min(dLo, float64(r.D)), math.Max(dHi, float64(r.D))
			tdLo, tdHi = math.Min(tdLo, float64(r.TD)), math.Max(tdHi, float64(r.TD))
		}
		var minU, maxU int64 = math.MaxInt64, math.MinInt64
		var sD, sTD float64
		for _, ri := range uniq {
			r := recs[ri]
			stUniq[r.S]++
			minU, maxU = min(minU, norm(r.T)), max(maxU, norm(r.T))
			sD += float64(r.D)
			sTD += float64(r.TD)
		}
		for s, n := range a.StatusCodes {
			if int(n) > stAll[s] || int(n) < stUniq[s] {
				return fmt.Errorf("%s: endpoint %v counts status %d %d times; attributable records have it between %d and %d times", label, k, s, n, stUniq[s], stAll[s])
			}
		}
		for s, n := range stUniq {
			if int(a.StatusCodes[s]) < n {
				return fmt.Errorf("%s: endpoint %v counts status %d %d times but %d records with it can only belong to it", label, k, s, a.StatusCodes[s], n)
			}
		}
		gotMin, gotMax := norm(a.MinTime), norm(a.MaxTime)
		if !times[gotMin] || !times[gotMax] {
			return fmt.Errorf("%s: endpoint %v has min/max time %d/%d which is not the time stamp of any record attributable to it", label, k, a.MinTime, a.MaxTime)
		}
		if gotMin > gotMax {
			return fmt.Errorf("%s: endpoint %v has min time %d > max time %d", label, k, a.MinTime, a.MaxTime)
		}
		if len(uniq) > 0 && (gotMin > minU || gotMax < maxU) {
			return fmt.Errorf("%s: endpoint %v has min/max time %d/%d but records that can only belong to it span %d..%d", label, k, a.MinTime, a.MaxTime, minU, maxU)
		}
		if len(uniq) == len(all) {
			// unambiguous attribution: everything is determined
			if gotMin != minAll || gotMax != maxAll {
				return fmt.Errorf("%s: endpoint %v has min/max time %d/%d, its records span %d..%d", label, k, a.MinTime, a.MaxTime, minAll, maxAll)
			}
			n := float64(len(all))
			if !closeTo(a.AverageDuration, sD/n) || !closeTo(a.AverageTotalDuration, sTD/n) {
				return fmt.Errorf("%s: endpoint %v has average durations %v/%v, the true means of its %d records are %.4f/%.4f", label, k, a.AverageDuration, a.AverageTotalDuration, len(all), sD/n, sTD/n)
			}
		} else {
			lo := func(x float64) float64 { return x - 1e-4*math.Abs(x) - 1e-3 }
			hi := func(x float64) float64 { return x + 1e-4*math.Abs(x) + 1e-3 }
			if d := float64(a.AverageDuration); d < lo(dLo) || d > hi(dHi) {
				return fmt.Errorf("%s: endpoint %v has average duration %v outside the range %v..%v of its attributable records", label, k, a.AverageDuration, dLo, dHi)
			}
			if d := float64(a.AverageTotalDuration); d < lo(tdLo) || d > hi(tdHi) {
				return fmt.Errorf("%s: endpoint %v has average total duration %v outside the range %v..%v of its attributable records", label, k, a.AverageTotalDuration, tdLo, tdHi)
			}
		}
	}
	return nil
}

func consumerOf(r rec) string {
	if r.C == "" {
		return discovery.UnknownConsumerTag
	}
	return r.C
}

// conservation: the aggregate accounts for exactly the non-internal records of recs.
func conservation(label string, a discovery.Agg, recs []rec, secRes bool) error {
	ext := []rec{}
	byConsumer := map[string][]rec{}
	for _, r := range recs {
		if r.In {
			continue
		}
		ext = append(ext, r)
		byConsumer[consumerOf(r)] = append(byConsumer[consumerOf(r)], r)
	}
	if err := checkMapping(label+" endpoints", a.Endpoints, ext, secRes); err != nil {
		return err
	}
	for tag, rs := range byConsumer {
		m, ok := a.Consumers[tag]
		if !ok {
			return fmt.Errorf("%s: consumer %q sent %d records but has no statistics", label, tag, len(rs))
		}
		if err := checkMapping(fmt.Sprintf("%s consumer %q", label, tag), m, rs, secRes); err != nil {
			return err
		}
	}
	for tag, m := range a.Consumers {
		if _, ok := byConsumer[tag]; !ok && len(m) > 0 {
			n := 0
			for _, e := range m {
				n += int(e.Count)
			}
			if n > 0 {
				return fmt.Errorf("%s: consumer %q has %d requests but sent no record", label, tag, n)
			}
		}
	}
	// interceptors: the newest "last transaction" over all interceptors is the newest record
	if len(ext) > 0 {
		var newest, got int64 = math.MinInt64, math.MinInt64
		times := map[int64]bool{}
		for _, r := range ext {
			t := r.T
			if secRes {
				t = floorSec(t)
			}
			newest = max(newest, t)
			times[t] = true
		}
		if len(a.Interceptors) == 0 {
			return fmt.Errorf("%s: records were processed but no interceptor is listed", label)
		}
		for ic, ia := range a.Interceptors {
			t := ia.Timestamp
			if secRes {
				t = floorSec(t)
			}
			if !times[t] {
				return fmt.Errorf("%s: interceptor %v has last-transaction time %d which is no record's time stamp", label, ic, ia.Timestamp)
			}
			got = max(got, t)
		}
		if got != newest {
			return fmt.Errorf("%s: newest interceptor time %d, newest record %d", label, got, newest)
		}
	}
	return nil
}

// ---- oracle: batch invariance -----------------------------------------------

func diffMapping(label string, a, b map[sd.Endpoint]sd.EndpointAgg, secRes bool) string {
	norm := func(t int64) int64 {
		if secRes {
			return floorSec(t)
		}
		return t
	}
	keys := map[sd.Endpoint]bool{}
	for k := range a {
		keys[k] = true
	}
	for k := range b {
		keys[k] = true
	}
	ks := make([]sd.Endpoint, 0, len(keys))
	for k := range keys {
		ks = append(ks, k)
	}
	sort.Slice(ks, func(i, j int) bool { return ks[i].Method+" "+ks[i].URL < ks[j].Method+" "+ks[j].URL })
	for _, k := range ks {
		x, okx := a[k]
		y, oky := b[k]
		if !okx || !oky {
			if (okx && x.Count == 0) || (oky && y.Count == 0) {
				continue
			}
			return fmt.Sprintf("%s: endpoint %v present in one result only (%+v vs %+v)", label, k, x, y)
		}
		if x.Count != y.Count {
			return fmt.Sprintf("%s: endpoint %v count %d vs %d", label, k, x.Count, y.Count)
		}
		for s, n := range x.StatusCodes {
			if y.StatusCodes[s] != n {
				return fmt.Sprintf("%s: endpoint %v status %d count %d vs %d", label, k, s, n, y.StatusCodes[s])
			}
		}
		for s, n := range y.StatusCodes {
			if x.StatusCodes[s] != n {
				return fmt.Sprintf("%s: endpoint %v status %d count %d vs %d", label, k, s, x.StatusCodes[s], n)
			}
		}
		if norm(x.MinTime) != norm(y.MinTime) || norm(x.MaxTime) != norm(y.MaxTime) {
			return fmt.Sprintf("%s: endpoint %v min/max %d/%d vs %d/%d", label, k, x.MinTime, x.MaxTime, y.MinTime, y.MaxTime)
		}
		if !closeTo(x.AverageDuration, float64(y.AverageDuration)) || !closeTo(x.AverageTotalDuration, float64(y.AverageTotalDuration)) {
			return fmt.Sprintf("%s: endpoint %v averages %v/%v vs %v/%v", label, k, x.AverageDuration, x.AverageTotalDuration, y.AverageDuration, y.AverageTotalDuration)
		}
	}
	return ""
}

func diffAgg(a, b discovery.Agg, secRes bool) string {
	if d := diffMapping("endpoints", a.Endpoints, b.Endpoints, secRes); d != "" {
		return d
	}
	tags := map[string]bool{}
	for t := range a.Consumers {
		tags[t] = true
	}
	for t := range b.Consumers {
		tags[t] = true
	}
	ts := make([]string, 0, len(tags))
	for t := range tags {
		ts = append(ts, t)
	}
	sort.Strings(ts)
	for _, t := range ts {
		if d := diffMapping(fmt.Sprintf("consumer %q", t), a.Consumers[t], b.Consumers[t], secRes); d != "" {
			return d
		}
	}
	ics := map[common.Interceptor]bool{}
	for i := range a.Interceptors {
		ics[i] = true
	}
	for i := range b.Interceptors {
		ics[i] = true
	}
	for i := range ics {
		x, okx := a.Interceptors[i]
		y, oky := b.Interceptors[i]
		tx, ty := x.Timestamp, y.Timestamp
		if secRes {
			tx, ty = floorSec(tx), floorSec(ty)
		}
		if okx != oky || tx != ty {
			return fmt.Sprintf("interceptor %v: %v(%v) vs %v(%v)", i, x.Timestamp, okx, y.Timestamp, oky)
		}
	}
	return ""
}

// ---- oracle: persistence round trip -----------------------------------------

func roundTrip(a discovery.Agg) string {
	out := discovery.ConvertToPersisted(a)
	b, err := json.Marshal(out)
	if err != nil {
		return "persisted form cannot be marshalled: " + err.Error()
	}
	back := sd.Output{}
	if err := json.Unmarshal(b, &back); err != nil {
		return "persisted form cannot be unmarshalled: " + err.Error()
	}
	got := discovery.ConvertFromPersisted(back)
	if d := diffAgg(a, *got, true); d != "" {
		return "ConvertFromPersisted(ConvertToPersisted(a)) differs from a: " + d
	}
	return ""
}

// ---- classification ---------------------------------------------------------

func paramDepth(a discovery.Agg) (assumed int, declared int) {
	for k := range a.Endpoints {
		n, d := 0, 0
		for _, p := range parts(k.URL) {
			if strings.HasPrefix(p.val, "{_param_") {
				n++
			} else if isParam(p.val) {
				d++
			}
		}
		assumed, declared = max(assumed, n), max(declared, d)
	}
	return
}

func bucket(n int, edges ...int) string {
	lo := 0
	for _, e := range edges {
		if n <= e {
			return fmt.Sprintf("%d-%d", lo, e)
		}
		lo = e + 1
	}
	return fmt.Sprintf("%d+", lo)
}

// ---- generator --------------------------------------------------------------

var hostPool = []string{"api.com", "api.com", "svc.io", "x.api.com"}
var segPool = []string{"users", "orders", "v1", "items", "#", "#", "#"}
var fixedTemplates = [][]string{
	{"users", "#"},
	{"users", "#", "orders", "#"},
	{"v1", "#", "items"},
	{"users", "#", "orders", "#", "items", "#"},
	{"#"},
	{"v1", "users", "#"},
}
var oddValues = []string{"me", "users", "orders", "0"}

type tmpl struct {
	host string
	segs []string
}

func (t tmpl) slots() int {
	n := 0
	for _, s := range t.segs {
		if s == "#" {
			n++
		}
	}
	return n
}

func (t tmpl) url(vals []string) string {
	out := []string{t.host}
	i := 0
	for _, s := range t.segs {
		if s == "#" {
			out = append(out, vals[i])
			i++
		} else {
			out = append(out, s)
		}
	}
	return strings.Join(out, "/")
}

func genCase(t *rapid.T, maxRecs int) kase {
	c := kase{}
	c.Threshold = rapid.SampledFrom([]int{2, 2, 2, 3, 3, 5, productionThreshold}).Draw(t, "threshold")
	nT := rapid.IntRange(1, 4).Draw(t, "ntemplates")
	tmpls := make([]tmpl, nT)
	for i := range tmpls {
		tmpls[i].host = rapid.SampledFrom(hostPool).Draw(t, "host")
		if rapid.IntRange(0, 2).Draw(t, "fixed") > 0 {
			tmpls[i].segs = rapid.SampledFrom(fixedTemplates).Draw(t, "template")
		} else {
			tmpls[i].segs = rapid.SliceOfN(rapid.SampledFrom(segPool), 1, 4).Draw(t, "segs")
		}
	}
	// known endpoints (declared parameters, literals next to parameters, a wildcard)
	for i, tp := range tmpls {
		switch rapid.SampledFrom([]string{"", "", "", "", "param", "param", "literal", "wild"}).Draw(t, fmt.Sprintf("known%d", i)) {
		case "param":
			vals := make([]string, tp.slots())
			for j := range vals {
				vals[j] = fmt.Sprintf("{p%d}", j+1)
			}
			c.Known = append(c.Known, tp.url(vals))
		case "literal":
			vals := make([]string, tp.slots())
			for j := range vals {
				vals[j] = "me"
			}
			c.Known = append(c.Known, tp.url(vals))
		case "wild":
			c.Known = append(c.Known, tp.host+"/*")
		}
	}
	valueOf := func(n int) string { return fmt.Sprintf("%d", n) }
	span := c.Threshold + 3
	nItems := rapid.IntRange(1, 40).Draw(t, "nitems")
	for it := 0; it < nItems && len(c.Recs) < maxRecs; it++ {
		tp := tmpls[rapid.IntRange(0, nT-1).Draw(t, "tmpl")]
		ns := tp.slots()
		base := make([]int, ns)
		odd := make([]string, ns)
		for j := range base {
			base[j] = rapid.IntRange(0, span).Draw(t, "id")
			if rapid.IntRange(0, 11).Draw(t, "odd") == 0 {
				odd[j] = rapid.SampledFrom(oddValues).Draw(t, "oddv")
			}
		}
		burst := 1
		vary := 0
		if ns > 0 && rapid.IntRange(0, 3).Draw(t, "isburst") == 0 {
			burst = rapid.IntRange(2, c.Threshold+2).Draw(t, "burst")
			vary = rapid.IntRange(0, ns-1).Draw(t, "vary")
		}
		for b := 0; b < burst && len(c.Recs) < maxRecs; b++ {
			vals := make([]string, ns)
			for j := range vals {
				v := base[j]
				if j == vary {
					v += b
				}
				vals[j] = valueOf(v)
				if odd[j] != "" && b == 0 {
					vals[j] = odd[j]
				}
			}
			r := rec{U: tp.url(vals)}
			if rapid.IntRange(0, 19).Draw(t, "slash") == 0 {
				r.U += "/"
			}
			r.M = rapid.SampledFrom([]string{"GET", "GET", "GET", "POST", "POST", "DELETE"}).Draw(t, "method")
			r.S = rapid.SampledFrom([]int{200, 200, 200, 201, 404, 429, 500, 503}).Draw(t, "status")
			r.D = rapid.OneOf(rapid.IntRange(0, 1000), rapid.IntRange(0, 1_000_000)).Draw(t, "dur")
			r.TD = r.D + rapid.IntRange(0, 500).Draw(t, "extra")
			r.T = 1_700_000_000_000 + int64(rapid.OneOf(rapid.IntRange(0, 3000), rapid.IntRange(0, 5_000_000)).Draw(t, "ts"))
			r.C = rapid.SampledFrom([]string{"", "", "a", "b"}).Draw(t, "consumer")
			r.I = rapid.SampledFrom([]string{"lunar-aiohttp-interceptor/2.0.2", "lunar-aiohttp-interceptor/2.0.2", "lunar-py/1.0", "", "bad", "a/b/c"}).Draw(t, "interceptor")
			r.In = rapid.IntRange(0, 9).Draw(t, "internal") == 0
			c.Recs = append(c.Recs, r)
		}
	}
	n := len(c.Recs)
	cut := func(label string) []int {
		cs := rapid.SliceOfN(rapid.IntRange(0, n), 0, 6).Draw(t, label)
		sort.Ints(cs)
		return cs
	}
	c.CutsA = cut("cutsA")
	c.CutsB = cut("cutsB")
	if len(c.CutsB) > 0 && rapid.IntRange(0, 2).Draw(t, "restarts") == 0 {
		c.Restart = make([]bool, len(c.CutsB))
		for i := range c.Restart {
			c.Restart[i] = rapid.IntRange(0, 1).Draw(t, "restart") == 1
		}
	}
	return c
}

// ---- the property -----------------------------------------------------------

type outcome struct {
	single, partA, partB discovery.Agg
	info1, infoA, infoB, infoS runInfo
	stateful             *discovery.Agg
	restarted            bool
}

// evaluate runs the case four ways and applies the oracles; the returned error
// is the property violation (nil = held).
func evaluate(c kase, dir string) (outcome, error, error) {
	o := outcome{}
	var err error
	var info runInfo
	if o.single, o.info1, err = runPure(c, nil); err != nil {
		return o, nil, err
	}
	_ = info
	if o.partA, o.infoA, err = runPure(c, c.CutsA); err != nil {
		return o, nil, err
	}
	if o.partB, o.infoB, err = runPure(c, c.CutsB); err != nil {
		return o, nil, err
	}
	// (1) conservation, every run
	for _, x := range []struct {
		name string
		a    discovery.Agg
	}{{"single batch", o.single}, {fmt.Sprintf("batches cut at %v", c.CutsA), o.partA}, {fmt.Sprintf("batches cut at %v", c.CutsB), o.partB}} {
		if e := conservation(x.name, x.a, c.Recs, false); e != nil {
			return o, e, nil
		}
	}
	// (2) batch invariance of the final statistics
	if d := diffAgg(o.single, o.partA, false); d != "" {
		return o, fmt.Errorf("final statistics depend on the batch boundaries (single batch vs cuts %v): %s", c.CutsA, d), nil
	}
	if d := diffAgg(o.single, o.partB, false); d != "" {
		return o, fmt.Errorf("final statistics depend on the batch boundaries (single batch vs cuts %v): %s", c.CutsB, d), nil
	}
	// (3) persistence round trip of the conversion functions
	if d := roundTrip(o.single); d != "" {
		return o, fmt.Errorf("%s", d), nil
	}
	// (4) the real Run with a state file, optionally restarting between batches
	for _, f := range c.Restart {
		o.restarted = o.restarted || f
	}
	var violation error
	o.stateful, o.infoS, err = runStateful(c, c.CutsB, c.Restart, dir, func(a *discovery.Agg, upto int, when string) error {
		if e := conservation(when, *a, c.Recs[:upto], true); e != nil && violation == nil {
			violation = e
		}
		return nil
	})
	if err != nil {
		return o, nil, err
	}
	if violation != nil {
		return o, violation, nil
	}
	if o.infoS.restarts == 0 {
		// no state was ever reloaded into a fresh tree: the file must show the same statistics
		if d := diffAgg(o.partB, *o.stateful, true); d != "" {
			return o, fmt.Errorf("state file written by Run differs from the statistics computed for the same batches: %s", d), nil
		}
	}
	return o, nil, nil
}

func scratchDir(t testing.TB) string {
	base := os.Getenv("VERIF_SCRATCH")
	if base == "" {
		base = os.TempDir()
	}
	d, err := os.MkdirTemp(base, "c15-")
	if err != nil {
		t.Fatalf("VERIF-INFRA: cannot create scratch dir: %v", err)
	}
	t.Cleanup(func() { os.RemoveAll(d) })
	return d
}

func classify(r *ev.Recorder, c kase, o outcome) {
	r.Class(fmt.Sprintf("threshold=%d", c.Threshold))
	r.Class("records=" + bucket(len(c.Recs), 5, 20, 60, 120))
	r.Class("batchesA=" + bucket(o.infoA.batches, 1, 3))
	as, de := paramDepth(o.single)
	r.Class(fmt.Sprintf("assumed-param-depth=%d", min(as, 3)))
	if de > 0 {
		r.Class("declared-param-key")
	}
	if len(c.Known) > 0 {
		r.Class("known-endpoints")
	}
	if o.infoA.rekeys+o.infoB.rekeys > 0 {
		r.Class("rekey-after-convergence")
	}
	if o.infoA.rekeys+o.infoB.rekeys > 1 {
		r.Class("rekey-twice-or-more")
	}
	if o.infoS.restarts > 0 {
		r.Class("restart-with-state")
	}
	if o.restarted && as > 0 {
		r.Class("restart-and-convergence")
	}
}

func TestBatchInvariance(t *testing.T) {
	r := ev.New(t, "C15")
	dir := scratchDir(t)
	rapid.Check(t, func(t *rapid.T) {
		c := genCase(t, 200)
		o, violation, infra := evaluate(c, dir)
		if infra != nil {
			// the tree rejected a generated known-endpoint list or a URL: outside the domain
			t.Skipf("outside domain: %v", infra)
		}
		if os.Getenv("C15_EXPLORE") != "" && o.info1.silent+o.infoA.silent+o.infoB.silent+o.infoS.silent > 0 {
			t.Skip("explore: silent convergence")
		}
		r.Case()
		classify(r, c, o)
		if o.infoA.rekeys+o.infoB.rekeys > 0 || o.infoS.restarts > 0 {
			r.NonTrivial(ev.JSON(c), func() any { return c })
		}
		if violation != nil {
			t.Fatalf("%s", r.Fail(c, "%v", violation))
		}
	})
}
