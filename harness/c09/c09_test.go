// C09 — policy-mode (strategy-based) throttling never exceeds the allowed count
// per epoch-aligned window; sequentially a rejection happens only when the
// group's share of the current window is used up; remedies and groups are
// isolated from each other.
//
// Driven object: remedies.StrategyBasedThrottlingPlugin.OnRequest on top of
// limit.NewRateLimitState, both on a harness-owned virtual clock that is set to
// exact instants (k·W, k·W±1ns, ...).
package c09

import (
	"context"
	"fmt"
	"math"
	"math/big"
	"os"
	"runtime"
	"sort"
	"sync"
	"sync/atomic"
	"testing"
	"time"

	"lunar/engine/actions"
	"lunar/engine/config"
	lunarMessages "lunar/engine/messages"
	"lunar/engine/services/remedies"
	"lunar/engine/utils"
	"lunar/engine/utils/limit"
	"lunar/engine/utils/obfuscation"
	sharedConfig "lunar/shared-model/config"
	"lunar/toolkit-core/logging"

	"github.com/rs/zerolog"
	"pgregory.net/rapid"

	"verif/harness/internal/ev"
	"verif/harness/internal/loglevel"
)

func TestMain(m *testing.M) {
	zerolog.SetGlobalLevel(zerolog.Disabled)
	os.Exit(m.Run())
}

// ---- case representation ----------------------------------------------------

const (
	sec = int64(time.Second)
	// base instant of every history: a multiple of every window size used
	// (lcm(1,2,3,4,5,7,11,13) = 60060 s), far away from the epoch.
	baseSec = int64(60060 * 28305) // 1 699 998 300
	baseNs  = baseSec * sec
)

// window sizes: small ones plus sizes (7, 11, 13 s) that do not divide the distance between Go's zero time
// and the Unix epoch, so a grid aligned to anything but the epoch shows
var windowSizes = []int{1, 2, 3, 4, 5, 1, 2, 3, 7, 11, 13}

type groupAlloc struct {
	Value string  `json:"value"`
	Pct   float64 `json:"pct"`
}

type allocSpec struct {
	Header     string       `json:"header"`
	Groups     []groupAlloc `json:"groups"`
	Default    string       `json:"default"`
	DefaultPct float64      `json:"default_pct"`
}

type remedySpec struct {
	Name    string     `json:"name"`
	Allowed int64      `json:"allowed"`
	W       int        `json:"window_s"`
	Status  int        `json:"status"` // 0 = not configured
	Alloc   *allocSpec `json:"alloc,omitempty"`
}

type step struct {
	Kind   string   `json:"kind"` // req | resize | realloc | burst
	Remedy int      `json:"remedy"`
	Group  string   `json:"group,omitempty"`  // value of the group header ("" = header absent)
	Groups []string `json:"groups,omitempty"` // burst: one header value per concurrent request
	At     int64    `json:"at_ns"`            // offset from the base instant
	NewW   int      `json:"new_window_s,omitempty"`
	Tag    string   `json:"tag,omitempty"`
	// the gateway's metrics collection reads the counters (RateLimitState.Counters, the quota_used gauge of the
	// plugin) before this step: 1 = at the step's own instant, 2 = half-way between the previous step and this one,
	// 3 (single requests) = the read is in progress when the request arrives: the request is issued from another
	// goroutine when the read takes its ReadAt-th clock reading, and the read waits up to 300 us for it
	Read   int `json:"metrics_read,omitempty"`
	ReadAt int `json:"request_at_clock_reading,omitempty"`
	// realloc: the policies are applied again with other percentages for the remedy's groups (same remedy
	// name, allowed count and window): per listed group, then the default percentage
	NewPcts []float64 `json:"new_percentages,omitempty"`
}

type caseSpec struct {
	Remedies []remedySpec `json:"remedies"`
	Steps    []step       `json:"steps"`
}

type verdict struct {
	Admit  bool   `json:"admit"`
	Status int    `json:"status,omitempty"`
	Bad    string `json:"bad,omitempty"` // anything that is neither NoOp nor an early response
}

// ---- driving the real plugin -------------------------------------------------

type harness struct {
	clk    *vclock
	state  limit.IncrementableRateLimitState
	plugin *remedies.StrategyBasedThrottlingPlugin
	scoped map[string]config.ScopedRemedy
	seq    int
}

func newHarness() (*harness, error) {
	clk := newVClock(baseNs)
	state := limit.NewRateLimitState(clk, logging.ContextLogger{})
	// production wiring (services.go) hands the identity obfuscator to this plugin
	plugin, err := remedies.NewStrategyBasedThrottlingPlugin(context.Background(), clk, nil, state,
		obfuscation.Obfuscator{Hasher: obfuscation.IdentityHasher{}})
	if err != nil {
		return nil, err
	}
	return &harness{clk: clk, state: state, plugin: plugin, scoped: map[string]config.ScopedRemedy{}}, nil
}

func (h *harness) scopedFor(rs remedySpec, w int) config.ScopedRemedy {
	key := fmt.Sprintf("%s/%d/%v", rs.Name, w, rs.Alloc)
	if rs.Alloc != nil {
		key = fmt.Sprintf("%s/%d/%v", rs.Name, w, *rs.Alloc)
	}
	if s, ok := h.scoped[key]; ok {
		return s
	}
	cfg := &sharedConfig.StrategyBasedThrottlingConfig{
		AllowedRequestCount: rs.Allowed,
		WindowSizeInSeconds: w,
		ResponseStatusCode:  rs.Status,
	}
	if rs.Alloc != nil {
		ga := &sharedConfig.GroupQuotaAllocation{
			GroupBy:                     &sharedConfig.GroupBy{HeaderName: rs.Alloc.Header},
			Default:                     rs.Alloc.Default,
			DefaultAllocationPercentage: rs.Alloc.DefaultPct,
		}
		for _, g := range rs.Alloc.Groups {
			ga.Groups = append(ga.Groups, sharedConfig.QuotaAllocation{GroupHeaderValue: g.Value, AllocationPercentage: g.Pct})
		}
		cfg.GroupQuotaAllocation = ga
	}
	s := config.ScopedRemedy{
		Scope:         utils.ScopeEndpoint,
		Method:        "GET",
		NormalizedURL: "h.com/a",
		Remedy: &sharedConfig.Remedy{
			Name:    rs.Name,
			Enabled: true,
			Config:  sharedConfig.RemedyConfig{StrategyBasedThrottling: cfg},
		},
	}
	h.scoped[key] = s
	return s
}

// withPcts returns rs with the percentages of a realloc step (listed groups in order, then the default)
func withPcts(rs remedySpec, pcts []float64) remedySpec {
	if rs.Alloc == nil || len(pcts) != len(rs.Alloc.Groups)+1 {
		return rs
	}
	a := *rs.Alloc
	a.Groups = append([]groupAlloc(nil), rs.Alloc.Groups...)
	for i := range a.Groups {
		a.Groups[i].Pct = pcts[i]
	}
	a.DefaultPct = pcts[len(pcts)-1]
	rs.Alloc = &a
	return rs
}

func mkRequest(rs remedySpec, group string, id int) lunarMessages.OnRequest {
	hdr := map[string]string{"host": "h.com"}
	if rs.Alloc != nil && group != "" {
		hdr[rs.Alloc.Header] = group
	} else if group != "" {
		hdr["x-group"] = group // ignored by an ungrouped remedy
	}
	return lunarMessages.OnRequest{
		ID: fmt.Sprintf("t%d", id), SequenceID: fmt.Sprintf("s%d", id), Method: "GET", Scheme: "https",
		URL: "h.com/a", Path: "/a", Headers: hdr,
	}
}

func decodeAction(a actions.ReqLunarAction, err error) verdict {
	if err != nil {
		return verdict{Bad: "error: " + err.Error()}
	}
	switch x := a.(type) {
	case *actions.NoOpAction:
		return verdict{Admit: true}
	case *actions.EarlyResponseAction:
		return verdict{Admit: false, Status: x.Status}
	}
	return verdict{Bad: fmt.Sprintf("unexpected action %T", a)}
}

// run executes the steps accepted by keep (nil = all) on a fresh plugin and
// returns, per step index, the verdicts (one per request; several for a burst).
func run(c caseSpec, keep func(remedy int, group string) bool) (map[int][]verdict, error) {
	h, err := newHarness()
	if err != nil {
		return nil, err
	}
	curW := make([]int, len(c.Remedies))
	for i, r := range c.Remedies {
		curW[i] = r.W
	}
	out := map[int][]verdict{}
	cur := append([]remedySpec(nil), c.Remedies...)
	last := int64(0)
	for i, s := range c.Steps {
		rs := cur[s.Remedy]
		if s.Read != 0 && !(s.Read == 3 && s.Kind == "req") && (s.Kind == "req" || s.Kind == "burst") {
			at := s.At
			if s.Read == 2 {
				at = last + (s.At-last)/2
			}
			h.clk.Set(baseNs + at)
			_ = h.state.Counters()
		}
		if s.Kind == "req" || s.Kind == "burst" {
			last = s.At
		}
		switch s.Kind {
		case "realloc":
			cur[s.Remedy] = withPcts(rs, s.NewPcts)
		case "resize":
			curW[s.Remedy] = s.NewW
		case "req":
			if keep != nil && !keep(s.Remedy, streamGroup(rs, s.Group)) {
				continue
			}
			h.clk.Set(baseNs + s.At)
			h.seq++
			sc := h.scopedFor(rs, curW[s.Remedy])
			if s.Read == 3 {
				var v verdict
				goReq, reqDone := make(chan struct{}), make(chan struct{})
				req := mkRequest(rs, s.Group, h.seq)
				go func() {
					<-goReq
					v = decodeAction(h.plugin.OnRequest(req, sc))
					close(reqDone)
				}()
				var readings atomic.Int32
				var fired atomic.Bool
				hook := func() {
					if fired.Load() {
						return
					}
					if int(readings.Add(1)) == s.ReadAt && fired.CompareAndSwap(false, true) {
						close(goReq)
						select {
						case <-reqDone:
						case <-time.After(300 * time.Microsecond):
						}
					}
				}
				h.clk.hook.Store(&hook)
				_ = h.state.Counters()
				h.clk.hook.Store(nil)
				if fired.CompareAndSwap(false, true) {
					close(goReq)
				}
				<-reqDone
				out[i] = []verdict{v}
				continue
			}
			out[i] = []verdict{decodeAction(h.plugin.OnRequest(mkRequest(rs, s.Group, h.seq), sc))}
		case "burst":
			h.clk.Set(baseNs + s.At)
			sc := h.scopedFor(rs, curW[s.Remedy])
			reqs := make([]lunarMessages.OnRequest, len(s.Groups))
			for j, g := range s.Groups {
				h.seq++
				reqs[j] = mkRequest(rs, g, h.seq)
			}
			res := make([]verdict, len(reqs))
			var ready atomic.Int32
			var wg sync.WaitGroup
			workers := len(reqs)
			if workers > 8 {
				workers = 8 // each caller then issues several requests back to back
			}
			n := int32(workers)
			// a burst that carries a metrics read has the read going on all the while: the gauge's collection runs
			// on its own goroutine, next to the transactions
			var burstOver atomic.Bool
			readerDone := make(chan struct{})
			if s.Read != 0 {
				go func() {
					defer close(readerDone)
					for k := 0; k < 3000 && !burstOver.Load(); k++ {
						_ = h.state.Counters()
					}
				}()
			} else {
				close(readerDone)
			}
			for w := 0; w < workers; w++ {
				wg.Add(1)
				go func(w int) {
					defer wg.Done()
					ready.Add(1)
					// barrier: all callers enter together (bounded spin, then yield, so
					// that an oversubscribed machine does not burn its time slices here)
					for spins := 0; ready.Load() < n; spins++ {
						if spins > 5000 {
							runtime.Gosched()
						}
					}
					for j := w; j < len(reqs); j += workers {
						res[j] = decodeAction(h.plugin.OnRequest(reqs[j], sc))
					}
				}(w)
			}
			wg.Wait()
			burstOver.Store(true)
			<-readerDone
			out[i] = res
		}
	}
	if n := h.clk.afters.Load(); n != 0 {
		return nil, fmt.Errorf("the throttling path registered %d clock timers (After/Sleep); the harness assumes it only reads Now()", n)
	}
	return out, nil
}

// streamGroup is the counter identity inside a remedy: the header value for a
// grouped remedy, nothing for an ungrouped one.
func streamGroup(rs remedySpec, group string) string {
	if rs.Alloc == nil {
		return ""
	}
	return group
}

// ---- specification model -----------------------------------------------------

type share struct {
	mode  string // counted | allow | block | either
	pct   float64
	capLo int64 // bounds of ceil(allowed*pct/100): exact rational and float evaluation
	capHi int64
	capFl int64 // as the float expression of the implementation evaluates it (defect model only)
}

func shareOf(rs remedySpec, group string) share {
	pct := 100.0
	if rs.Alloc != nil {
		found := false
		for _, g := range rs.Alloc.Groups {
			if g.Value == group {
				pct, found = g.Pct, true
				break
			}
		}
		if !found {
			switch rs.Alloc.Default {
			case "allow":
				return share{mode: "allow"}
			case "block":
				return share{mode: "block"}
			case "use_default_allocation":
				pct = rs.Alloc.DefaultPct
			default:
				return share{mode: "either"}
			}
		}
	}
	// exact: ceil(allowed * pct / 100) over the rationals
	x := new(big.Rat).SetFloat64(pct)
	x.Mul(x, new(big.Rat).SetInt64(rs.Allowed))
	x.Quo(x, new(big.Rat).SetInt64(100))
	q := new(big.Int).Quo(x.Num(), x.Denom())
	exact := q.Int64()
	if new(big.Rat).SetInt(q).Cmp(x) < 0 {
		exact++
	}
	fl := int64(math.Ceil(float64(rs.Allowed) * (pct / 100)))
	fl2 := int64(math.Ceil(float64(rs.Allowed) * pct / 100))
	lo, hi := exact, exact
	for _, v := range []int64{fl, fl2} {
		if v < lo {
			lo = v
		}
		if v > hi {
			hi = v
		}
	}
	return share{mode: "counted", pct: pct, capLo: lo, capHi: hi, capFl: fl}
}

type streamKey struct {
	Remedy int
	Group  string
}

type streamState struct {
	admitted   []int64 // absolute ns of admitted requests
	requests   int
	lastT      int64
	lastW      int64
	assertFrom int64
	// defect model F1 (window is left-open/right-closed: reset only when now is
	// strictly after the stored window end)
	dCounter   int64
	dWindowEnd int64
	dAgree     bool
	dBoundary  map[int64]int // instant -> arrivals at exactly the stored window end (judged in the window before)
	// after a change of the window size while a window was in progress: the overlap of that window (old size) with
	// the window of the new size the next request falls into. Whichever of the two governs the transition, at most
	// the share passes inside the overlap.
	overlapLo, overlapHi int64
}

type finding struct {
	Step int
	Msg  string
	F1   bool
}

type judgeStats struct {
	classes map[string]int64
	nt      bool
}

func (j *judgeStats) inc(k string) { j.classes[k]++ }

func floorDiv(a, b int64) int64 { return a / b } // all instants are positive

func ceilMult(x, m int64) int64 { return ((x + m - 1) / m) * m }

func countIn(ts []int64, lo, hi int64) int64 {
	var n int64
	for _, t := range ts {
		if t >= lo && t < hi {
			n++
		}
	}
	return n
}

// judge decides a whole observed history against the statement.
// sequentialExact: assert the "rejected only if used up" side for single requests.
func judge(c caseSpec, obs map[int][]verdict, js *judgeStats) []finding {
	var out []finding
	curW := make([]int64, len(c.Remedies))
	for i, r := range c.Remedies {
		curW[i] = int64(r.W) * sec
	}
	streams := map[streamKey]*streamState{}
	activeInWindow := map[string]map[string]bool{} // remedy/window -> groups
	cur := append([]remedySpec(nil), c.Remedies...)
	reallocAt := map[int]int64{} // remedy -> instant of its latest re-allocation
	for i, s := range c.Steps {
		if s.Kind == "resize" {
			curW[s.Remedy] = int64(s.NewW) * sec
			js.inc("resize")
			continue
		}
		if s.Kind == "realloc" {
			cur[s.Remedy] = withPcts(cur[s.Remedy], s.NewPcts)
			reallocAt[s.Remedy] = baseNs + s.At
			js.inc("realloc")
			continue
		}
		rs := cur[s.Remedy]
		W := curW[s.Remedy]
		t := baseNs + s.At
		groups := []string{s.Group}
		if s.Kind == "burst" {
			groups = s.Groups
			js.inc("burst")
		}
		vs := obs[i]
		if len(vs) != len(groups) {
			out = append(out, finding{Step: i, Msg: fmt.Sprintf("harness: %d verdicts for %d requests", len(vs), len(groups))})
			return out
		}
		for j, g := range groups {
			v := vs[j]
			sg := streamGroup(rs, g)
			sh := shareOf(rs, sg)
			if v.Bad != "" {
				out = append(out, finding{Step: i, Msg: "request " + v.Bad})
				continue
			}
			// (R) the configured rejection status
			if !v.Admit {
				js.inc("verdict=reject")
				if rs.Status != 0 && v.Status != rs.Status {
					out = append(out, finding{Step: i, Msg: fmt.Sprintf("rejection carries status %d, configured %d", v.Status, rs.Status)})
				}
				if rs.Status == 0 && (v.Status < 100 || v.Status > 599) {
					out = append(out, finding{Step: i, Msg: fmt.Sprintf("rejection carries status %d", v.Status)})
				}
			} else {
				js.inc("verdict=admit")
			}
			switch sh.mode {
			case "allow":
				js.inc("default=allow")
				if !v.Admit {
					out = append(out, finding{Step: i, Msg: "group without allocation under default 'allow' was rejected"})
				}
				continue
			case "block":
				js.inc("default=block")
				if v.Admit {
					out = append(out, finding{Step: i, Msg: "group without allocation under default 'block' was admitted"})
				}
				continue
			case "either":
				js.inc("default=undefined")
				continue
			}
			if rs.Alloc != nil {
				js.inc("counted-group")
			}
			if sh.capLo != sh.capHi {
				js.inc("cap-ambiguous(float)")
			}
			k := streamKey{s.Remedy, sg}
			st := streams[k]
			if st == nil {
				st = &streamState{dAgree: true, dBoundary: map[int64]int{}}
				streams[k] = st
			}
			if ra, ok := reallocAt[s.Remedy]; ok && st.requests > 0 && st.lastT <= ra {
				// the percentages changed since this counter's last request: the window in progress at that
				// instant is transitional (the statement does not say which share governs it), later ones are not
				if a := ceilMult(ra, W); a > st.assertFrom {
					st.assertFrom = a
				}
				js.inc("nt:request-after-reallocation")
				js.nt = true
			}
			start := floorDiv(t, W) * W
			if st.lastW != 0 && st.lastW != W {
				oldStart := floorDiv(st.lastT, st.lastW) * st.lastW
				oldEnd := oldStart + st.lastW
				st.overlapLo, st.overlapHi = 0, 0
				if _, realloc := reallocAt[s.Remedy]; t < oldEnd && oldStart >= st.assertFrom && !realloc {
					// the window of the old size is still in progress and was itself a fully judged one
					st.overlapLo, st.overlapHi = max(oldStart, start), min(oldEnd, start+W)
					js.inc("window size changed while a window was in progress")
				}
				if a := ceilMult(oldEnd, W); a > st.assertFrom {
					st.assertFrom = a
				}
			}
			wkey := fmt.Sprintf("%d/%d/%d", s.Remedy, W, start)
			if activeInWindow[wkey] == nil {
				activeInWindow[wkey] = map[string]bool{}
			}
			activeInWindow[wkey][sg] = true
			if len(activeInWindow[wkey]) >= 2 {
				js.nt = true
				js.inc("nt:two-groups-in-one-window")
			}
			n := countIn(st.admitted, start, start+W)
			onGrid := t == start
			if onGrid {
				js.inc("arrival=on-grid")
				if st.requests > 0 && s.Kind == "req" {
					prev := countIn(st.admitted, start-W, start)
					if prev >= sh.capLo || n == 0 {
						js.nt = true
						if prev >= sh.capLo {
							js.inc("nt:on-grid,previous-window-full")
						} else {
							js.inc("nt:on-grid,new-window-empty")
						}
					}
				}
			}
			if st.requests > 0 && floorDiv(st.lastT, W) != floorDiv(t, W) {
				js.inc("window-roll")
			}

			// defect model F1 runs alongside (sequential requests only)
			dAdmit := false
			if s.Kind == "req" {
				if t > st.dWindowEnd {
					st.dCounter = 0
					st.dWindowEnd = start + W
				} else if t == st.dWindowEnd {
					st.dBoundary[t]++
				}
				if st.dCounter < sh.capFl {
					st.dCounter++
					dAdmit = true
				}
				if dAdmit != v.Admit {
					st.dAgree = false
				}
			} else {
				st.dAgree = false
			}

			asserted := start >= st.assertFrom
			if !asserted {
				js.inc("transitional(unasserted)")
			} else {
				msg := ""
				if v.Admit && n >= sh.capHi {
					// (U) more than the share passed in this aligned window
					msg = fmt.Sprintf("remedy %s group %q: admitted request #%d in window [%s,+%ds) whose share is %d (allowed %d x %.6g%%)",
						rs.Name, sg, n+1, offStr(start), W/sec, sh.capHi, rs.Allowed, sh.pct)
				}
				if !v.Admit && s.Kind == "req" && n < sh.capLo {
					// (E) handled one at a time, rejected although the share is not used up
					msg = fmt.Sprintf("remedy %s group %q: rejected at %s although only %d of %d were admitted in window [%s,+%ds)",
						rs.Name, sg, offStr(t), n, sh.capLo, offStr(start), W/sec)
				}
				if msg != "" {
					f1 := s.Kind == "req" && st.dAgree && st.dBoundary[start] > 0
					out = append(out, finding{Step: i, Msg: msg, F1: f1})
				}
			}
			if v.Admit {
				st.admitted = append(st.admitted, t)
			}
			if v.Admit && st.overlapHi > st.overlapLo && t >= st.overlapLo && t < st.overlapHi && sh.capLo == sh.capHi {
				if k := countIn(st.admitted, st.overlapLo, st.overlapHi); int64(k) > int64(sh.capHi) {
					out = append(out, finding{Step: i, Msg: fmt.Sprintf("remedy %s group %q: %d requests passed in [%s,%s) - the part of the window in progress when the window size was changed that also lies in the window of the new size; the share is %d under the old size and under the new one (allowed %d x %.6g%%): the change of the size started the count again",
						rs.Name, sg, k, offStr(st.overlapLo), offStr(st.overlapHi), sh.capHi, rs.Allowed, sh.pct)})
				}
				js.nt = true
				js.inc("nt:admitted in the overlap of the old and the new window")
			}
			st.requests++
			st.lastT, st.lastW = t, W
		}
	}
	return out
}

func offStr(abs int64) string {
	return fmt.Sprintf("base%+.9fs", float64(abs-baseNs)/1e9)
}

// ---- generators --------------------------------------------------------------

var (
	kindsResize = []string{"req", "req", "req", "req", "req", "req", "req", "req", "req", "req", "req", "resize", "realloc"}
	kindsBurst  = []string{"req", "burst", "req"}
	pctPool     = []float64{100, 50, 25, 20, 33.3, 12.5, 66.67, 10, 0.1, 0, 150, 75}
	// values that differ only in letter case, or where one is a prefix of the other, are different groups
	valuePool   = []string{"a", "b", "c", "a", "A", "B", "ab", "Ab", "zz", ""}
	defaultPool = []string{"use_default_allocation", "allow", "use_default_allocation", "block", "use_default_allocation", "", "undefined"}
	statusPool  = []int{0, 429, 503, 418}
	allowedPool = []int64{1, 1, 2, 2, 3, 4, 5, 10}
)

func genRemedy(t *rapid.T, idx int, forceAlloc bool) remedySpec {
	rs := remedySpec{
		Name:    fmt.Sprintf("r%d", idx),
		Allowed: rapid.SampledFrom(allowedPool).Draw(t, "allowed"),
		W:       rapid.SampledFrom(windowSizes).Draw(t, "w"),
		Status:  rapid.SampledFrom(statusPool).Draw(t, "status"),
	}
	if forceAlloc || rapid.IntRange(0, 9).Draw(t, "grouped") < 6 {
		a := &allocSpec{
			Header:     rapid.SampledFrom([]string{"x-group", "x-tenant"}).Draw(t, "hdr"),
			Default:    rapid.SampledFrom(defaultPool).Draw(t, "default"),
			DefaultPct: rapid.SampledFrom(pctPool).Draw(t, "defpct"),
		}
		listed := rapid.SliceOfNDistinct(rapid.SampledFrom([]string{"a", "b", "c", "A", "ab"}), 1, 3, rapid.ID[string]).Draw(t, "listed")
		sort.Strings(listed)
		for _, v := range listed {
			a.Groups = append(a.Groups, groupAlloc{Value: v, Pct: rapid.SampledFrom(pctPool).Draw(t, "pct")})
		}
		rs.Alloc = a
	}
	return rs
}

type genOpts struct {
	maxSteps   int
	resize     bool
	burst      bool
	onGrid     bool
	forceAlloc bool
	minRem     int
}

// intent is the abstract form of one step; instants are resolved afterwards
// against the window size the remedy has at that point, so that rapid can
// delete and simplify steps independently while shrinking.
type intent struct {
	Kind   string
	Remedy int
	Tag    string
	DK     int
	Dt     int64 // fraction (in 1/1000) of two windows, for tag rnd
	Group  int
	Others []int // burst: group index per extra concurrent caller (-1 = same as Group)
	NewW   int
	Pcts   []float64
	Read   int
	ReadAt int
}

func genIntent(o genOpts) *rapid.Generator[intent] {
	tags := []string{"same", "same", "same", "rnd", "+1ns", "mid", "-1ns"}
	if o.onGrid {
		tags = append(tags, "grid", "grid", "grid")
	}
	kinds := []string{"req"}
	if o.resize {
		kinds = kindsResize
	} else if o.burst {
		kinds = kindsBurst
	}
	return rapid.Custom(func(t *rapid.T) intent {
		in := intent{
			Kind:   rapid.SampledFrom(kinds).Draw(t, "kind"),
			Remedy: rapid.IntRange(0, 2).Draw(t, "remedy"),
		}
		if in.Kind == "resize" {
			in.NewW = rapid.SampledFrom(windowSizes).Draw(t, "neww")
			return in
		}
		if in.Kind == "realloc" {
			in.Pcts = rapid.SliceOfN(rapid.SampledFrom(pctPool), 4, 4).Draw(t, "pcts")
			return in
		}
		in.Tag = rapid.SampledFrom(tags).Draw(t, "tag")
		switch in.Tag {
		case "rnd":
			in.Dt = rapid.Int64Range(0, 1000).Draw(t, "dt")
		case "grid":
			in.DK = rapid.SampledFrom([]int{1, 1, 1, 2, 3}).Draw(t, "dk")
		case "+1ns":
			in.DK = rapid.SampledFrom([]int{0, 1, 1, 2}).Draw(t, "dk")
		case "mid":
			in.DK = rapid.SampledFrom([]int{0, 0, 1, 2}).Draw(t, "dk")
		case "-1ns":
			in.DK = rapid.SampledFrom([]int{0, 0, 1}).Draw(t, "dk")
		}
		in.Group = rapid.IntRange(0, 2).Draw(t, "group")
		in.Read = rapid.SampledFrom([]int{0, 0, 0, 0, 0, 0, 1, 2, 3}).Draw(t, "metrics-read")
		if in.Read == 3 {
			in.ReadAt = rapid.IntRange(1, 3).Draw(t, "at-reading")
		}
		if in.Kind == "burst" {
			in.Others = rapid.SliceOfN(rapid.SampledFrom([]int{-1, -1, -1, -1, -1, -1, -1, 0, 1, 2}), 1, 31).Draw(t, "others")
		}
		return in
	})
}

func genCase(t *rapid.T, o genOpts) caseSpec {
	nr := rapid.IntRange(o.minRem, 3).Draw(t, "nremedies")
	c := caseSpec{}
	for i := 0; i < nr; i++ {
		c.Remedies = append(c.Remedies, genRemedy(t, i, o.forceAlloc && i == 0))
	}
	// few groups per case so that counters fill up
	gv := rapid.SliceOfNDistinct(rapid.SampledFrom(valuePool), 1, 3, rapid.ID[string]).Draw(t, "values")
	ins := rapid.SliceOfN(genIntent(o), 1, o.maxSteps).Draw(t, "steps")
	curW := make([]int64, nr)
	for i, r := range c.Remedies {
		curW[i] = int64(r.W) * sec
	}
	now := int64(0) // offset from base
	for _, in := range ins {
		ri := in.Remedy % nr
		if in.Kind == "resize" {
			c.Steps = append(c.Steps, step{Kind: "resize", Remedy: ri, NewW: in.NewW, At: now})
			curW[ri] = int64(in.NewW) * sec
			continue
		}
		if in.Kind == "realloc" {
			if a := c.Remedies[ri].Alloc; a != nil {
				c.Steps = append(c.Steps, step{Kind: "realloc", Remedy: ri, At: now, NewPcts: append(append([]float64(nil), in.Pcts[:len(a.Groups)]...), in.Pcts[3])})
			}
			continue
		}
		W := curW[ri]
		win := now / W
		at, tag := now, in.Tag
		switch tag {
		case "rnd":
			at = now + 2*W/1000*in.Dt
		case "grid":
			at = (win + int64(in.DK)) * W
		case "+1ns":
			at = (win+int64(in.DK))*W + 1
		case "mid":
			at = (win+int64(in.DK))*W + W/2
		case "-1ns":
			at = (win+int64(in.DK))*W + W - 1
		}
		if at < now {
			at, tag = now, "same"
		}
		if !o.onGrid && at%sec == 0 {
			at++ // every grid instant is a whole second: stay off the grid
		}
		now = at
		s := step{Kind: in.Kind, Remedy: ri, At: at, Tag: tag, Read: in.Read, ReadAt: in.ReadAt}
		g := gv[in.Group%len(gv)]
		if in.Kind == "req" {
			s.Group = g
		} else {
			s.Groups = []string{g}
			for _, x := range in.Others {
				if x < 0 {
					s.Groups = append(s.Groups, g)
				} else {
					s.Groups = append(s.Groups, gv[x%len(gv)])
				}
			}
		}
		c.Steps = append(c.Steps, s)
	}
	return c
}

func flushClasses(r *ev.Recorder, c caseSpec, js *judgeStats) {
	for k, v := range js.classes {
		r.ClassN(k, v)
	}
	for _, s := range c.Steps {
		if s.Kind != "resize" && s.Kind != "realloc" {
			r.Class("delta=" + s.Tag)
		}
	}
	r.ClassN("steps", int64(len(c.Steps)))
}

func caseRepr(c caseSpec, obs map[int][]verdict, f *finding) map[string]any {
	m := map[string]any{"case": c, "base_unix_s": baseSec}
	if obs != nil {
		o := map[string][]verdict{}
		for k, v := range obs {
			o[fmt.Sprintf("%03d", k)] = v
		}
		m["observed"] = o
	}
	if f != nil {
		m["failing_step"] = f.Step
	}
	return m
}

// ---- tests ---------------------------------------------------------------------

// TestSequentialWindows: requests handled one at a time at exact instants on and
// around the grid; full two-sided oracle.
func TestSequentialWindows(t *testing.T) {
	r := ev.New(t, "C09")
	rapid.Check(t, func(t *rapid.T) {
		c := genCase(t, genOpts{maxSteps: 60, resize: true, onGrid: true, minRem: 1})
		level := loglevel.Gen().Draw(t, "log level")
		r.Class("log level " + level)
		defer loglevel.Set(level)()
		r.Case()
		obs, err := run(c, nil)
		if err != nil {
			t.Fatalf("%s", r.Fail(caseRepr(c, nil, nil), "%v", err))
		}
		js := &judgeStats{classes: map[string]int64{}}
		fs := judge(c, obs, js)
		flushClasses(r, c, js)
		if js.nt {
			r.NonTrivial(ev.JSON(c), func() any { return c })
		}
		for i := range fs {
			f := fs[i]
			if f.F1 && r.KnownFinding("C09-F1", func() any { return map[string]any{"case": c, "step": f.Step, "what": f.Msg} }) {
				r.Class("attributed:C09-F1")
				continue
			}
			t.Fatalf("%s", r.Fail(caseRepr(c, obs, &f), "step %d: %s", f.Step, f.Msg))
		}
	})
}

// TestIsolation: metamorphic — every (remedy, group) sub-history run alone on a
// fresh plugin gets exactly the verdicts it got inside the interleaved history.
func TestIsolation(t *testing.T) {
	r := ev.New(t, "C09")
	rapid.Check(t, func(t *rapid.T) {
		c := genCase(t, genOpts{maxSteps: 50, resize: true, onGrid: true, forceAlloc: true, minRem: 1})
		r.Case()
		full, err := run(c, nil)
		if err != nil {
			t.Fatalf("%s", r.Fail(caseRepr(c, nil, nil), "%v", err))
		}
		seen := map[streamKey]int{}
		order := []streamKey{}
		for _, s := range c.Steps {
			if s.Kind != "req" {
				continue
			}
			k := streamKey{s.Remedy, streamGroup(c.Remedies[s.Remedy], s.Group)}
			if seen[k] == 0 {
				order = append(order, k)
			}
			seen[k]++
		}
		r.Class(fmt.Sprintf("streams=%d", len(order)))
		rejects := 0
		for _, v := range full {
			if !v[0].Admit {
				rejects++
			}
		}
		if len(order) >= 2 && rejects > 0 {
			r.NonTrivial(ev.JSON(c), func() any { return c })
		}
		for _, k := range order {
			k := k
			alone, err := run(c, func(rem int, g string) bool { return rem == k.Remedy && g == k.Group })
			if err != nil {
				t.Fatalf("%s", r.Fail(caseRepr(c, nil, nil), "%v", err))
			}
			for i, v := range alone {
				if full[i][0] != v[0] {
					t.Fatalf("%s", r.Fail(caseRepr(c, full, &finding{Step: i}),
						"step %d (remedy %s group %q): verdict %+v inside the interleaved history but %+v when the sub-history runs alone — another remedy/group influenced it",
						i, c.Remedies[k.Remedy].Name, k.Group, full[i][0], v[0]))
				}
			}
		}
	})
}

// TestBurst: concurrent callers at one instant (off the grid instants, which
// TestSequentialWindows covers); only the per-window bound, the status and the
// exactness of the single requests between bursts are asserted.
func TestBurst(t *testing.T) {
	r := ev.New(t, "C09")
	rapid.Check(t, func(t *rapid.T) {
		c := genCase(t, genOpts{maxSteps: 14, burst: true, minRem: 1})
		level := loglevel.Gen().Draw(t, "log level")
		r.Class("log level " + level)
		defer loglevel.Set(level)()
		r.Case()
		obs, err := run(c, nil)
		if err != nil {
			t.Fatalf("%s", r.Fail(caseRepr(c, nil, nil), "%v", err))
		}
		js := &judgeStats{classes: map[string]int64{}}
		fs := judge(c, obs, js)
		flushClasses(r, c, js)
		nb, mixed := 0, false
		for i, s := range c.Steps {
			if s.Kind == "burst" {
				nb++
				a := 0
				for _, v := range obs[i] {
					if v.Admit {
						a++
					}
				}
				if a > 0 && a < len(obs[i]) {
					mixed = true
				}
			}
		}
		if mixed {
			r.Class("burst-partly-admitted")
			r.NonTrivial(ev.JSON(c), func() any { return c })
		}
		for i := range fs {
			f := fs[i]
			t.Fatalf("%s", r.Fail(caseRepr(c, obs, &f), "step %d: %s", f.Step, f.Msg))
		}
	})
}

// ---- finding C09-F1: witness ----------------------------------------------------

// witnessF1 returns the verdicts of two minimal histories.
//
//	A (exactness): allowed 1 / 1 s: one request inside window k-1, one exactly at k·W.
//	   The second must pass (window k is empty); the defect rejects it.
//	B (bound): allowed 2 / 1 s: requests at (k-1)W+0.5 s, k·W, k·W+0.5 s, k·W+0.6 s.
//	   At most 2 of the last three may pass; the defect admits all three.
func witnessF1() (caseSpec, map[int][]verdict, caseSpec, map[int][]verdict, error) {
	a := caseSpec{Remedies: []remedySpec{{Name: "r0", Allowed: 1, W: 1, Status: 429}},
		Steps: []step{{Kind: "req", At: sec / 2, Tag: "mid"}, {Kind: "req", At: sec, Tag: "grid"}}}
	b := caseSpec{Remedies: []remedySpec{{Name: "r0", Allowed: 2, W: 1, Status: 429}},
		Steps: []step{{Kind: "req", At: sec / 2, Tag: "mid"}, {Kind: "req", At: sec, Tag: "grid"},
			{Kind: "req", At: sec + sec/2, Tag: "mid"}, {Kind: "req", At: sec + 6*sec/10, Tag: "rnd"}}}
	oa, err := run(a, nil)
	if err != nil {
		return a, nil, b, nil, err
	}
	ob, err := run(b, nil)
	return a, oa, b, ob, err
}

func TestWitnessBoundaryInstant(t *testing.T) {
	r := ev.New(t, "C09")
	a, oa, b, ob, err := witnessF1()
	if err != nil {
		t.Fatalf("%s", r.Fail(nil, "%v", err))
	}
	for _, w := range []struct {
		name string
		c    caseSpec
		o    map[int][]verdict
	}{{"exactness", a, oa}, {"bound", b, ob}} {
		r.Case()
		js := &judgeStats{classes: map[string]int64{}}
		fs := judge(w.c, w.o, js)
		if js.nt {
			r.NonTrivial(ev.JSON(w.c), func() any { return w.c })
		}
		if len(fs) == 0 {
			r.Class("witness-" + w.name + ":defect-absent")
			continue
		}
		for i := range fs {
			f := fs[i]
			if f.F1 && r.KnownFinding("C09-F1", func() any { return map[string]any{"case": w.c, "step": f.Step, "what": f.Msg} }) {
				r.Class("witness-" + w.name + ":defect-present-and-listed")
				continue
			}
			t.Fatalf("%s", r.Fail(caseRepr(w.c, w.o, &f), "witness %s, step %d: %s", w.name, f.Step, f.Msg))
		}
	}
}

// TestRegressionMetricsReadAfterResize: the history that exposed the defect repaired by commit fe4454e (a metrics
// read between a window-size change and the remedy's next request settled the window with the stale size).
func TestRegressionMetricsReadAfterResize(t *testing.T) {
	r := ev.New(t, "C09")
	for _, read := range []int{1, 2} {
		c := caseSpec{
			Remedies: []remedySpec{{Name: "r0", Allowed: 1, W: 1}},
			Steps: []step{
				{Kind: "req", Remedy: 0, At: 0, Tag: "same"},
				{Kind: "resize", Remedy: 0, NewW: 4, At: 5_999_999_999},
				{Kind: "req", Remedy: 0, At: 5_999_999_999, Tag: "same", Read: read},
				{Kind: "req", Remedy: 0, At: 6_007_999_999, Tag: "rnd"},
				{Kind: "req", Remedy: 0, At: 7_999_999_999, Tag: "-1ns", Read: read},
				{Kind: "req", Remedy: 0, At: 8_000_000_001, Tag: "+1ns"},
			},
		}
		r.Case()
		obs, err := run(c, nil)
		if err != nil {
			t.Fatalf("%s", r.Fail(caseRepr(c, nil, nil), "%v", err))
		}
		js := &judgeStats{classes: map[string]int64{}}
		fs := judge(c, obs, js)
		r.NonTrivial(ev.JSON(c), func() any { return c })
		if len(fs) > 0 {
			f := fs[0]
			t.Fatalf("%s", r.Fail(caseRepr(c, obs, &f), "step %d: %s", f.Step, f.Msg))
		}
	}
}
