package c09

import (
	"sync"
	"sync/atomic"
	"time"
)

// vclock is a harness-owned implementation of lunar/toolkit-core/clock.Clock.
// Now() returns exactly the instant the test set (nanosecond resolution);
// nothing ever sleeps in real time. The components under C09 only read Now();
// After/Sleep register a timer that the test would have to fire explicitly and
// are counted so that an unexpected use becomes visible.
type vclock struct {
	nowNs  atomic.Int64
	mu     sync.Mutex
	timers []*vtimer
	afters atomic.Int64
	// hook, when set, runs at the start of every Now() on the calling goroutine: reading the clock is a point at
	// which the harness can let something else happen
	hook atomic.Pointer[func()]
}

type vtimer struct {
	due int64
	ch  chan time.Time
}

func newVClock(ns int64) *vclock {
	c := &vclock{}
	c.nowNs.Store(ns)
	return c
}

func (c *vclock) Set(ns int64)          { c.nowNs.Store(ns) }
func (c *vclock) NowNs() int64          { return c.nowNs.Load() }
func (c *vclock) Now() time.Time {
	if f := c.hook.Load(); f != nil {
		(*f)()
	}
	return time.Unix(0, c.nowNs.Load())
}
func (c *vclock) Sleep(d time.Duration) { <-c.After(d) }

func (c *vclock) After(d time.Duration) <-chan time.Time {
	c.afters.Add(1)
	t := &vtimer{due: c.nowNs.Load() + int64(d), ch: make(chan time.Time, 1)}
	c.mu.Lock()
	c.timers = append(c.timers, t)
	c.mu.Unlock()
	return t.ch
}

// FireDue fires every registered timer that is due at the current instant.
func (c *vclock) FireDue() int {
	now := c.nowNs.Load()
	c.mu.Lock()
	defer c.mu.Unlock()
	n := 0
	rest := c.timers[:0]
	for _, t := range c.timers {
		if t.due <= now {
			t.ch <- time.Unix(0, now)
			n++
		} else {
			rest = append(rest, t)
		}
	}
	c.timers = rest
	return n
}

func (c *vclock) Since(t time.Time) time.Duration { return c.Now().Sub(t) }
func (c *vclock) Until(t time.Time) time.Duration { return t.Sub(c.Now()) }
