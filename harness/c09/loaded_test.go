package c09

// Unit TestThrottlingLoadedFromFile: the throttling remedy as the gateway loads it. The generated remedy is written
// to a policies.yaml with an allocation table of 1-14 groups (the plugin-level units list three at most), loaded
// by the real policies accessor (config.BuildInitialFromFile - reading, validating, logging, persisting and
// registering as at start-up, with a stand-in for the proxy's admin API) and driven through
// runner.DispatchOnRequest with the tree and configuration the accessor hands out. Requests carry the group header
// themselves. The verdicts are judged by the same per-window, per-group reference as the plugin-level units: every
// listed group - the first, the tenth, the eleventh, the last - has the share its own line of the file gives it.

import (
	"fmt"
	"io"
	"net/http"
	"os"
	"path/filepath"
	"strings"
	"sync"
	"testing"

	"lunar/engine/config"
	lunarMessages "lunar/engine/messages"
	"lunar/engine/runner"
	"lunar/engine/services"
	sharedConfig "lunar/shared-model/config"

	"pgregory.net/rapid"

	"verif/harness/internal/ev"
	"verif/harness/internal/loglevel"
)

type okTransport struct{}

func (okTransport) RoundTrip(req *http.Request) (*http.Response, error) {
	if req.Body != nil {
		io.Copy(io.Discard, req.Body)
		req.Body.Close()
	}
	return &http.Response{StatusCode: 200, Status: "200 OK", Proto: "HTTP/1.1", ProtoMajor: 1, ProtoMinor: 1,
		Header: http.Header{}, Body: io.NopCloser(strings.NewReader("ok")), Request: req}, nil
}

var loadedOnce sync.Once

func policiesYAML(rs remedySpec) string {
	var b strings.Builder
	fmt.Fprintf(&b, "global:\n  remedies:\n    - name: %q\n      enabled: true\n      config:\n        strategy_based_throttling:\n", rs.Name)
	fmt.Fprintf(&b, "          allowed_request_count: %d\n          window_size_in_seconds: %d\n", rs.Allowed, rs.W)
	if rs.Status != 0 {
		fmt.Fprintf(&b, "          response_status_code: %d\n", rs.Status)
	}
	a := rs.Alloc
	fmt.Fprintf(&b, "          group_quota_allocation:\n            group_by:\n              header_name: %q\n", a.Header)
	if a.Default != "" {
		fmt.Fprintf(&b, "            default: %s\n", a.Default)
	}
	fmt.Fprintf(&b, "            default_allocation_percentage: %v\n            groups:\n", a.DefaultPct)
	for _, g := range a.Groups {
		fmt.Fprintf(&b, "              - group_header_value: %q\n                allocation_percentage: %v\n", g.Value, g.Pct)
	}
	return b.String()
}

func TestThrottlingLoadedFromFile(t *testing.T) {
	r := ev.New(t, "C09")
	dir := t.TempDir()
	polPath := filepath.Join(dir, "policies.yaml")
	t.Setenv("LUNAR_PROXY_POLICIES_CONFIG", polPath)
	t.Setenv("LUNAR_PROXY_CONFIG_DIR", dir)
	prev := http.DefaultTransport
	http.DefaultTransport = okTransport{}
	defer func() { http.DefaultTransport = prev }()
	loadedOnce.Do(func() {
		sharedConfig.Validate.RegisterStructValidation(config.ValidateStructLevel, sharedConfig.Remedy{}, sharedConfig.Diagnosis{}, sharedConfig.PoliciesConfig{})
		_ = sharedConfig.Validate.RegisterValidation("validateInt", config.ValidateInt)
	})
	rapid.Check(t, func(t *rapid.T) {
		c := genCase(t, genOpts{maxSteps: 40, onGrid: true, forceAlloc: true, minRem: 1})
		c.Remedies = c.Remedies[:1]
		rs := &c.Remedies[0]
		// an allocation table of 1-14 groups; the percentages of the generated ones are kept, the further ones drawn
		n := rapid.SampledFrom([]int{1, 3, 9, 10, 11, 11, 12, 12, 14}).Draw(t, "groups")
		a := *rs.Alloc
		a.Groups = nil
		for i := 0; i < n; i++ {
			a.Groups = append(a.Groups, groupAlloc{Value: fmt.Sprintf("g%02d", i), Pct: rapid.SampledFrom(pctPool).Draw(t, "pct")})
		}
		if a.Default == "undefined" {
			a.Default = ""
		}
		rs.Alloc = &a
		steps := c.Steps[:0:0]
		for _, s := range c.Steps {
			if s.Kind != "req" || s.Remedy != 0 {
				continue
			}
			s.Read, s.ReadAt = 0, 0
			// mostly listed groups, with a liking for the last ones of the table; now and then an unlisted value or none
			switch k := rapid.IntRange(0, 9).Draw(t, "which"); {
			case k == 0:
				s.Group = "unlisted"
			case k == 1:
				s.Group = ""
			case k < 6:
				s.Group = a.Groups[n-1-rapid.IntRange(0, 3).Draw(t, "from-end")%n].Value
			default:
				s.Group = a.Groups[rapid.IntRange(0, n-1).Draw(t, "any")].Value
			}
			steps = append(steps, s)
		}
		c.Steps = steps
		if len(c.Steps) == 0 {
			t.Skip("no request")
		}
		level := loglevel.Gen().Draw(t, "log level")
		r.Class("log level " + level)
		r.Class(fmt.Sprintf("groups listed: %d", n))
		defer loglevel.Set(level)()
		r.Case()
		h, err := newHarness()
		if err != nil {
			fmt.Println("VERIF-INFRA:", err)
			t.Fatalf("infrastructure")
		}
		if err := os.WriteFile(polPath, []byte(policiesYAML(*rs)), 0o644); err != nil {
			fmt.Println("VERIF-INFRA:", err)
			t.Fatalf("infrastructure")
		}
		res, err := config.BuildInitialFromFile()
		if err != nil {
			t.Fatalf("%s", r.Fail(map[string]any{"case": c, "policies_yaml": policiesYAML(*rs)}, "the generated policies were not loaded: %v", err))
		}
		pd := res.Accessor.GetCurrentPoliciesData()
		svc := &services.PoliciesServices{Remedies: services.RemedyPlugins{StrategyBasedThrottlingPlugin: h.plugin}}
		obs := map[int][]verdict{}
		for i, s := range c.Steps {
			h.clk.Set(baseNs + s.At)
			hdr := map[string]string{"host": "h.com"}
			if s.Group != "" {
				hdr[a.Header] = s.Group
			}
			id := fmt.Sprintf("t%d", i)
			acts, err := runner.DispatchOnRequest(lunarMessages.OnRequest{ID: id, SequenceID: id, Method: "GET", Scheme: "https", URL: "h.com/a", Path: "/a",
				Headers: hdr, Time: h.clk.Now()}, &pd.EndpointPolicyTree, &pd.Config, svc, nil)
			if err != nil {
				obs[i] = []verdict{{Bad: "error: " + err.Error()}}
				continue
			}
			v := verdict{Admit: true}
			for _, act := range acts {
				switch act.Name {
				case "return_early_response":
					v.Admit = false
				case "status_code":
					v.Status, _ = act.Value.(int)
				}
			}
			if v.Admit {
				v.Status = 0
			}
			obs[i] = []verdict{v}
		}
		js := &judgeStats{classes: map[string]int64{}}
		fs := judge(c, obs, js)
		flushClasses(r, c, js)
		if js.nt {
			r.NonTrivial("loaded/"+ev.JSON(c), func() any { return map[string]any{"loaded_from": "policies.yaml through the policies accessor", "case": c} })
		}
		for i := range fs {
			f := fs[i]
			if f.F1 && r.KnownFinding("C09-F1", func() any { return map[string]any{"case": c, "step": f.Step, "what": f.Msg} }) {
				continue
			}
			m := caseRepr(c, obs, &f)
			m["loaded_from"] = "policies.yaml through the policies accessor (config.BuildInitialFromFile), driven through runner.DispatchOnRequest"
			t.Fatalf("%s", r.Fail(m, "step %d: %s", f.Step, f.Msg))
		}
	})
}
