package c09

// Unit TestThrottlingBehindAccountOrchestration: the throttling remedy at the end of a chain of remedies, driven
// through the dispatcher of policy mode (runner.DispatchOnRequest). The clients send no group header at all: the
// header the throttling remedy groups by is the token header that an account_orchestration remedy in front of it
// puts on the request (a "quota per provider account" set-up). The accounts are listed so that the round robin
// hands request i the group value of step i of the generated history; what the gateway put on an admitted request
// is read back from the action and must be that value. The verdicts are then judged by the same reference as the
// plugin-level units: per window and group at most the share passes, and a request is refused only if the share
// of its own group is used up.

import (
	"fmt"
	"strings"
	"testing"

	"lunar/engine/config"
	lunarMessages "lunar/engine/messages"
	"lunar/engine/runner"
	"lunar/engine/services"
	"lunar/engine/services/remedies"
	sharedConfig "lunar/shared-model/config"

	"pgregory.net/rapid"

	"verif/harness/internal/ev"
	"verif/harness/internal/loglevel"
)

// chainCase keeps the request steps of the first remedy (which has a group allocation) and gives every request a
// non-empty group value: an account token cannot be empty.
func chainCase(c caseSpec) caseSpec {
	out := caseSpec{Remedies: c.Remedies[:1]}
	for _, s := range c.Steps {
		if s.Kind != "req" || s.Remedy != 0 {
			continue
		}
		s.Read, s.ReadAt = 0, 0
		if s.Group == "" {
			s.Group = "anon"
		}
		out.Steps = append(out.Steps, s)
	}
	return out
}

func runChain(c caseSpec) (map[int][]verdict, error) {
	h, err := newHarness()
	if err != nil {
		return nil, err
	}
	rs := c.Remedies[0]
	hdr := strings.ToLower(rs.Alloc.Header)
	pc := &sharedConfig.PoliciesConfig{Accounts: map[sharedConfig.AccountID]sharedConfig.Account{}}
	var rr []sharedConfig.AccountID
	for i, s := range c.Steps {
		id := sharedConfig.AccountID(fmt.Sprintf("acct%03d", i))
		pc.Accounts[id] = sharedConfig.Account{Tokens: []sharedConfig.Token{{Header: &sharedConfig.Header{Name: hdr, Value: s.Group}}}}
		rr = append(rr, id)
	}
	thr := h.scopedFor(rs, rs.W).Remedy
	pc.Global.Remedies = []sharedConfig.Remedy{
		{Name: "rotate accounts", Enabled: true, Config: sharedConfig.RemedyConfig{AccountOrchestration: &sharedConfig.AccountOrchestrationConfig{RoundRobin: rr}}},
		*thr,
	}
	pc.Endpoints = []sharedConfig.EndpointConfig{}
	tree, err := config.BuildEndpointPolicyTree(pc.Endpoints)
	if err != nil {
		return nil, fmt.Errorf("VERIF-INFRA: policy tree: %v", err)
	}
	svc := &services.PoliciesServices{Remedies: services.RemedyPlugins{
		StrategyBasedThrottlingPlugin: h.plugin,
		AccountOrchestrationPlugin:    remedies.NewAccountOrchestrationPlugin(),
	}}
	out := map[int][]verdict{}
	for i, s := range c.Steps {
		h.clk.Set(baseNs + s.At)
		id := fmt.Sprintf("t%d", i)
		acts, err := runner.DispatchOnRequest(lunarMessages.OnRequest{ID: id, SequenceID: id, Method: "GET", Scheme: "https", URL: "h.com/a", Path: "/a",
			Headers: map[string]string{"host": "h.com"}, Time: h.clk.Now()}, tree, pc, svc, nil)
		if err != nil {
			out[i] = []verdict{{Bad: "error: " + err.Error()}}
			continue
		}
		v := verdict{Admit: true}
		sent := ""
		for _, a := range acts {
			switch a.Name {
			case "return_early_response":
				v.Admit = false
			case "status_code":
				v.Status, _ = a.Value.(int)
			case "request_headers":
				hs, _ := a.Value.(string)
				for _, line := range strings.Split(hs, "\n") {
					if name, value, ok := strings.Cut(line, ":"); ok && strings.EqualFold(strings.TrimSpace(name), hdr) {
						sent = strings.TrimSpace(value)
					}
				}
			}
		}
		if v.Admit {
			v.Status = 0
			if sent != s.Group {
				return nil, fmt.Errorf("VERIF-INFRA: request %d was sent on with %s: %q, the account in turn carries %q", i, hdr, sent, s.Group)
			}
		}
		out[i] = []verdict{v}
	}
	return out, nil
}

func TestThrottlingBehindAccountOrchestration(t *testing.T) {
	r := ev.New(t, "C09")
	rapid.Check(t, func(t *rapid.T) {
		c := chainCase(genCase(t, genOpts{maxSteps: 40, onGrid: true, forceAlloc: true, minRem: 1}))
		if len(c.Steps) == 0 {
			t.Skip("no request of the first remedy")
		}
		level := loglevel.Gen().Draw(t, "log level")
		r.Class("log level " + level)
		defer loglevel.Set(level)()
		r.Case()
		obs, err := runChain(c)
		if err != nil {
			if strings.HasPrefix(err.Error(), "VERIF-INFRA:") {
				fmt.Println(err.Error())
				t.Fatalf("%v", err)
			}
			t.Fatalf("%s", r.Fail(caseRepr(c, nil, nil), "%v", err))
		}
		js := &judgeStats{classes: map[string]int64{}}
		fs := judge(c, obs, js)
		flushClasses(r, c, js)
		if js.nt {
			r.NonTrivial("chain/"+ev.JSON(c), func() any { return map[string]any{"chain": "account_orchestration -> strategy_based_throttling", "case": c} })
		}
		for i := range fs {
			f := fs[i]
			if f.F1 && r.KnownFinding("C09-F1", func() any { return map[string]any{"case": c, "step": f.Step, "what": f.Msg} }) {
				continue
			}
			m := caseRepr(c, obs, &f)
			m["chain"] = "account_orchestration (round robin, one account per request) -> strategy_based_throttling grouped by the accounts' token header"
			t.Fatalf("%s", r.Fail(m, "step %d: %s", f.Step, f.Msg))
		}
	})
}
