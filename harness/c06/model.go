// Package c06 — queued requests: one verdict within TTL, priority order, bounded queue.
//
// This file holds the two independent models of the check:
//
//   - windowOracle: the statement-level reading of "allowed only when the
//     attached quota admits it" (is there ANY fixed-window limiter of max/window
//     that could have produced this admission history?),
//   - mirror: a step-by-step replica of what the gateway does today (quota consulted
//     for the head of the heap only, heap ordered by (priority, enqueue stamp), blocked head
//     re-enqueued). The mirror decides nothing about right or wrong: it only
//     tells the controller which verdicts a tick must have signalled (so the
//     controller waits for exactly those and never sleeps), and its two variants
//     (head re-stamped / head keeps its stamp) are the defect model behind C06-F1.
package c06

import (
	"fmt"
	"sort"
	"time"
)

// ---- statement-level quota oracle -------------------------------------------------
//
// The quota is "max admissions per window of length W". Windows start lazily at
// an instant where the quota is consulted; the gateway consults it when a
// request arrives and on processing ticks while somebody waits (candidates). The
// stored window start may have one-second resolution. An admission history is
// accepted iff admissions can be assigned to consecutive windows such that
//
//	every window starts at a candidate instant s and holds <= max admissions, all
//	inside [s, s+W); the next window starts at s' >= floor_1s(s)+W and not before
//	the last admission counted in the previous window.
//
// This is deliberately the most permissive reading (it mixes both resolutions).

type wstate struct {
	s int64 // window start (unix ns), -1: no window yet
	c int   // admissions counted in it
}

type windowOracle struct {
	max     int
	w       time.Duration
	cands   []int64
	states  map[wstate]bool
	lastAdm int64
}

func newWindowOracle(max int, w time.Duration) *windowOracle {
	return &windowOracle{max: max, w: w, states: map[wstate]bool{{-1, 0}: true}, lastAdm: -1 << 62}
}

// candidate records an instant at which the gateway may consult the quota.
func (o *windowOracle) candidate(t time.Time) {
	n := t.UnixNano()
	if len(o.cands) == 0 || o.cands[len(o.cands)-1] != n {
		o.cands = append(o.cands, n)
	}
}

func floorSec(ns int64) int64 { return ns - ((ns%1e9)+1e9)%1e9 }

// admit records one admission at t; false means no fixed-window reading allows it.
func (o *windowOracle) admit(t time.Time) bool {
	n := t.UnixNano()
	next := map[wstate]bool{}
	for st := range o.states {
		if st.s >= 0 && n < st.s+int64(o.w) && st.c < o.max {
			next[wstate{st.s, st.c + 1}] = true
		}
		lo := o.lastAdm
		if st.s >= 0 {
			if e := floorSec(st.s) + int64(o.w); e > lo {
				lo = e
			}
		}
		for _, c := range o.cands {
			if c >= lo && c <= n && c > st.s {
				next[wstate{c, 1}] = true
			}
		}
	}
	o.lastAdm = n
	if len(next) == 0 {
		return false
	}
	o.states = next
	return true
}

// ---- mirror of today's implementation ------------------------------------------------

type hent struct {
	id    string
	prio  int
	stamp int64
}

type mirror struct {
	name    string
	restamp bool // a blocked head is re-enqueued with a fresh stamp (today's behaviour)
	max     int
	size    int
	w       time.Duration

	// quota (one group): window start kept with one-second resolution, slot reserved per request id
	hasStart bool
	start    time.Time
	count    int
	resv     map[string]bool

	heap     []hent
	stampSeq int64
	orig     map[string]int64

	inMap     map[string]bool // the watcher's map: registered and not yet removed
	processed map[string]bool // verdict already signalled
	watch     int             // the watcher's counter

	alive  bool
	why    string
	slotOK bool // every accept/refuse decision so far agreed with "count < size at check time"

	pred []string // admissions predicted for the tick in progress
}

func newMirror(name string, restamp bool, c config) *mirror {
	return &mirror{name: name, restamp: restamp, max: c.Max, size: c.Size, w: c.window(),
		resv: map[string]bool{}, orig: map[string]int64{}, inMap: map[string]bool{}, processed: map[string]bool{},
		alive: true, slotOK: true}
}

// inc mirrors quota.Inc: a request id that already holds an entry is not counted again.
func (m *mirror) inc(id string, now time.Time) {
	if _, found := m.resv[id]; found {
		return
	}
	m.resv[id] = false
	ws := now
	if m.hasStart {
		ws = m.start
	}
	restarted := false
	cur := m.count
	if now.Sub(ws) >= m.w {
		ws, restarted, cur = now, true, 0
	}
	cur++
	if cur > m.max {
		if restarted {
			m.resv = map[string]bool{}
		}
		return
	}
	m.hasStart, m.start, m.count = true, time.Unix(ws.Unix(), 0), cur
	if restarted {
		m.resv = map[string]bool{}
	}
	m.resv[id] = true
}

func (m *mirror) takeAllowed(id string) bool {
	v := m.resv[id]
	delete(m.resv, id)
	return v
}

// arrival: the quota's system flow (QuotaProcessorInc) has its logic switched off for a quota
// that a processor references (Stream.disableQuotaProcessorLogic), so an arriving request does
// not touch the quota; it is consulted only by the processing loop for the head of the heap.
func (m *mirror) arrival(id string, now time.Time) {}

// slotFree mirrors the local size check.
func (m *mirror) slotFree() bool { return m.watch < m.size }

func (m *mirror) push(e hent) { m.heap = append(m.heap, e) }

func (m *mirror) popBest() hent {
	bi := 0
	for i, e := range m.heap {
		b := m.heap[bi]
		if e.prio < b.prio || (e.prio == b.prio && e.stamp < b.stamp) {
			bi = i
		}
	}
	e := m.heap[bi]
	m.heap = append(m.heap[:bi], m.heap[bi+1:]...)
	return e
}

func (m *mirror) register(id string, prio int) {
	m.watch++
	m.inMap[id] = true
	m.stampSeq++
	m.orig[id] = m.stampSeq
	m.push(hent{id, prio, m.stampSeq})
}

// tick mirrors tryProcessQueueItems.
func (m *mirror) tick(now time.Time) []string {
	admitted := []string{}
	for len(m.heap) > 0 {
		e := m.popBest()
		if !m.inMap[e.id] || m.processed[e.id] {
			continue
		}
		m.inc(e.id, now)
		if !m.takeAllowed(e.id) {
			st := m.orig[e.id]
			if m.restamp {
				m.stampSeq++
				st = m.stampSeq
			}
			m.push(hent{e.id, e.prio, st})
			return admitted
		}
		m.processed[e.id] = true
		admitted = append(admitted, e.id)
	}
	return admitted
}

// drained mirrors StopAll: every request still in the watcher's map is signalled.
func (m *mirror) drained() (released []string, twice []string) {
	for id := range m.inMap {
		if m.processed[id] {
			twice = append(twice, id)
		} else {
			released = append(released, id)
			m.processed[id] = true
		}
	}
	sort.Strings(released)
	sort.Strings(twice)
	return
}

func (m *mirror) remove(id string) {
	if m.inMap[id] {
		m.watch--
	}
	delete(m.inMap, id)
	delete(m.processed, id)
	for i, e := range m.heap {
		if e.id == id {
			m.heap = append(m.heap[:i], m.heap[i+1:]...)
			break
		}
	}
}

// headOrder renders the heap best-first (debugging aid for traces).
func (m *mirror) headOrder() string {
	h := append([]hent{}, m.heap...)
	sort.Slice(h, func(i, j int) bool {
		if h[i].prio != h[j].prio {
			return h[i].prio < h[j].prio
		}
		return h[i].stamp < h[j].stamp
	})
	s := ""
	for _, e := range h {
		s += fmt.Sprintf(" %s(p%d,#%d)", e.id, e.prio, e.stamp)
	}
	return s
}

func sameSet(a, b []string) bool {
	if len(a) != len(b) {
		return false
	}
	x := append([]string{}, a...)
	y := append([]string{}, b...)
	sort.Strings(x)
	sort.Strings(y)
	for i := range x {
		if x[i] != y[i] {
			return false
		}
	}
	return true
}

func subset(a []string, of map[string]bool) bool {
	for _, s := range a {
		if !of[s] {
			return false
		}
	}
	return true
}

// tickIncFails: a pass in which the quota store fails the increment for the first request the loop tries: the request
// is not counted, is found "not allowed", goes back into the queue (with a new stamp in the re-stamping variant) and
// the pass ends - nobody is admitted.
func (m *mirror) tickIncFails() []string {
	for len(m.heap) > 0 {
		e := m.popBest()
		if !m.inMap[e.id] || m.processed[e.id] {
			continue
		}
		st := m.orig[e.id]
		if m.restamp {
			m.stampSeq++
			st = m.stampSeq
		}
		m.push(hent{e.id, e.prio, st})
		return []string{}
	}
	return []string{}
}
