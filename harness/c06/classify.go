package c06

// Classifiers of the listed known findings. A violation of the statement is
// attributed to a finding only if (a) the case has the structural shape the
// finding describes and (b) the defect model (the mirror variant that
// reproduces exactly the defective behaviour) agreed with the implementation
// on the whole case so far. Everything else stays a violation.

// isEqualPriorityRestamp — C06-F1: a was allowed while w (same priority, registered before a
// even started to arrive) kept waiting. Defect model: the processing loop pops the head, and
// when the quota blocks it, puts it back with a FRESH enqueue stamp, so among equal priorities
// the blocked head moves behind everybody who arrived later ("restamp" mirror); the model that
// keeps the original stamp ("keepstamp") predicts the order the statement asks for.
func (x *executor) isEqualPriorityRestamp(a, w *rq) bool {
	if a.P != w.P || w.regSeq == 0 || w.regSeq >= a.startSeq {
		return false
	}
	// structural: a has been a waiter during at least one tick that ended blocked (w waited then too)
	if a.blockedTicks < 1 {
		return false
	}
	rs, ks := x.mirror("restamp"), x.mirror("keepstamp")
	return rs != nil && rs.alive && ks != nil && !ks.alive
}

// isSlotCheckRace — C06-F2: more than queue_size requests wait. Defect model: the size check
// reads a counter that is only incremented later by the registration (check-then-act); a request
// that registers between another request's check and registration is not seen by it.
func (x *executor) isSlotCheckRace() bool {
	x.syncRegistrations()
	rs := x.mirror("restamp")
	if rs == nil || !rs.slotOK || rs.watch <= x.sc.Config.Size {
		return false
	}
	in := []*rq{}
	x.w.locked(func() {
		for _, r := range x.order {
			if r.registered && len(r.verdicts) == 0 {
				in = append(in, r)
			}
		}
	})
	for i, a := range in {
		for _, b := range in[i+1:] {
			// the two [slot check, registration] intervals overlap
			if a.regSeq != 0 && b.regSeq != 0 && a.checkSeq < b.regSeq && b.checkSeq < a.regSeq {
				return true
			}
		}
	}
	return false
}

// isDrainMeetsVerdicted — C06-F3 is a structural predicate on the schedule alone (report.Crasher):
// the draining tick runs while the clean-up goroutine of a request that already has its verdict is
// held before the removal. Defect model: StopAll signals every request still in the watcher's map,
// whatever its state; the second WaitGroup.Done panics inside the processing goroutine.
