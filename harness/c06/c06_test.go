// C06 — queued requests: one verdict within TTL, priority order, bounded queue.
//
// A generated case is a queue configuration plus a schedule of controller
// actions (arrive / tick / release a goroutine held at a yield point / shut
// down). The real engine is loaded from YAML; the 100 ms processing loop runs on
// a harness-owned virtual clock and is driven tick by tick with a hand-shake;
// request goroutines are held at the hook points of the queue processor to force
// interleavings. The oracle is the statement: one verdict per request, admitted
// only when a fixed-window reading of the quota admits it, no admitted request
// while a strictly better (priority, arrival) one keeps waiting,
// registered-verdicted <= queue_size at every event, shutdown releases everybody
// and the process survives.
package c06

import (
	"context"
	"encoding/json"
	"fmt"
	"os"
	"os/exec"
	"runtime"
	"sort"
	"strings"
	"sync"
	"sync/atomic"
	"testing"
	"time"

	context_manager "lunar/toolkit-core/context-manager"
	"lunar/toolkit-core/verifhook"

	"pgregory.net/rapid"

	"verif/harness/internal/engine"
	"verif/harness/internal/ev"
	"verif/harness/internal/loglevel"
	"verif/harness/internal/vclock"
)

const (
	loopOwner = "queueProcessor).process"
	tickStep  = 100 * time.Millisecond
	baseUnix  = 1_700_000_000
	// real-time guards: they only turn a hang into "inconclusive" (or, for a waiter that is
	// never released, into the violation the statement names); they never decide an order.
	guard       = 5 * time.Second
	releaseWait = 10 * time.Second
	grace       = 150 * time.Millisecond
)

// ---- generated case ---------------------------------------------------------------------

type config struct {
	Max     int `json:"quota_max"`
	WindowS int `json:"window_s"`
	Size    int `json:"queue_size"`
	StartMs int `json:"start_ms"` // offset of the first instant inside its second
	TTL     int `json:"ttl_s"`
}

func (c config) window() time.Duration { return time.Duration(c.WindowS) * time.Second }

type step struct {
	Op         string `json:"op"`                    // arrive | tick | release | remove
	Prio       string `json:"prio,omitempty"`        // arrive: value of x-prio ("" = header absent)
	Hold       bool   `json:"hold,omitempty"`        // arrive: hold it between slot check and registration
	HoldLate   bool   `json:"hold_late,omitempty"`   // ... at the later yield point: after the watch-list registration, before the enqueue
	HoldRemove bool   `json:"hold_remove,omitempty"` // arrive: hold its clean-up goroutine before the removal
	// HoldWait (arrive): the request's goroutine is held after its registration and before it starts to wait for
	// its verdict, until the next tick (or the shutdown) has been processed: a verdict issued meanwhile must reach it
	HoldWait bool `json:"hold_before_wait,omitempty"`
	// Retry (arrive): the transaction carries the id of an earlier request of the case that was allowed, has
	// returned and whose clean-up has finished (a retried call re-sends x-lunar-req-id); none such: a fresh id
	Retry bool `json:"retry_with_the_id_of_an_allowed_request,omitempty"`
	N     int  `json:"n,omitempty"` // tick: how many; release/remove: which held goroutine
	// IncFails (tick): in the first of the ticks the quota store fails the increment for the request the loop tries
	// (fault point queue.quota-inc, hook ec5ca4b; the in-memory state never fails, a shared store can): nobody is
	// admitted in that tick, and the request keeps its place - it is still the one the next tick tries first
	IncFails bool `json:"quota_increment_fails,omitempty"`
}

type sched struct {
	Config   config `json:"config"`
	Steps    []step `json:"steps"`
	Tail     []step `json:"after_cancel,omitempty"` // arrivals between context cancellation and the draining tick
	KeepHeld bool   `json:"keep_removals_held_at_shutdown,omitempty"`
	// LogLevel: the gateway's log level (LOG_LEVEL), output discarded; "" / "off" = logging disabled
	LogLevel string `json:"log_level,omitempty"`
}

var prioOf = map[string]int{"High": 1, "mid": 2, "low": 3}

func prioNum(name string) int {
	if p, ok := prioOf[name]; ok {
		return p
	}
	return noGroup // header absent or unknown group
}

const noGroup = 999

func quotaYAML(c config, unit string) string {
	return fmt.Sprintf(`quotas:
  - id: QQ
    filter:
      url: "h.com/*"
    strategy:
      fixed_window:
        max: %d
        interval: %d
        interval_unit: %s
`, c.Max, c.WindowS, unit)
}

func flowYAML(c config) string {
	return fmt.Sprintf(`name: qflow
filter:
  url: "h.com/q"
processors:
  Queue0:
    processor: Queue
    parameters:
      - key: quota_id
        value: QQ
      - key: ttl_seconds
        value: %d
      - key: queue_size
        value: %d
      - key: priority_group_by_header
        value: x-prio
      - key: priority_groups
        value:
          High: 1
          mid: 2
          low: 3
  Gen0:
    processor: GenerateResponse
    parameters:
      - key: status
        value: 429
      - key: body
        value: Too Many Requests
      - key: Content-Type
        value: text/plain
flow:
  request:
    - from:
        stream:
          name: globalStream
          at: start
      to:
        processor:
          name: Queue0
    - from:
        processor:
          name: Queue0
          condition: blocked
      to:
        processor:
          name: Gen0
    - from:
        processor:
          name: Queue0
          condition: allowed
      to:
        stream:
          name: globalStream
          at: end
  response:
    - from:
        processor:
          name: Gen0
      to:
        stream:
          name: globalStream
          at: end
    - from:
        stream:
          name: globalStream
          at: start
      to:
        stream:
          name: globalStream
          at: end
`, c.TTL, c.Size)
}

// ---- the world shared with the hook handlers -----------------------------------------------

type rq struct {
	ID         string
	txid       string
	PrioName   string
	P          int
	hold       bool
	holdLate   bool // hold at queue.between-watch-and-enqueue instead of queue.slot-checked
	holdRemove bool
	holdWait   bool // hold at queue.registered-before-wait until the controller has processed the next tick

	atWait, waitReleased       bool
	startSeq, checkSeq, regSeq int
	arrivedAt                  time.Time

	atSlot, slotReleased  bool
	registered            bool
	verdicts              []bool
	returned              bool
	res                   engine.Result
	atRemove, remReleased bool

	overtakes    bool // arrived with a better priority while a worse request had already been blocked at the head
	handled      bool // the controller has processed its verdict
	removed      bool
	blockedTicks int       // ticks survived as a waiter while the tick ended blocked
	t0, t1       time.Time // real instants (TTL unit only)
}

type logEv struct{ Kind, ID string }

type world struct {
	mu   sync.Mutex
	cond *sync.Cond
	reqs map[string]*rq
	log  []logEv
}

func newWorld() *world {
	w := &world{reqs: map[string]*rq{}}
	w.cond = sync.NewCond(&w.mu)
	return w
}

var cur atomic.Pointer[world]

func installHooks() {
	verifhook.SetEvent(func(kind string, a, b, c, d string) {
		if kind != "queue.registered" && kind != "queue.verdict" {
			return
		}
		w := cur.Load()
		if w == nil {
			return
		}
		w.mu.Lock()
		if r := w.reqs[b]; r != nil {
			if kind == "queue.registered" {
				r.registered = true
			} else {
				r.verdicts = append(r.verdicts, c == "true")
			}
			w.log = append(w.log, logEv{kind, r.ID})
			w.cond.Broadcast()
		}
		w.mu.Unlock()
	})
	verifhook.SetFault(func(point, _ string) error {
		if point == "queue.quota-inc" && incFaultArmed.CompareAndSwap(true, false) {
			return fmt.Errorf("verif: the quota store failed the increment")
		}
		return nil
	})
	verifhook.SetYield(func(point string, id string) {
		if strings.HasPrefix(point, "state.") {
			// operations of the shared state: only the real-clock unit's slow store holds anybody there
			if h := ttlHold.Load(); h != nil && strings.HasPrefix(point, "state.before:") {
				h.maybeHold()
			}
			return
		}
		w := cur.Load()
		if w == nil {
			return
		}
		w.mu.Lock()
		defer w.mu.Unlock()
		r := w.reqs[id]
		if r == nil {
			return
		}
		switch point {
		case "queue.slot-checked", "queue.between-watch-and-enqueue":
			// one hold point per arrival; both lie inside the slot mutex and before the request is in the
			// queue, so the rest of the controller treats them alike ("passed the slot check, not registered")
			if (point == "queue.between-watch-and-enqueue") != r.holdLate {
				return
			}
			r.atSlot = true
			w.cond.Broadcast()
			for r.hold && !r.slotReleased {
				w.cond.Wait()
			}
		case "queue.registered-before-wait":
			if r.holdWait {
				r.atWait = true
				w.cond.Broadcast()
				for !r.waitReleased {
					w.cond.Wait()
				}
			}
		case "queue.before-remove":
			r.atRemove = true
			w.cond.Broadcast()
			for r.holdRemove && !r.remReleased {
				w.cond.Wait()
			}
		}
	})
}

// wait blocks until pred (evaluated under the world lock) holds or the guard passes.
func (w *world) wait(timeout time.Duration, pred func() bool) bool {
	deadline := time.Now().Add(timeout)
	tm := time.AfterFunc(timeout+5*time.Millisecond, func() { w.mu.Lock(); w.cond.Broadcast(); w.mu.Unlock() })
	defer tm.Stop()
	w.mu.Lock()
	defer w.mu.Unlock()
	for !pred() {
		if time.Now().After(deadline) {
			return false
		}
		w.cond.Wait()
	}
	return true
}

func (w *world) locked(f func()) { w.mu.Lock(); f(); w.mu.Unlock() }

// ---- goroutine dump: is a clean-up goroutine / the processing loop still running? -----------

func countGoroutines(match func(block string) bool) int {
	buf := make([]byte, 1<<18)
	for {
		n := runtime.Stack(buf, true)
		if n < len(buf) {
			buf = buf[:n]
			break
		}
		buf = make([]byte, 2*len(buf))
	}
	k := 0
	for _, blk := range strings.Split(string(buf), "\n\n") {
		if match(blk) {
			k++
		}
	}
	return k
}

// isRemoval: the goroutine started by `go p.removeRequest(id)` (running, or created and not yet run).
func isRemoval(blk string) bool {
	if strings.Contains(blk, "queueProcessor).removeRequest") {
		return true
	}
	if i := strings.Index(blk, "created by "); i >= 0 {
		return strings.Contains(blk[i:], "queueProcessor).enqueue")
	}
	return false
}

// isParkedAtSlotCheck: an arriving goroutine (not one we hold in our handler) is parked on a lock inside
// the slot check. Judged by the goroutine's wait state in the header line, not by frames alone (a
// goroutine that merely passes through an uncontended Lock shows the same frames while running).
func isParkedAtSlotCheck(blk string) bool {
	nl := strings.IndexByte(blk, '\n')
	if nl < 0 {
		return false
	}
	head := blk[:nl]
	if !(strings.Contains(head, "[sync.Mutex.Lock") || strings.Contains(head, "[sync.RWMutex.Lock") || strings.Contains(head, "[semacquire")) {
		return false
	}
	return strings.Contains(blk, "queueProcessor).enqueueIfSlotAvailable") && !strings.Contains(blk, "c06.installHooks")
}

func isLoop(blk string) bool { return strings.Contains(blk, "queueProcessor).process(") }

func pollUntil(timeout time.Duration, cond func() bool) bool {
	deadline := time.Now().Add(timeout)
	for i := 0; ; i++ {
		if cond() {
			return true
		}
		if time.Now().After(deadline) {
			return false
		}
		if i < 20 {
			runtime.Gosched()
		} else {
			time.Sleep(200 * time.Microsecond)
		}
	}
}

// ---- report -------------------------------------------------------------------------------

type finding struct {
	ID   string `json:"id"`
	Msg  string `json:"msg"`
	Step int    `json:"step"`
}

type report struct {
	Infra        string    `json:"infra,omitempty"`
	Inconclusive string    `json:"inconclusive,omitempty"`
	Violation    string    `json:"violation,omitempty"`
	Findings     []finding `json:"findings,omitempty"` // violations that a defect model explains
	Classes      []string  `json:"classes,omitempty"`
	NonTrivial   bool      `json:"nontrivial,omitempty"`
	Crasher      bool      `json:"crasher,omitempty"` // the schedule satisfies the structural predicate of C06-F3
	Trace        []string  `json:"trace,omitempty"`
}

type failCase struct {
	Schedule sched    `json:"schedule"`
	Trace    []string `json:"trace,omitempty"`
}

// ---- executing one schedule -----------------------------------------------------------------

type execOpts struct {
	raw bool // child mode: really drain while clean-up goroutines are held (may kill the process)
}

type executor struct {
	sc      sched
	opts    execOpts
	clk     *vclock.Clock
	w       *world
	run     func(engine.Txn) engine.Result
	cancel  context.CancelFunc
	mirrors []*mirror
	or      *windowOracle
	rep     *report
	caseID  int64
	seq     int
	order   []*rq // arrival order
	stepNo  int

	baseRemovals, baseLoops int
	logPos, regN, verN      int
	overshootReported       bool
	cancelled               bool
	byID                    map[string]*rq
	regPos                  int       // registrations of the event log already replayed into the mirrors
	prevTick                time.Time // instant and controller sequence number of the previous tick
	prevTickSeq             int
	classes                 map[string]bool
}

var caseCounter, childSurvivals atomic.Int64
var scratch string

func (x *executor) tracef(format string, a ...any) {
	if len(x.rep.Trace) < 400 {
		x.rep.Trace = append(x.rep.Trace, fmt.Sprintf("[%d @+%v] ", x.stepNo, x.clk.Now().Sub(time.Unix(baseUnix, 0)))+fmt.Sprintf(format, a...))
	}
}

func (x *executor) class(c string) { x.classes[c] = true }

func (x *executor) alive() []*mirror {
	out := []*mirror{}
	for _, m := range x.mirrors {
		if m.alive {
			out = append(out, m)
		}
	}
	return out
}

func (x *executor) mirror(name string) *mirror {
	for _, m := range x.mirrors {
		if m.name == name {
			return m
		}
	}
	return nil
}

type stop struct{ kind, msg string } // kind: infra | inconclusive | violation

func (s *stop) Error() string { return s.kind + ": " + s.msg }

func inconclusive(format string, a ...any) error {
	return &stop{"inconclusive", fmt.Sprintf(format, a...)}
}
func violation(format string, a ...any) error { return &stop{"violation", fmt.Sprintf(format, a...)} }

// heldSlots / heldRemovals: goroutines currently parked in our yield handler, in arrival order.
func (x *executor) heldSlots() []*rq {
	out := []*rq{}
	x.w.locked(func() {
		for _, r := range x.order {
			if r.hold && r.atSlot && !r.slotReleased {
				out = append(out, r)
			}
		}
	})
	return out
}

func (x *executor) heldRemovals() []*rq {
	out := []*rq{}
	x.w.locked(func() {
		for _, r := range x.order {
			if r.holdRemove && r.atRemove && !r.remReleased {
				out = append(out, r)
			}
		}
	})
	return out
}

// waiting: registered, no verdict observed yet.
func (x *executor) waiting() []*rq {
	out := []*rq{}
	x.w.locked(func() {
		for _, r := range x.order {
			if r.registered && len(r.verdicts) == 0 {
				out = append(out, r)
			}
		}
	})
	return out
}

func ids(rs []*rq) []string {
	out := []string{}
	for _, r := range rs {
		out = append(out, r.ID)
	}
	return out
}

// scanLog applies the size bound to every prefix of the event log: registered - verdicted <= queue_size.
func (x *executor) scanLog() error {
	var over *logEv
	overBy := 0
	x.w.locked(func() {
		for ; x.logPos < len(x.w.log); x.logPos++ {
			e := x.w.log[x.logPos]
			if e.Kind == "queue.registered" {
				x.regN++
			} else {
				x.verN++
			}
			if x.regN-x.verN > x.sc.Config.Size && over == nil {
				ee := e
				over, overBy = &ee, x.regN-x.verN
			}
		}
	})
	if over == nil || x.overshootReported {
		return nil
	}
	x.overshootReported = true
	msg := fmt.Sprintf("%d requests wait at once (registered and without a verdict) after %s was registered; queue_size is %d", overBy, over.ID, x.sc.Config.Size)
	if x.isSlotCheckRace() {
		x.rep.Findings = append(x.rep.Findings, finding{"C06-F2", msg, x.stepNo})
		x.tracef("FINDING C06-F2: %s", msg)
		return nil
	}
	return violation("%s", msg)
}

// newVerdicts: ids with verdict events the controller has not processed yet.
func (x *executor) newVerdictsLocked() map[string]bool {
	nv := map[string]bool{}
	for _, r := range x.order {
		if len(r.verdicts) > 0 && !r.handled {
			nv[r.ID] = true
		}
	}
	return nv
}

// syncRegistrations replays new queue.registered events, in the order the gateway emitted them, into
// the mirrors (heap stamps follow the real enqueue order) and numbers them for the arrival order.
func (x *executor) syncRegistrations() {
	newIDs := []string{}
	x.w.locked(func() {
		for ; x.regPos < len(x.w.log); x.regPos++ {
			if e := x.w.log[x.regPos]; e.Kind == "queue.registered" {
				newIDs = append(newIDs, e.ID)
			}
		}
	})
	for _, id := range newIDs {
		r := x.byID[id]
		if r == nil || r.regSeq != 0 {
			continue
		}
		x.seq++
		r.regSeq = x.seq
		for _, m := range x.mirrors {
			m.register(id, r.P)
		}
	}
}

func (x *executor) arrive(st step) error {
	x.seq++
	// id: the name used in messages (deterministic per schedule); txid: unique in the process, so that a
	// goroutine left over from an earlier case can never be mistaken for one of this case
	id := fmt.Sprintf("r%d", len(x.order)+1)
	txid := fmt.Sprintf("c%d-%s", x.caseID, id)
	if st.Retry && x.removalsSettled() {
		var done *rq
		x.w.locked(func() {
			for _, o := range x.order {
				if o.returned && o.handled && o.removed && len(o.verdicts) == 1 && o.verdicts[0] && o.txid != "" {
					done = o
				}
			}
		})
		if done != nil {
			txid = done.txid
			done.txid = "" // an id is re-used once
			x.class("arrive:retry-with-the-id-of-an-allowed-request")
			x.rep.NonTrivial = true
		}
	}
	r := &rq{ID: id, txid: txid, PrioName: st.Prio, P: prioNum(st.Prio), hold: st.Hold, holdLate: st.HoldLate, holdRemove: st.HoldRemove, holdWait: st.HoldWait, startSeq: x.seq, checkSeq: x.seq, arrivedAt: x.clk.Now()}
	x.w.locked(func() { x.w.reqs[txid] = r })
	x.order = append(x.order, r)
	x.byID[id] = r
	x.or.candidate(r.arrivedAt)
	predFree := map[string]bool{}
	for _, m := range x.mirrors {
		m.arrival(id, r.arrivedAt)
		predFree[m.name] = m.slotFree()
	}
	h := map[string]string{"host": "h.com"}
	if st.Prio != "" {
		h["x-prio"] = st.Prio
	}
	tx := engine.Txn{ID: txid, Method: "GET", URL: "h.com/q", Path: "/q", Headers: h, Time: r.arrivedAt}
	go func() {
		res := x.run(tx)
		x.w.mu.Lock()
		r.returned, r.res = true, res
		x.w.cond.Broadcast()
		x.w.mu.Unlock()
	}()
	progressed := func() bool { return r.registered || r.returned || (r.hold && r.atSlot) }
	if others := x.heldSlotsExcept(r); len(others) > 0 {
		// an implementation that makes check+registration one critical section parks this arrival behind the
		// goroutine we hold inside it: give it a moment, then let the held ones go (we only lose the interleaving)
		var ok bool
		parkedSeen := 0
		pollUntil(guard, func() bool {
			x.w.locked(func() { ok = progressed() })
			if ok {
				return true
			}
			if countGoroutines(isParkedAtSlotCheck) > 0 {
				parkedSeen++ // confirmed on three consecutive looks
			} else {
				parkedSeen = 0
			}
			return parkedSeen >= 3
		})
		if !ok {
			x.class("arrive:serialised-behind-a-held-slot-check")
			for _, h := range others {
				if e := x.releaseSlot(h); e != nil {
					return e
				}
			}
			for _, m := range x.mirrors {
				predFree[m.name] = m.slotFree()
			}
		}
	}
	if !x.w.wait(guard, progressed) {
		return inconclusive("arrival %s neither registered nor returned nor reached the slot check", id)
	}
	var registered, returned, atSlot bool
	x.w.locked(func() { registered, returned, atSlot = r.registered, r.returned, r.atSlot })
	switch {
	case registered:
		for _, m := range x.mirrors {
			if !predFree[m.name] {
				m.slotOK = false
			}
		}
		x.syncRegistrations()
		x.class("arrive:registered")
		x.tracef("arrive %s prio=%q -> waits", id, st.Prio)
		for _, w := range x.waiting() {
			if w != r && w.blockedTicks > 0 && better(r, w) {
				x.class("arrive:better-priority-behind-a-blocked-head")
				r.overtakes = true
			}
		}
		if len(x.heldSlotsExcept(r)) > 0 {
			x.class("registered-while-another-is-between-check-and-registration")
			x.rep.NonTrivial = true
		}
	case atSlot && !returned:
		for _, m := range x.mirrors {
			if !predFree[m.name] {
				m.slotOK = false
			}
		}
		x.class("arrive:held-after-slot-check")
		x.tracef("arrive %s prio=%q -> passed the slot check, held before registration", id, st.Prio)
	default:
		// refused at once (queue full): must carry the 429
		for _, m := range x.mirrors {
			if predFree[m.name] {
				m.slotOK = false
			}
		}
		r.handled = true
		if e := x.checkResult(r, false); e != nil {
			return e
		}
		x.class("arrive:refused-full")
		x.tracef("arrive %s prio=%q -> refused (queue full)", id, st.Prio)
	}
	return x.scanLog()
}

func (x *executor) heldSlotsExcept(r *rq) []*rq {
	out := []*rq{}
	for _, h := range x.heldSlots() {
		if h != r {
			out = append(out, h)
		}
	}
	return out
}

// checkResult: `allowed` => the transaction continues without an early response; `blocked` => the 429.
func (x *executor) checkResult(r *rq, allowed bool) error {
	var res engine.Result
	x.w.locked(func() { res = r.res })
	if res.Err != nil {
		return violation("%s: ExecuteFlow returned an error: %v", r.ID, res.Err)
	}
	if allowed && res.Early != nil {
		return violation("%s: the queue said allowed but the transaction carries an early response (status %d)", r.ID, res.Early.Status)
	}
	if !allowed && (res.Early == nil || res.Early.Status != 429) {
		return violation("%s: the queue said blocked but the transaction does not carry the 429 response (actions %v)", r.ID, res.ReqKinds)
	}
	return nil
}

func (x *executor) releaseSlot(r *rq) error {
	x.w.locked(func() { r.slotReleased = true; x.w.cond.Broadcast() })
	if !x.w.wait(guard, func() bool { return r.registered || r.returned }) {
		return inconclusive("released %s did not register", r.ID)
	}
	var registered bool
	x.w.locked(func() { registered = r.registered })
	if registered {
		x.syncRegistrations()
		x.tracef("release %s -> registered", r.ID)
	} else {
		r.handled = true
		x.tracef("release %s -> returned without registering", r.ID)
	}
	return x.scanLog()
}

func (x *executor) removalsSettled() bool {
	// (re-read the held ones on every poll: a clean-up goroutine that is to be held may still be on its way to the hook)
	return pollUntil(guard, func() bool { return countGoroutines(isRemoval)-x.baseRemovals <= len(x.heldRemovals()) })
}

func (x *executor) releaseRemoval(r *rq) error {
	x.w.locked(func() { r.remReleased = true; x.w.cond.Broadcast() })
	if !x.removalsSettled() {
		return inconclusive("clean-up goroutine of %s did not finish", r.ID)
	}
	r.removed = true
	for _, m := range x.mirrors {
		m.remove(r.ID)
	}
	x.tracef("clean-up of %s released and finished", r.ID)
	return nil
}

// finishVerdict: the request goroutine returns, its clean-up goroutine shows up at the hook and
// (unless held) finishes. Everything is a hand-shake; the guards only bound a hang.
func (x *executor) finishVerdict(r *rq, allowed bool) error {
	r.handled = true
	if !x.w.wait(guard, func() bool { return r.returned }) {
		return violation("%s got the verdict event but its ExecuteFlow call did not return within %v", r.ID, guard)
	}
	if e := x.checkResult(r, allowed); e != nil {
		return e
	}
	if !x.w.wait(guard, func() bool { return r.atRemove }) {
		return inconclusive("clean-up goroutine of %s never reached the hook", r.ID)
	}
	if r.holdRemove {
		x.class("clean-up-held")
		x.tracef("clean-up of %s held before removal", r.ID)
		return nil
	}
	if !x.removalsSettled() {
		return inconclusive("clean-up goroutine of %s did not finish", r.ID)
	}
	r.removed = true
	for _, m := range x.mirrors {
		m.remove(r.ID)
	}
	return nil
}

func better(w, a *rq) bool {
	// which priority a request without a (known) group gets is not part of the statement (the code says
	// 999, its comment says 0): such a request is never compared with a request of a configured group
	if (w.P == noGroup) != (a.P == noGroup) {
		return false
	}
	if w.P != a.P {
		return w.P < a.P
	}
	// within one priority: w arrived (was registered) before a even started to arrive
	return w.regSeq != 0 && w.regSeq < a.startSeq
}

// observeTick evaluates what one pass of the processing loop did. before = the waiters when the
// tick fired; preds were computed by the mirrors for this instant.
func (x *executor) observeTick(now time.Time, before []*rq, draining bool) error {
	// which verdicts must have been signalled? wait for exactly those (or for a surprise)
	union := map[string]bool{}
	for _, m := range x.alive() {
		for _, id := range m.pred {
			union[id] = true
		}
	}
	matched := x.w.wait(guard, func() bool {
		nv := x.newVerdictsLocked()
		for id := range nv {
			if !union[id] {
				return true
			}
		}
		for _, m := range x.alive() {
			if subset(m.pred, nv) {
				return true
			}
		}
		return len(x.alive()) == 0
	})
	var nv map[string]bool
	x.w.locked(func() { nv = x.newVerdictsLocked() })
	surprise := !matched
	for id := range nv {
		if !union[id] {
			surprise = true
		}
	}
	if surprise {
		// the implementation left the mirror: give stragglers of this pass time to show up, then judge
		// the observation by the statement alone
		time.Sleep(grace)
		x.w.locked(func() { nv = x.newVerdictsLocked() })
		x.class("tick:mirror-surprised")
	}
	admitted, rejected := []*rq{}, []*rq{}
	for _, r := range x.order {
		if !nv[r.ID] {
			continue
		}
		var vs []bool
		x.w.locked(func() { vs = append(vs, r.verdicts...) })
		if len(vs) > 1 {
			return violation("%s got %d verdicts", r.ID, len(vs))
		}
		if vs[0] {
			admitted = append(admitted, r)
		} else {
			rejected = append(rejected, r)
		}
	}
	for _, m := range x.alive() {
		want := m.pred
		okm := sameSet(want, ids(admitted))
		if draining {
			okm = len(admitted) == 0
		} else if len(rejected) > 0 {
			okm = false
		}
		if !okm {
			x.tracef("mirror %s leaves: predicted %v; heap%s", m.name, want, m.headOrder())
			m.alive = false
			m.why = fmt.Sprintf("step %d: predicted admissions %v, observed %v (rejected %v)", x.stepNo, want, ids(admitted), ids(rejected))
		}
	}
	if len(admitted)+len(rejected) > 0 || len(before) > 0 {
		x.tracef("tick: waiting %v -> admitted %v rejected %v", ids(before), ids(admitted), ids(rejected))
	}
	// --- the statement ---
	isOut := map[string]bool{}
	for _, r := range append(append([]*rq{}, admitted...), rejected...) {
		isOut[r.ID] = true
	}
	after := []*rq{}
	for _, r := range before {
		if !isOut[r.ID] {
			after = append(after, r)
		}
	}
	for _, a := range admitted {
		if a.overtakes {
			x.class("tick:late-better-priority-admitted-first")
		}
		if a.blockedTicks > 0 && len(after) > 0 {
			x.class("tick:window-reopens-with-several-waiters")
		}
	}
	// a verdict that was signalled by an earlier pass but observed only now (possible only when the
	// implementation left the mirrors): judge it at the earlier instant and against the waiters of then
	inBefore := map[string]bool{}
	for _, r := range before {
		inBefore[r.ID] = true
	}
	stray := func(a *rq) bool { return !inBefore[a.ID] && !x.prevTick.IsZero() }
	for _, a := range admitted {
		at := now
		if stray(a) && x.prevTick.UnixNano() >= x.or.lastAdm {
			at = x.prevTick
		}
		if !x.or.admit(at) {
			return violation("%s was allowed at +%v although no fixed-window reading of the quota (max %d per %ds) admits it: admissions so far exceed every possible window", a.ID, at.Sub(time.Unix(baseUnix, 0)), x.sc.Config.Max, x.sc.Config.WindowS)
		}
	}
	for _, a := range admitted {
		for _, w := range after {
			if !better(w, a) || (stray(a) && w.regSeq >= x.prevTickSeq) {
				continue
			}
			msg := fmt.Sprintf("%s (priority %d, arrived at controller step #%d) was allowed while %s (priority %d, registered at controller step #%d) was still waiting", a.ID, a.P, a.startSeq, w.ID, w.P, w.regSeq)
			if x.isEqualPriorityRestamp(a, w) {
				x.rep.Findings = append(x.rep.Findings, finding{"C06-F1", msg, x.stepNo})
				x.tracef("FINDING C06-F1: %s", msg)
				continue
			}
			return violation("%s", msg)
		}
	}
	if len(before) >= 2 && len(after) >= 1 && !draining {
		distinct := false
		for _, r := range before[1:] {
			if r.P != before[0].P || r.startSeq != before[0].startSeq {
				distinct = true
			}
		}
		if distinct {
			x.rep.NonTrivial = true
			if len(admitted) > 0 {
				x.class("tick:admits-some-of-several-waiters")
			} else {
				x.class("tick:blocked-with-several-waiters")
			}
		}
	}
	if len(after) > 0 {
		for _, r := range after {
			r.blockedTicks++
		}
	}
	for _, r := range admitted {
		if e := x.finishVerdict(r, true); e != nil {
			return e
		}
	}
	for _, r := range rejected {
		if e := x.finishVerdict(r, false); e != nil {
			return e
		}
	}
	if e := x.scanLog(); e != nil {
		return e
	}
	if len(x.alive()) == 0 && !draining {
		why := []string{}
		for _, m := range x.mirrors {
			why = append(why, m.name+": "+m.why)
		}
		return inconclusive("the implementation left both mirrors without violating the statement (%s)", strings.Join(why, " | "))
	}
	return nil
}

// releaseWaits lets the request goroutines that are held between their registration and their wait go on.
func (x *executor) releaseWaits() {
	x.w.locked(func() {
		for _, r := range x.order {
			if r.holdWait && !r.waitReleased {
				r.waitReleased = true
				if r.atWait {
					x.class("verdict-may-have-been-issued-before-the-request-waited")
				}
			}
		}
		x.w.cond.Broadcast()
	})
}

func (x *executor) tick() error { return x.tickWith(false) }

var incFaultArmed atomic.Bool

func (x *executor) tickWith(incFails bool) error {
	now := x.clk.Now().Add(tickStep)
	before := x.waiting()
	if len(before) > 0 {
		x.or.candidate(now)
	}
	if incFails {
		incFaultArmed.Store(true)
		defer incFaultArmed.Store(false)
		x.class("tick:quota increment fails for the request the loop tries")
	}
	for _, m := range x.alive() {
		if incFails {
			m.pred = m.tickIncFails()
		} else {
			m.pred = m.tick(now)
		}
	}
	x.seq++
	tickSeq := x.seq
	if _, err := x.clk.AdvanceSettle(tickStep, loopOwner); err != nil {
		return inconclusive("%v", err)
	}
	x.releaseWaits()
	err := x.observeTick(now, before, false)
	x.prevTick, x.prevTickSeq = now, tickSeq
	return err
}

// shutdown: cancel the context, optional late arrivals, one more tick (the loop drains and ends),
// everybody must come back, the process must survive.
func (x *executor) shutdown() error {
	// goroutines between slot check and registration register first (they become waiters)
	for _, r := range x.heldSlots() {
		if e := x.releaseSlot(r); e != nil {
			return e
		}
	}
	x.cancel()
	x.cancelled = true
	x.tracef("context cancelled")
	for _, st := range x.sc.Tail {
		x.stepNo++
		if e := x.arrive(step{Op: "arrive", Prio: st.Prio}); e != nil {
			return e
		}
		x.class("arrival-between-cancel-and-drain")
	}
	held := x.heldRemovals()
	if len(held) > 0 {
		if x.sc.KeepHeld {
			// structural predicate of C06-F3: the drain meets a request that already has its verdict
			x.rep.Crasher = true
		}
		if !(x.sc.KeepHeld && x.opts.raw) {
			for _, r := range held {
				if e := x.releaseRemoval(r); e != nil {
					return e
				}
			}
		}
	}
	before := x.waiting()
	if len(before) > 0 {
		x.class("shutdown:with-waiters")
		x.rep.NonTrivial = true
	} else {
		x.class("shutdown:idle")
	}
	now := x.clk.Now().Add(tickStep)
	if len(before) > 0 {
		x.or.candidate(now)
	}
	for _, m := range x.alive() {
		m.drained()
		m.pred = ids(before)
	}
	regs := x.clk.Registrations(loopOwner)
	x.clk.Advance(tickStep)
	// the loop has finished its pass when its goroutine is gone (or, on a changed tree, re-armed)
	if !pollUntil(guard, func() bool {
		return countGoroutines(isLoop)-x.baseLoops <= 0 || x.clk.Registrations(loopOwner) > regs
	}) {
		return inconclusive("the processing loop neither ended nor re-armed after the draining tick")
	}
	if countGoroutines(isLoop)-x.baseLoops > 0 {
		x.class("shutdown:loop-kept-running")
	}
	x.releaseWaits()
	// every waiter must be released now
	if !x.w.wait(releaseWait, func() bool {
		for _, r := range before {
			if len(r.verdicts) == 0 {
				return false
			}
		}
		return true
	}) {
		left := []string{}
		x.w.locked(func() {
			for _, r := range before {
				if len(r.verdicts) == 0 {
					left = append(left, r.ID)
				}
			}
		})
		return violation("shutdown did not release %v: the loop finished its draining pass, %v later they still wait", left, releaseWait)
	}
	// an `allowed` at the drain would be judged like any admission; the mirrors expect `blocked` for all
	if e := x.observeTick(now, before, true); e != nil {
		return e
	}
	for _, r := range x.heldRemovals() { // raw mode survived the drain
		if e := x.releaseRemoval(r); e != nil {
			return e
		}
	}
	// exactly one verdict each, nobody left behind
	for _, r := range x.order {
		var returned bool
		var nver int
		var reg bool
		x.w.locked(func() { returned, nver, reg = r.returned, len(r.verdicts), r.registered })
		if !returned {
			return violation("%s never returned from ExecuteFlow", r.ID)
		}
		if reg && nver != 1 {
			return violation("%s was registered and got %d verdicts", r.ID, nver)
		}
	}
	return nil
}

// abort releases everything so that no goroutine of this case stays parked. The drain is only
// issued once every request that already has its verdict is out of the watcher's map (otherwise the
// abort itself would run into C06-F3 and kill the worker); if that cannot be established the
// remaining goroutines are left parked (harmless, and accounted for by the base counters).
func (x *executor) abort() {
	x.w.locked(func() {
		for _, r := range x.order {
			r.slotReleased, r.remReleased, r.waitReleased = true, true, true
		}
		x.w.cond.Broadcast()
	})
	// released arrivals register (or return); verdicted requests return
	x.w.wait(2*time.Second, func() bool {
		for _, r := range x.order {
			if !(r.registered || r.returned) || (len(r.verdicts) > 0 && !r.returned) {
				return false
			}
		}
		return true
	})
	settled := pollUntil(2*time.Second, func() bool { return countGoroutines(isRemoval)-x.baseRemovals <= 0 })
	if !x.cancelled {
		x.cancel()
		x.cancelled = true
	}
	if !settled {
		return
	}
	x.clk.Advance(tickStep)
	x.w.wait(2*time.Second, func() bool {
		for _, r := range x.order {
			if !r.returned {
				return false
			}
		}
		return true
	})
	pollUntil(2*time.Second, func() bool { return countGoroutines(isRemoval)-x.baseRemovals <= 0 })
}

func runSchedule(sc sched, opts execOpts) (rep report) {
	defer loglevel.Set(sc.LogLevel)()
	x := &executor{sc: sc, opts: opts, rep: &rep, classes: map[string]bool{}, byID: map[string]*rq{}, caseID: caseCounter.Add(1)}
	defer func() {
		for c := range x.classes {
			rep.Classes = append(rep.Classes, c)
		}
		sort.Strings(rep.Classes)
	}()
	x.clk = vclock.New(time.Unix(baseUnix, int64(sc.Config.StartMs)*1e6))
	engine.SetClock(x.clk)
	ctx, cancel := context.WithCancel(context.Background())
	x.cancel = cancel
	context_manager.Get().WithContext(ctx)
	x.w = newWorld()
	cur.Store(x.w)
	x.baseRemovals = countGoroutines(isRemoval)
	x.baseLoops = countGoroutines(isLoop)
	dir, e := engine.NewDir(scratch)
	if e != nil {
		rep.Infra = e.Error()
		return
	}
	defer dir.Remove()
	_ = dir.WriteQuota("q.yaml", quotaYAML(sc.Config, "second"))
	_ = dir.WriteFlow("f.yaml", flowYAML(sc.Config))
	s, e := dir.Load()
	if e != nil {
		cancel()
		rep.Infra = fmt.Sprintf("generated configuration was rejected: %v", e)
		return
	}
	x.run = func(t engine.Txn) engine.Result { return engine.RunRequest(s, t) }
	if e := x.clk.WaitRegistrations(loopOwner, 1); e != nil {
		cancel()
		rep.Infra = e.Error()
		return
	}
	x.mirrors = []*mirror{newMirror("restamp", true, sc.Config), newMirror("keepstamp", false, sc.Config)}
	x.or = newWindowOracle(sc.Config.Max, sc.Config.window())

	err := func() error {
		for i, st := range sc.Steps {
			x.stepNo = i
			switch st.Op {
			case "arrive":
				if e := x.arrive(st); e != nil {
					return e
				}
			case "tick":
				for k := 0; k < st.N; k++ {
					if e := x.tickWith(st.IncFails && k == 0); e != nil {
						return e
					}
				}
			case "release":
				if h := x.heldSlots(); len(h) > 0 {
					if e := x.releaseSlot(h[st.N%len(h)]); e != nil {
						return e
					}
				} else {
					x.class("noop-step")
				}
			case "remove":
				if h := x.heldRemovals(); len(h) > 0 {
					if e := x.releaseRemoval(h[st.N%len(h)]); e != nil {
						return e
					}
					x.class("clean-up-released-later")
				} else {
					x.class("noop-step")
				}
			}
		}
		x.stepNo = len(sc.Steps)
		return x.shutdown()
	}()
	if err != nil {
		st, _ := err.(*stop)
		switch {
		case st == nil:
			rep.Infra = err.Error()
		case st.kind == "violation":
			rep.Violation = st.msg
		case st.kind == "inconclusive":
			rep.Inconclusive = st.msg
		default:
			rep.Infra = st.msg
		}
		x.tracef("STOP %v", err)
		x.abort()
	}
	for _, m := range x.mirrors {
		if m.alive {
			x.class("mirror-alive:" + m.name)
		}
	}
	return
}

// ---- journal / isolated child -------------------------------------------------------------

func journal(v any) {
	if p := os.Getenv("VERIF_JOURNAL"); p != "" {
		b, _ := json.Marshal(map[string]any{"note": "the worker died while executing this schedule", "case": v})
		_ = os.WriteFile(p, b, 0o644)
	}
}

func clearJournal() {
	if p := os.Getenv("VERIF_JOURNAL"); p != "" {
		_ = os.Remove(p)
	}
}

// isolated runs the schedule raw (no exclusion) in a fresh copy of this test binary.
func isolated(sc sched) (died bool, out string, rep report) {
	f, err := os.CreateTemp(scratch, "case-*.json")
	if err != nil {
		return false, "", report{Infra: err.Error()}
	}
	defer os.Remove(f.Name())
	b, _ := json.Marshal(sc)
	f.Write(b)
	f.Close()
	cmd := exec.Command(os.Args[0], "-test.run", "^TestChildOne$", "-test.timeout", "120s")
	cmd.Env = append(os.Environ(), "C06_CHILD_CASE="+f.Name(), "VERIF_STATS=", "VERIF_JOURNAL=")
	ob, _ := cmd.CombinedOutput()
	out = string(ob)
	if i := strings.Index(out, "C06-OUTCOME:"); i >= 0 {
		line := out[i+len("C06-OUTCOME:"):]
		if j := strings.IndexByte(line, '\n'); j >= 0 {
			line = line[:j]
		}
		_ = json.Unmarshal([]byte(line), &rep)
		return false, out, rep
	}
	return true, out, rep
}

func TestChildOne(t *testing.T) {
	p := os.Getenv("C06_CHILD_CASE")
	if p == "" {
		t.Skip("helper for isolated execution")
	}
	b, err := os.ReadFile(p)
	if err != nil {
		t.Fatal(err)
	}
	var sc sched
	if err := json.Unmarshal(b, &sc); err != nil {
		t.Fatal(err)
	}
	rep := runSchedule(sc, execOpts{raw: true})
	ob, _ := json.Marshal(rep)
	fmt.Printf("C06-OUTCOME:%s\n", ob)
}

func crashLine(out string) string {
	for _, l := range strings.Split(out, "\n") {
		if strings.HasPrefix(l, "panic:") || strings.HasPrefix(l, "fatal error:") {
			return l
		}
	}
	if len(out) > 300 {
		return out[len(out)-300:]
	}
	return out
}

// ---- TestMain ---------------------------------------------------------------------------------

func TestMain(m *testing.M) {
	// the queue refuses to load unless the SPOE processing timeout exceeds its TTL
	os.Setenv("LUNAR_SPOE_PROCESSING_TIMEOUT_SEC", "7200")
	engine.Setup()
	base := os.Getenv("VERIF_SCRATCH")
	if base == "" {
		base = os.TempDir()
	}
	d, err := os.MkdirTemp(base, "c06-")
	if err != nil {
		fmt.Println("VERIF-INFRA: cannot create scratch dir:", err)
		os.Exit(2)
	}
	scratch = d
	installHooks()
	code := m.Run()
	os.RemoveAll(d)
	os.Exit(code)
}

// ---- generator -----------------------------------------------------------------------------------

func genSched() *rapid.Generator[sched] {
	return rapid.Custom(func(t *rapid.T) sched {
		sc := sched{Config: config{
			Max:     rapid.SampledFrom([]int{1, 1, 1, 2, 2, 3}).Draw(t, "max"),
			WindowS: rapid.SampledFrom([]int{1, 1, 2, 3}).Draw(t, "window"),
			Size:    rapid.SampledFrom([]int{1, 2, 2, 3, 3, 3, 4, 4, 4}).Draw(t, "size"),
			StartMs: rapid.SampledFrom([]int{0, 0, 300, 950}).Draw(t, "startms"),
			TTL:     3600,
		}}
		// a palette per case: many equal priorities (arrival order matters) or many different ones
		palette := rapid.SampledFrom([][]string{
			{"low"}, {"High", "low"}, {"low", "mid", "High"}, {"mid", "mid", "low"}, {"", "other"},
			{"High", "mid", "low", "low", "mid", "High", "", "other"},
		}).Draw(t, "palette")
		w10 := 10 * sc.Config.WindowS
		loose := rapid.Custom(func(t *rapid.T) step {
			if rapid.Bool().Draw(t, "rm") {
				return step{Op: "remove", N: rapid.IntRange(0, 3).Draw(t, "which")}
			}
			return step{Op: "release", N: rapid.IntRange(0, 3).Draw(t, "which")}
		})
		// a round: a burst of arrivals, then the loop runs (one tick, a few, or up to the next window)
		round := rapid.Custom(func(t *rapid.T) []step {
			out := []step{}
			na := rapid.SampledFrom([]int{0, 1, 1, 2, 2, 3, 4}).Draw(t, "arrivals")
			for i := 0; i < na; i++ {
				out = append(out, step{Op: "arrive",
					Prio:       rapid.SampledFrom(palette).Draw(t, "prio"),
					Hold:       rapid.IntRange(0, 7).Draw(t, "hold") == 7,
					HoldLate:   rapid.Bool().Draw(t, "hold-late"),
					HoldRemove: rapid.IntRange(0, 7).Draw(t, "holdrm") == 7,
					HoldWait:   rapid.IntRange(0, 3).Draw(t, "holdwait") == 3,
					Retry:      rapid.IntRange(0, 5).Draw(t, "retry") == 0})
				if rapid.IntRange(0, 9).Draw(t, "loose1") == 9 {
					out = append(out, loose.Draw(t, "l1"))
				}
			}
			if rapid.IntRange(0, 5).Draw(t, "noticks") != 5 {
				out = append(out, step{Op: "tick",
					N:        rapid.SampledFrom([]int{1, 1, 1, 2, 3, 9, w10 - 1, w10, w10 + 1}).Draw(t, "ticks"),
					IncFails: rapid.IntRange(0, 7).Draw(t, "inc-fails") == 0})
			}
			if rapid.IntRange(0, 5).Draw(t, "loose2") == 5 {
				out = append(out, loose.Draw(t, "l2"))
			}
			return out
		})
		for _, r := range rapid.SliceOfN(round, 1, 8).Draw(t, "rounds") {
			sc.Steps = append(sc.Steps, r...)
		}
		if rapid.IntRange(0, 3).Draw(t, "tail") == 0 {
			k := rapid.IntRange(1, 2).Draw(t, "ntail")
			for i := 0; i < k; i++ {
				sc.Tail = append(sc.Tail, step{Op: "arrive", Prio: rapid.SampledFrom(palette).Draw(t, "tprio")})
			}
		}
		sc.KeepHeld = rapid.Bool().Draw(t, "keepheld")
		sc.LogLevel = loglevel.Gen().Draw(t, "log level")
		return sc
	})
}

// ---- the property ------------------------------------------------------------------------------------

// judge turns a report into pass / known finding / failure. It returns an error text for a violation.
func judge(r *ev.Recorder, sc sched, rep report) (fail string, infra string) {
	for _, c := range rep.Classes {
		r.Class(c)
	}
	if rep.Infra != "" {
		return "", rep.Infra
	}
	for _, f := range rep.Findings {
		if !r.KnownFinding(f.ID, func() any { return map[string]any{"schedule": sc, "what": f.Msg, "step": f.Step} }) {
			return fmt.Sprintf("%s [explained by the defect model of %s, which is not listed as a known finding]", f.Msg, f.ID), ""
		}
		r.Class("attributed:" + f.ID)
	}
	if rep.Violation != "" {
		return rep.Violation, ""
	}
	if rep.Inconclusive != "" {
		r.Inconclusive(rep.Inconclusive)
		r.Class("inconclusive")
	}
	return "", ""
}

func runCase(r *ev.Recorder, sc sched) (fail string, trace []string, infra string, inconcl bool) {
	journal(sc)
	defer clearJournal()
	rep := runSchedule(sc, execOpts{})
	fail, infra = judge(r, sc, rep)
	trace = rep.Trace
	inconcl = rep.Inconclusive != ""
	if fail != "" || infra != "" {
		return
	}
	if rep.NonTrivial {
		r.NonTrivial(ev.JSON(sc), func() any { return map[string]any{"schedule": sc, "classes": rep.Classes} })
	}
	if rep.Crasher {
		// "shutdown while a request that already has its verdict is still held before its removal":
		// never executed in-process. Listed => counted and excluded; not listed => executed in a child.
		r.Class("shutdown:drain-meets-verdicted-request")
		if r.KnownFinding("C06-F3", func() any { return map[string]any{"schedule": sc} }) {
			r.Class("excluded:C06-F3")
			return
		}
		if childSurvivals.Load() >= 10 {
			// ten children in a row survived their drain: the defect is evidently absent; go on in-process
			// (the journal is written: should the worker die after all, the driver reports this schedule)
			crep := runSchedule(sc, execOpts{raw: true})
			if f, inf := judge(r, sc, crep); f != "" || inf != "" {
				return f, crep.Trace, inf, false
			}
			r.Class("drain-with-held-clean-up-survived-in-process")
			return
		}
		died, out, crep := isolated(sc)
		if died {
			childSurvivals.Store(0)
			return "the process died during shutdown: " + crashLine(out), rep.Trace, "", false
		}
		if f, inf := judge(r, sc, crep); f != "" || inf != "" {
			return f, crep.Trace, inf, false
		}
		childSurvivals.Add(1)
		r.Class("isolated-child-survived")
	}
	return
}

func TestQueueSchedules(t *testing.T) {
	r := ev.New(t, "C06")
	if p := os.Getenv("VERIF_REPLAY"); p != "" {
		replayJSON(t, r, p)
		return
	}
	cases, inconcl := 0, 0
	rapid.Check(t, func(t *rapid.T) {
		sc := genSched().Draw(t, "schedule")
		r.Case()
		cases++
		r.Class(fmt.Sprintf("size=%d", sc.Config.Size))
		r.Class(fmt.Sprintf("max=%d", sc.Config.Max))
		r.Class("log level " + sc.LogLevel)
		fail, trace, infra, inc := runCase(r, sc)
		if infra != "" {
			fmt.Println("VERIF-INFRA: " + infra)
			t.Fatalf("VERIF-INFRA: %s", infra)
		}
		if fail != "" {
			t.Fatalf("%s", r.Fail(failCase{sc, trace}, "%s", fail))
		}
		if inc {
			inconcl++
			if os.Getenv("C06_VERBOSE") != "" {
				fmt.Printf("INCONCLUSIVE %s\n  %s\n", ev.JSON(sc), strings.Join(trace, "\n  "))
			}
		}
	})
	if !t.Failed() && inconcl*20 > cases+20 {
		fmt.Printf("VERIF-INFRA: %d of %d schedules were inconclusive (the controller lost track of the implementation)\n", inconcl, cases)
		t.Fatalf("too many inconclusive schedules")
	}
}

// replayJSON re-executes the schedule of a replay file written by the driver (the journal of a
// worker that died, or the recorded failing case) in an isolated child.
func replayJSON(t *testing.T, r *ev.Recorder, path string) {
	b, err := os.ReadFile(path)
	if err != nil {
		t.Fatalf("VERIF-INFRA: %v", err)
	}
	var f struct {
		Journal struct {
			Case *sched `json:"case"`
		} `json:"journal"`
		Failure struct {
			Case struct {
				Schedule *sched `json:"schedule"`
			} `json:"case"`
		} `json:"failure"`
	}
	if err := json.Unmarshal(b, &f); err != nil {
		t.Fatalf("VERIF-INFRA: %v", err)
	}
	sc := f.Failure.Case.Schedule
	if sc == nil {
		sc = f.Journal.Case
	}
	if sc == nil {
		t.Fatalf("VERIF-INFRA: no schedule in %s", path)
	}
	r.Case()
	died, out, rep := isolated(*sc)
	if died {
		t.Fatalf("%s", r.Fail(failCase{*sc, nil}, "the process died: %s", crashLine(out)))
	}
	if fail, infra := judge(r, *sc, rep); fail != "" || infra != "" {
		t.Fatalf("%s", r.Fail(failCase{*sc, rep.Trace}, "%s%s", fail, infra))
	}
	t.Logf("replayed without violation:\n  %s", strings.Join(rep.Trace, "\n  "))
}

// ---- witnesses of the listed findings ------------------------------------------------------------

// C06-F1: A is admitted and opens the window; B then C (same priority) arrive late in that window;
// one blocked tick puts B (the head) back with a fresh stamp, behind C; the window re-opens: C goes first.
func witnessF1() sched {
	return sched{Config: config{Max: 1, WindowS: 1, Size: 3, TTL: 3600}, Steps: []step{
		{Op: "arrive", Prio: "low"}, {Op: "tick", N: 8}, {Op: "arrive", Prio: "low"}, {Op: "arrive", Prio: "low"}, {Op: "tick", N: 2}}}
}

// C06-F2: queue_size 1; A passes the size check and is held before it registers; B arrives, passes the
// same check and registers; A registers: two requests wait.
func witnessF2() sched {
	return sched{Config: config{Max: 1, WindowS: 1, Size: 1, TTL: 3600}, Steps: []step{
		{Op: "arrive", Prio: "low", Hold: true}, {Op: "arrive", Prio: "low"}, {Op: "release", N: 0}}}
}

// C06-F3: A is allowed; its clean-up goroutine is held before it removes A from the watcher's map;
// shutdown: the draining tick signals A a second time.
func witnessF3() sched {
	return sched{Config: config{Max: 1, WindowS: 1, Size: 1, TTL: 3600}, KeepHeld: true, Steps: []step{
		{Op: "arrive", Prio: "low", HoldRemove: true}, {Op: "tick", N: 1}}}
}

func hasFinding(rep report, id string) bool {
	for _, f := range rep.Findings {
		if f.ID == id {
			return true
		}
	}
	return false
}

func witnessInProcess(t *testing.T, id string, sc sched) {
	r := ev.New(t, "C06")
	r.Case()
	journal(sc)
	defer clearJournal()
	rep := runSchedule(sc, execOpts{})
	for _, c := range rep.Classes {
		r.Class(c)
	}
	if rep.Infra != "" {
		fmt.Println("VERIF-INFRA: " + rep.Infra)
		t.Fatalf("VERIF-INFRA: %s", rep.Infra)
	}
	present := hasFinding(rep, id)
	r.Class(fmt.Sprintf("witness_%s_present_%v", id, present))
	r.NonTrivial(ev.JSON(sc), func() any { return map[string]any{"schedule": sc, "present": present} })
	t.Logf("%s present=%v\n  %s", id, present, strings.Join(rep.Trace, "\n  "))
	if rep.Violation != "" {
		t.Fatalf("%s", r.Fail(failCase{sc, rep.Trace}, "%s", rep.Violation))
	}
	if rep.Inconclusive != "" {
		r.Inconclusive(rep.Inconclusive)
	}
	for _, f := range rep.Findings {
		if !r.KnownFinding(f.ID, func() any { return map[string]any{"schedule": sc, "what": f.Msg} }) {
			t.Fatalf("%s", r.Fail(failCase{sc, rep.Trace}, "%s [defect %s present but not listed]", f.Msg, f.ID))
		}
	}
}

func TestWitnessEqualPriorityInversion(t *testing.T) { witnessInProcess(t, "C06-F1", witnessF1()) }

func TestWitnessSlotCheckNotAtomic(t *testing.T) { witnessInProcess(t, "C06-F2", witnessF2()) }

func TestWitnessShutdownSignalsTwice(t *testing.T) {
	r := ev.New(t, "C06")
	r.Case()
	sc := witnessF3()
	died, out, rep := isolated(sc)
	present := died && strings.Contains(out, "negative WaitGroup counter")
	r.Class(fmt.Sprintf("witness_C06-F3_present_%v", present))
	r.NonTrivial(ev.JSON(sc), func() any { return map[string]any{"schedule": sc, "present": present} })
	t.Logf("C06-F3 present=%v: %s", present, crashLine(out))
	switch {
	case present:
		if !r.KnownFinding("C06-F3", func() any { return map[string]any{"schedule": sc, "crash": crashLine(out)} }) {
			t.Fatalf("%s", r.Fail(failCase{sc, nil}, "the process died during shutdown: %s [defect C06-F3 present but not listed]", crashLine(out)))
		}
	case died:
		t.Fatalf("%s", r.Fail(failCase{sc, nil}, "the process died during shutdown: %s", crashLine(out)))
	default:
		if fail, infra := judge(r, sc, rep); fail != "" || infra != "" {
			t.Fatalf("%s", r.Fail(failCase{sc, rep.Trace}, "%s%s", fail, infra))
		}
	}
}
