package c06

import (
	"encoding/json"
	"fmt"
	"os"
	"testing"
)

func TestDebug(t *testing.T) {
	if os.Getenv("C06_DEBUG") == "" {
		t.Skip()
	}
	var sc sched
	if err := json.Unmarshal([]byte(os.Getenv("C06_DEBUG")), &sc); err != nil {
		t.Fatal(err)
	}
	rep := runSchedule(sc, execOpts{raw: os.Getenv("C06_RAW") != ""})
	b, _ := json.MarshalIndent(rep, "", " ")
	fmt.Println(string(b))
}
