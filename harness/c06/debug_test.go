package c06

import (
	"encoding/json"
	"fmt"
	"os"
	"testing"
)

func TestDebug(t *testing.T) {
	if os.Getenv("C06_DEBUG") == "" {
		t.Skip()
	}
	cases := map[string]sched{
		"simple": {Config: config{Max: 1, WindowS: 2, Size: 3, TTL: 3600}, Steps: []step{
			{Op: "arrive", Prio: "low"}, {Op: "arrive", Prio: "high"}, {Op: "arrive", Prio: "mid"}, {Op: "tick", N: 1}, {Op: "tick", N: 25}}},
		"f1": {Config: config{Max: 1, WindowS: 2, Size: 3, TTL: 3600}, Steps: []step{
			{Op: "arrive", Prio: "low"}, {Op: "tick", N: 1}, {Op: "arrive", Prio: "low"}, {Op: "arrive", Prio: "low"}, {Op: "tick", N: 21}}},
		"f2": {Config: config{Max: 1, WindowS: 2, Size: 1, TTL: 3600}, Steps: []step{
			{Op: "arrive", Prio: "low", Hold: true}, {Op: "arrive", Prio: "low"}, {Op: "release", N: 0}, {Op: "tick", N: 1}}},
		"f3": {Config: config{Max: 1, WindowS: 2, Size: 1, TTL: 3600}, KeepHeld: true, Steps: []step{
			{Op: "arrive", Prio: "low", HoldRemove: true}, {Op: "tick", N: 1}}},
	}
	name := os.Getenv("C06_DEBUG")
	sc := cases[name]
	rep := runSchedule(sc, execOpts{raw: os.Getenv("C06_RAW") != ""})
	b, _ := json.MarshalIndent(rep, "", " ")
	fmt.Println(string(b))
}
