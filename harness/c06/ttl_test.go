package c06

// The TTL part of C06 on the REAL clock: the TTL watcher waits with time.After,
// so expiry cannot be driven by the virtual clock. ttl_seconds = 1, a handful of
// cases, each costs >= 1 s. Only what the statement says about time is judged
// here: every request gets its one verdict no later than TTL plus slack
// (slack 3 s; an overrun below 10 s is "inconclusive", beyond it the request
// "never got a verdict"), admissions <= quota, registered-verdicted <= size,
// shutdown (in the middle, or at the end) releases everybody.

import (
	"context"
	"fmt"
	"os"
	"runtime"
	"strings"
	"sync/atomic"
	"testing"
	"time"

	lclock "lunar/toolkit-core/clock"
	context_manager "lunar/toolkit-core/context-manager"

	"pgregory.net/rapid"

	"verif/harness/internal/engine"
	"verif/harness/internal/ev"
)

const (
	ttlSlack   = 3 * time.Second
	ttlGiveUp  = 11 * time.Second // ttl + 10 s: "never got a verdict"
	ttlSeconds = 1
)

type ttlArr struct {
	Prio  string `json:"prio"`
	GapMs int    `json:"gap_ms"` // real pause before this arrival
}

type ttlCase struct {
	Max        int      `json:"quota_max"`
	Size       int      `json:"queue_size"`
	Arrivals   []ttlArr `json:"arrivals"`
	ShutdownMs int      `json:"shutdown_after_ms,omitempty"` // >0: cancel that long after the last arrival; 0: after every verdict
	// AheadMs > 0: the process clock gains that many milliseconds per second on the timers - what a loaded machine
	// looks like from the inside: the goroutine that reads the clock (the processing tick) runs on time, the
	// runtime timers (the TTL watcher's) fire late, the later the longer they are
	AheadMs int `json:"clock_gains_ms_per_s_on_timers,omitempty"`
	// SlowStore: the store behind the quota answers slowly while the head of the queue runs out of time - the
	// processing loop, which consults the quota for the head on every tick, is kept inside such a consultation
	// (at a yield point of the shared state) from 300 ms before the head's expiry on, with a pause of 100 ms in
	// every second (600-700 ms after the expiry instant, and every full second later), until the head has its
	// verdict. The head's expiry falls into a consultation; its verdict is due when that consultation ends.
	SlowStore bool `json:"quota_store_slow_around_the_heads_expiry,omitempty"`
	// WindowSecond (slow-store cases): the quota's window is one second instead of one minute - it re-opens at
	// about the instant the head's time-to-live ends, so the consultation the loop is kept in ends with "admitted"
	// for a request whose time-to-live has run out meanwhile. It must still get exactly one verdict.
	WindowSecond bool `json:"quota_window_is_one_second,omitempty"`
}

// loopHold keeps the gateway's processing loop inside a state operation (see ttlCase.SlowStore).
type loopHold struct {
	w     *world
	x     *rq
	te    time.Time // expiry instant of the head
	until time.Time
	done  chan struct{}
	holds atomic.Int64
}

var ttlHold atomic.Pointer[loopHold]

func (h *loopHold) maybeHold() {
	now := time.Now()
	if now.Before(h.te.Add(-300*time.Millisecond)) || now.After(h.until) {
		return
	}
	decided := false
	h.w.locked(func() { decided = len(h.x.verdicts) > 0 })
	if decided {
		return
	}
	// the transactions' own goroutines are started by runTTL; every other goroutine that consults the quota's
	// state is the gateway's (the queue's background loop)
	buf := make([]byte, 32<<10)
	if strings.Contains(string(buf[:runtime.Stack(buf, false)]), "c06.runTTL") {
		return
	}
	phase := (now.Sub(h.te) + time.Second) % time.Second
	var sleep time.Duration
	switch {
	case phase < 600*time.Millisecond:
		sleep = 600*time.Millisecond - phase
	case phase < 700*time.Millisecond:
		return
	default:
		sleep = time.Second - phase + 600*time.Millisecond
	}
	h.holds.Add(1)
	select {
	case <-time.After(sleep):
	case <-h.done:
	}
}

// aheadClock is the real clock whose readings run ahead of its timers: by `by` per second since `since`.
type aheadClock struct {
	lclock.Clock
	by    time.Duration
	since time.Time
}

func (c aheadClock) Now() time.Time {
	now := c.Clock.Now()
	return now.Add(time.Duration(float64(now.Sub(c.since)) * float64(c.by) / float64(time.Second)))
}
func (c aheadClock) Since(t time.Time) time.Duration { return c.Now().Sub(t) }
func (c aheadClock) Until(t time.Time) time.Duration { return t.Sub(c.Now()) }

type ttlOutcome struct {
	Infra, Inconclusive, Violation string
	Classes                        []string
	NonTrivial                     bool
	Trace                          []string
}

func runTTL(tc ttlCase) (o ttlOutcome) {
	cfg := config{Max: tc.Max, WindowS: 1, Size: tc.Size, TTL: ttlSeconds} // window: 1 minute, never re-opens during a case
	class := func(c string) { o.Classes = append(o.Classes, c) }
	tracef := func(f string, a ...any) { o.Trace = append(o.Trace, fmt.Sprintf(f, a...)) }
	if tc.AheadMs > 0 {
		engine.SetClock(aheadClock{lclock.NewRealClock(), time.Duration(tc.AheadMs) * time.Millisecond, time.Now()})
		class("clock ahead of the timers")
	} else {
		engine.SetClock(lclock.NewRealClock())
	}
	ctx, cancel := context.WithCancel(context.Background())
	defer cancel()
	context_manager.Get().WithContext(ctx)
	w := newWorld()
	cur.Store(w)
	baseRemovals, baseLoops := countGoroutines(isRemoval), countGoroutines(isLoop)
	dir, e := engine.NewDir(scratch)
	if e != nil {
		o.Infra = e.Error()
		return
	}
	defer dir.Remove()
	unit := "minute"
	if tc.WindowSecond {
		unit = "second"
		class("quota window re-opens while the loop is kept in the consultation")
	}
	_ = dir.WriteQuota("q.yaml", quotaYAML(cfg, unit))
	_ = dir.WriteFlow("f.yaml", flowYAML(cfg))
	s, e := dir.Load()
	if e != nil {
		o.Infra = fmt.Sprintf("generated configuration was rejected: %v", e)
		return
	}
	caseID := caseCounter.Add(1)
	order := []*rq{}
	cancelled := false
	var cancelAt time.Time
	// whatever happens, leave no goroutine behind
	defer func() {
		if !cancelled {
			pollUntil(guard, func() bool { return countGoroutines(isRemoval)-baseRemovals <= 0 })
			cancel()
		}
		pollUntil(guard, func() bool { return countGoroutines(isLoop)-baseLoops <= 0 })
		w.wait(2*time.Second, func() bool {
			for _, r := range order {
				if !r.returned {
					return false
				}
			}
			return true
		})
		pollUntil(guard, func() bool { return countGoroutines(isRemoval)-baseRemovals <= 0 })
	}()

	for i, a := range tc.Arrivals {
		time.Sleep(time.Duration(a.GapMs) * time.Millisecond)
		id := fmt.Sprintf("t%d", i+1)
		txid := fmt.Sprintf("c%d-%s", caseID, id)
		r := &rq{ID: id, PrioName: a.Prio, P: prioNum(a.Prio)}
		w.locked(func() { w.reqs[txid] = r })
		order = append(order, r)
		h := map[string]string{"host": "h.com"}
		if a.Prio != "" {
			h["x-prio"] = a.Prio
		}
		r.t0 = time.Now()
		tx := engine.Txn{ID: txid, Method: "GET", URL: "h.com/q", Path: "/q", Headers: h, Time: r.t0}
		go func() {
			res := engine.RunRequest(s, tx)
			t1 := time.Now()
			w.mu.Lock()
			r.returned, r.res, r.t1 = true, res, t1
			w.cond.Broadcast()
			w.mu.Unlock()
		}()
		if !w.wait(guard, func() bool { return r.registered || r.returned }) {
			o.Inconclusive = fmt.Sprintf("arrival %s neither registered nor returned", id)
			return
		}
	}
	lastArrival := time.Now()

	if tc.SlowStore {
		time.Sleep(300 * time.Millisecond) // the loop has passed twice: who was to be admitted is
		var x *rq
		w.locked(func() {
			for _, r := range order {
				if r.registered && len(r.verdicts) == 0 && (x == nil || r.P < x.P) {
					x = r
				}
			}
		})
		if x != nil && time.Until(x.t0.Add(ttlSeconds*time.Second)) > 350*time.Millisecond {
			te := x.t0.Add(ttlSeconds * time.Second)
			h := &loopHold{w: w, x: x, te: te, until: te.Add(ttlGiveUp + time.Second), done: make(chan struct{})}
			ttlHold.Store(h)
			defer func() {
				ttlHold.Store(nil)
				close(h.done)
				n := h.holds.Load()
				tracef("the loop was kept inside a quota consultation %d times; head of the queue: %s", n, x.ID)
			}()
			defer func() {
				if h.holds.Load() > 0 {
					class("quota store slow while the head's time-to-live ran out")
					o.NonTrivial = true
				}
			}()
		} else {
			class("slow store: no waiter to hold the loop on")
		}
	}

	if tc.ShutdownMs > 0 {
		time.Sleep(time.Duration(tc.ShutdownMs) * time.Millisecond)
		// never shut down close to a waiter's expiry or while a clean-up goroutine is pending: that is
		// the (listed) double signal of StopAll, reached here by native scheduling; excluded by construction
		safe := true
		w.locked(func() {
			for _, r := range order {
				if r.registered && len(r.verdicts) == 0 && time.Until(r.t0.Add(ttlSeconds*time.Second)) < 500*time.Millisecond {
					safe = false
				}
			}
		})
		if safe && pollUntil(guard, func() bool { return countGoroutines(isRemoval)-baseRemovals <= 0 }) {
			waiters := 0
			w.locked(func() {
				for _, r := range order {
					if r.registered && len(r.verdicts) == 0 {
						waiters++
					}
				}
			})
			cancel()
			cancelled, cancelAt = true, time.Now()
			if waiters > 0 {
				class("shutdown:with-waiters")
				o.NonTrivial = true
			} else {
				class("shutdown:idle")
			}
			tracef("cancelled %v after the last arrival with %d waiters", cancelAt.Sub(lastArrival).Round(time.Millisecond), waiters)
		} else {
			class("shutdown:skipped-too-close-to-an-expiry")
		}
	}

	// everybody must come back: by TTL (or by the shutdown) plus slack
	if !w.wait(ttlGiveUp+time.Second, func() bool {
		for _, r := range order {
			if !r.returned && time.Since(r.t0) < ttlGiveUp {
				return false
			}
		}
		return true
	}) {
		o.Inconclusive = "gave up waiting"
	}
	admitted, expired := 0, 0
	var worst time.Duration
	for _, r := range order {
		var returned, registered bool
		var vs []bool
		var res engine.Result
		var t1 time.Time
		w.locked(func() {
			returned, registered, vs, res, t1 = r.returned, r.registered, append([]bool{}, r.verdicts...), r.res, r.t1
		})
		if !returned {
			o.Violation = fmt.Sprintf("%s never got a verdict: %v after its arrival (ttl %ds) it still waits", r.ID, ttlGiveUp, ttlSeconds)
			return
		}
		if res.Err != nil {
			o.Violation = fmt.Sprintf("%s: ExecuteFlow returned an error: %v", r.ID, res.Err)
			return
		}
		allowed := res.Early == nil
		if !allowed && res.Early.Status != 429 {
			o.Violation = fmt.Sprintf("%s: unexpected early response %d", r.ID, res.Early.Status)
			return
		}
		if registered && len(vs) != 1 {
			o.Violation = fmt.Sprintf("%s was registered and got %d verdicts", r.ID, len(vs))
			return
		}
		if registered && vs[0] != allowed {
			o.Violation = fmt.Sprintf("%s: the queue's verdict was %v but the transaction says allowed=%v", r.ID, vs[0], allowed)
			return
		}
		lat := t1.Sub(r.t0)
		if lat > worst {
			worst = lat
		}
		tracef("%s prio=%q registered=%v allowed=%v after %v", r.ID, r.PrioName, registered, allowed, lat.Round(time.Millisecond))
		switch {
		case allowed:
			admitted++
		case !registered:
			class("refused-full")
		default:
			if lat >= 900*time.Millisecond {
				expired++
			}
		}
		if lat > ttlSeconds*time.Second+ttlSlack {
			o.Inconclusive = fmt.Sprintf("%s got its verdict %v after its arrival (ttl %ds + slack %v)", r.ID, lat, ttlSeconds, ttlSlack)
		}
		if cancelled && registered && !allowed && t1.After(cancelAt) && t1.Sub(cancelAt) > tickStep+ttlSlack && lat < ttlSeconds*time.Second {
			o.Inconclusive = fmt.Sprintf("%s was released %v after the shutdown", r.ID, t1.Sub(cancelAt))
		}
	}
	if admitted > tc.Max && !tc.WindowSecond {
		o.Violation = fmt.Sprintf("%d requests were allowed inside one window of a quota of %d", admitted, tc.Max)
		return
	}
	// size bound over the event log
	reg, ver := 0, 0
	w.locked(func() {
		for _, e := range w.log {
			if e.Kind == "queue.registered" {
				reg++
			} else {
				ver++
			}
			if reg-ver > tc.Size && o.Violation == "" {
				o.Violation = fmt.Sprintf("%d requests wait at once after %s was registered; queue_size is %d", reg-ver, e.ID, tc.Size)
			}
		}
	})
	for _, a := range tc.Arrivals {
		if a.GapMs >= 1000 && expired > 0 {
			class("second wave after expiries")
			break
		}
	}
	if expired > 0 {
		class("expired-by-ttl")
		o.NonTrivial = true
	}
	if admitted > 0 {
		class("admitted")
	}
	class(fmt.Sprintf("worst-latency<=%ds", int(worst/time.Second)+1))
	return
}

func genTTL() *rapid.Generator[ttlCase] {
	return rapid.Custom(func(t *rapid.T) ttlCase {
		tc := ttlCase{Max: rapid.IntRange(1, 2).Draw(t, "max"), Size: rapid.IntRange(1, 4).Draw(t, "size"),
			AheadMs: rapid.SampledFrom([]int{0, 0, 60, 150, 250}).Draw(t, "ahead")}
		if rapid.IntRange(0, 3).Draw(t, "slow-store") == 0 {
			// the quota's store is slow around the head's expiry: quota_max arrivals that are admitted, then 1-2
			// that wait; all priorities distinct, so that the head of the queue is one request throughout
			waiters := rapid.IntRange(1, 2).Draw(t, "waiters")
			n := tc.Max + waiters
			prios := rapid.Permutation([]string{"High", "mid", "low", ""}).Draw(t, "prios")[:n]
			for i := 0; i < n; i++ {
				tc.Arrivals = append(tc.Arrivals, ttlArr{Prio: prios[i], GapMs: rapid.SampledFrom([]int{0, 0, 20, 80}).Draw(t, "gap")})
			}
			tc.Size = rapid.IntRange(n, 4).Draw(t, "size-slow")
			tc.AheadMs, tc.SlowStore = 0, true
			tc.WindowSecond = rapid.Bool().Draw(t, "window-second")
			return tc
		}
		mid := rapid.IntRange(0, 3).Draw(t, "midshutdown") == 0
		n := rapid.IntRange(2, 5).Draw(t, "n")
		for i := 0; i < n; i++ {
			gaps := []int{0, 0, 20, 120, 250}
			if mid {
				gaps = []int{0, 0, 10, 40}
			}
			tc.Arrivals = append(tc.Arrivals, ttlArr{
				Prio:  rapid.SampledFrom([]string{"High", "mid", "low", ""}).Draw(t, "prio"),
				GapMs: rapid.SampledFrom(gaps).Draw(t, "gap")})
		}
		if mid {
			tc.ShutdownMs = rapid.SampledFrom([]int{150, 220, 300}).Draw(t, "shutdown")
		} else if rapid.IntRange(0, 2).Draw(t, "second-wave") == 0 {
			// a second wave after the waiters of the first one have expired (the quota's one-minute window is
			// still closed): more arrivals than the queue holds, against whatever state the expiries left behind
			m := tc.Size + rapid.IntRange(1, 2).Draw(t, "wave2")
			for i := 0; i < m; i++ {
				gap := rapid.SampledFrom([]int{0, 0, 20}).Draw(t, "gap2")
				if i == 0 {
					gap = rapid.SampledFrom([]int{1300, 1600}).Draw(t, "pause")
				}
				tc.Arrivals = append(tc.Arrivals, ttlArr{Prio: rapid.SampledFrom([]string{"High", "low", ""}).Draw(t, "prio2"), GapMs: gap})
			}
		}
		return tc
	})
}

func TestTTLRealClock(t *testing.T) {
	r := ev.New(t, "C06")
	cases, inconcl := 0, 0
	rapid.Check(t, func(t *rapid.T) {
		tc := genTTL().Draw(t, "case")
		r.Case()
		cases++
		journal(tc)
		o := runTTL(tc)
		clearJournal()
		if os.Getenv("C06_VERBOSE") != "" {
			fmt.Printf("TTL %s\n  %s\n", ev.JSON(tc), strings.Join(o.Trace, "\n  "))
		}
		for _, c := range o.Classes {
			r.Class(c)
		}
		if o.Infra != "" {
			fmt.Println("VERIF-INFRA: " + o.Infra)
			t.Fatalf("VERIF-INFRA: %s", o.Infra)
		}
		if o.Violation != "" {
			t.Fatalf("%s", r.Fail(map[string]any{"case": tc, "trace": o.Trace}, "%s", o.Violation))
		}
		if o.Inconclusive != "" {
			r.Inconclusive(o.Inconclusive)
			r.Class("inconclusive")
			inconcl++
		}
		if o.NonTrivial {
			r.NonTrivial(ev.JSON(tc), func() any { return map[string]any{"case": tc, "trace": o.Trace} })
		}
	})
	if !t.Failed() && inconcl*4 > cases+4 {
		fmt.Printf("VERIF-INFRA: %d of %d real-clock cases were inconclusive\n", inconcl, cases)
		t.Fatalf("too many inconclusive cases")
	}
}
