// C20 — diagnosis fail-safe reacts only to stable health changes and never flaps.
//
// The StateChangeWatcher is a single goroutine whose only blocking calls are
// clock.After / clock.Sleep. It is driven with an auto-advancing virtual clock
// (every After/Sleep immediately advances virtual time and returns) and a
// scripted predicate; when the script is exhausted the predicate ends the
// watcher goroutine with runtime.Goexit(), so one run is deterministic,
// instantaneous and leaves no goroutine behind.
package c20

import (
	"encoding/json"
	"fmt"
	"os"
	"runtime"
	"strings"
	"sync"
	"sync/atomic"
	"testing"
	"time"

	"lunar/engine/failsafe"

	"github.com/rs/zerolog"
	"pgregory.net/rapid"

	"verif/harness/internal/ev"
)

// ---- auto-advancing virtual clock (implements lunar/toolkit-core/clock.Clock) ----

var epoch = time.Unix(1_700_000_000, 0).UTC()

type vclock struct {
	mu     sync.Mutex
	off    time.Duration // virtual time elapsed since epoch
	afters int
	sleeps int
	// hook, when set, runs at the start of every clock call on the calling
	// goroutine (used by the wiring unit to end the watcher goroutine).
	hook func()
}

func newVClock() *vclock { return &vclock{} }

func (c *vclock) Off() time.Duration {
	c.mu.Lock()
	defer c.mu.Unlock()
	return c.off
}

func (c *vclock) advance(d time.Duration) {
	if d <= 0 {
		return
	}
	c.mu.Lock()
	c.off += d
	c.mu.Unlock()
}

func (c *vclock) Now() time.Time {
	if c.hook != nil {
		c.hook()
	}
	return epoch.Add(c.Off())
}

func (c *vclock) Since(t time.Time) time.Duration { return c.Now().Sub(t) }
func (c *vclock) Until(t time.Time) time.Duration { return t.Sub(c.Now()) }

func (c *vclock) Sleep(d time.Duration) {
	if c.hook != nil {
		c.hook()
	}
	c.mu.Lock()
	c.sleeps++
	c.mu.Unlock()
	c.advance(d)
}

func (c *vclock) After(d time.Duration) <-chan time.Time {
	if c.hook != nil {
		c.hook()
	}
	c.mu.Lock()
	c.afters++
	c.mu.Unlock()
	c.advance(d)
	ch := make(chan time.Time, 1)
	ch <- epoch.Add(c.Off())
	return ch
}

// ---- cases and traces ------------------------------------------------------

type settings struct {
	N        int           // ConsecutiveN
	Period   time.Duration // MinStablePeriod
	Interval time.Duration // MinTimeBetweenCalls
	Cooldown time.Duration // CooldownPeriod
}

// A case: settings, the scripted observations and the virtual time each
// predicate call takes (always > 0: an observation is an HTTP round trip).
type kase struct {
	S      settings
	Script []bool
	Lat    []time.Duration
}

type obsRec struct {
	A, B time.Duration // virtual time when the predicate was called / returned
	V    bool
}

type reactRec struct {
	Healthy bool          // OnChangeToTrue (healthy again) / OnChangeToFalse (unhealthy)
	T       time.Duration // virtual time of the callback
	Obs     int           // index of the last observation made before the callback (-1: none)
}

type trace struct {
	Obs    []obsRec
	Reacts []reactRec
}

func ms(d time.Duration) int64 { return int64(d / time.Millisecond) }

func scriptString(s []bool) string {
	var b strings.Builder
	for _, v := range s {
		if v {
			b.WriteByte('T')
		} else {
			b.WriteByte('F')
		}
	}
	return b.String()
}

func parseScript(s string) []bool {
	out := make([]bool, 0, len(s))
	for _, c := range s {
		out = append(out, c == 'T')
	}
	return out
}

type kaseRepr struct {
	N          int     `json:"consecutive_n"`
	PeriodMs   int64   `json:"min_stable_ms"`
	IntervalMs int64   `json:"min_between_calls_ms"`
	CooldownMs int64   `json:"cooldown_ms"`
	Script     string  `json:"script"` // T = healthy observation, F = unhealthy
	LatMs      []int64 `json:"predicate_latency_ms"`
	Trace      string  `json:"trace,omitempty"`
}

func (k kase) repr(tr *trace) kaseRepr {
	r := kaseRepr{N: k.S.N, PeriodMs: ms(k.S.Period), IntervalMs: ms(k.S.Interval), CooldownMs: ms(k.S.Cooldown), Script: scriptString(k.Script)}
	uniform := true
	for _, l := range k.Lat {
		if l != k.Lat[0] {
			uniform = false
		}
	}
	if uniform && len(k.Lat) > 0 {
		r.LatMs = []int64{ms(k.Lat[0])}
	} else {
		for _, l := range k.Lat {
			r.LatMs = append(r.LatMs, ms(l))
		}
	}
	if tr != nil {
		r.Trace = tr.String()
	}
	return r
}

func (r kaseRepr) kase() kase {
	k := kase{S: settings{N: r.N, Period: time.Duration(r.PeriodMs) * time.Millisecond, Interval: time.Duration(r.IntervalMs) * time.Millisecond, Cooldown: time.Duration(r.CooldownMs) * time.Millisecond}, Script: parseScript(r.Script)}
	k.Lat = make([]time.Duration, len(k.Script))
	for i := range k.Lat {
		l := int64(1)
		if len(r.LatMs) == 1 {
			l = r.LatMs[0]
		} else if i < len(r.LatMs) {
			l = r.LatMs[i]
		}
		k.Lat[i] = time.Duration(l) * time.Millisecond
	}
	return k
}

func (tr *trace) String() string {
	var b strings.Builder
	ri := 0
	for i, o := range tr.Obs {
		for ri < len(tr.Reacts) && tr.Reacts[ri].Obs < i {
			ri++
		}
		c := 'F'
		if o.V {
			c = 'T'
		}
		fmt.Fprintf(&b, "%c@%d", c, ms(o.B))
		for ri < len(tr.Reacts) && tr.Reacts[ri].Obs == i {
			if tr.Reacts[ri].Healthy {
				fmt.Fprintf(&b, "!HEALTHY@%d", ms(tr.Reacts[ri].T))
			} else {
				fmt.Fprintf(&b, "!UNHEALTHY@%d", ms(tr.Reacts[ri].T))
			}
			ri++
		}
		b.WriteByte(' ')
	}
	for _, r := range tr.Reacts {
		if r.Obs < 0 {
			fmt.Fprintf(&b, "[reaction healthy=%v before any observation] ", r.Healthy)
		}
	}
	return strings.TrimSpace(b.String())
}

// ---- running the real watcher ----------------------------------------------

const guard = 20 * time.Second // real-time guard; never reached on a sane tree

// runWatcher drives the real StateChangeWatcher through the script.
func runWatcher(k kase) (trace, error) {
	clk := newVClock()
	var tr trace
	tr.Obs = make([]obsRec, 0, len(k.Script))
	done := make(chan struct{})
	idx := 0
	cfg := failsafe.Config{
		ObtainPredicate: func() bool {
			if idx >= len(k.Script) {
				close(done)
				runtime.Goexit()
			}
			a := clk.Off()
			clk.advance(k.Lat[idx])
			v := k.Script[idx]
			tr.Obs = append(tr.Obs, obsRec{A: a, B: clk.Off(), V: v})
			idx++
			return v
		},
		OnChangeToTrue: func() {
			tr.Reacts = append(tr.Reacts, reactRec{Healthy: true, T: clk.Off(), Obs: idx - 1})
		},
		OnChangeToFalse: func() {
			tr.Reacts = append(tr.Reacts, reactRec{Healthy: false, T: clk.Off(), Obs: idx - 1})
		},
		StateTrueName:       "healthy",
		StateFalseName:      "unhealthy",
		MinTimeBetweenCalls: k.S.Interval,
		ConsecutiveN:        k.S.N,
		MinStablePeriod:     k.S.Period,
		CooldownPeriod:      k.S.Cooldown,
	}
	w := failsafe.NewStateChangeWatcher("c20", cfg, clk, zerolog.Nop())
	w.RunInBackground()
	select {
	case <-done:
	case <-time.After(guard):
		return tr, fmt.Errorf("VERIF-INFRA: watcher goroutine did not consume the script within %s", guard)
	}
	return tr, nil
}

// ---- oracle ------------------------------------------------------------------

func stateName(healthy bool) string {
	if healthy {
		return "healthy-again"
	}
	return "unhealthy"
}

// runStart returns the first index of the maximal run of equal observations ending at i.
func runStart(obs []obsRec, i int) int {
	j := i
	for j > 0 && obs[j-1].V == obs[i].V {
		j--
	}
	return j
}

// lenientStart: the return of the previous (different) observation, or the call of the run's first observation.
// Used only to COUNT the runs that could qualify at all (a reaction without any such run is a flapping signal);
// the span a reaction needs is measured from the call of the run's first observation (checkTrace, S2).
func lenientStart(obs []obsRec, j int) time.Duration {
	if j > 0 {
		return obs[j-1].B
	}
	return obs[j].A
}

type verdict struct {
	qualifying   int // maximal runs that qualify under the lenient reading
	nonQualFlips int // runs that begin with a flip and do not qualify
	obligations  int // runs for which the tolerant completeness clause demanded a reaction
	atMinimum    int // reactions fired at the earliest observation the statement allows (tight, informational)
}

// soundness + tolerant completeness, exactly as the statement words them.
func checkTrace(s settings, tr *trace) (verdict, error) {
	var v verdict
	obs := tr.Obs
	n := s.N
	// (S1) strict alternation starting with 'unhealthy'
	for k, r := range tr.Reacts {
		wantHealthy := k%2 == 1
		if r.Healthy != wantHealthy {
			if k == 0 {
				return v, fmt.Errorf("first reaction is %q, must be 'unhealthy'", stateName(r.Healthy))
			}
			return v, fmt.Errorf("reaction #%d is %q directly after %q: reactions do not alternate", k+1, stateName(r.Healthy), stateName(tr.Reacts[k-1].Healthy))
		}
	}
	// (S2) each reaction only after >= N consecutive observations of the new state spanning >= period
	for k, r := range tr.Reacts {
		i := r.Obs
		if i < 0 || i >= len(obs) {
			return v, fmt.Errorf("reaction #%d (%s) fired before any observation", k+1, stateName(r.Healthy))
		}
		if obs[i].V != r.Healthy {
			return v, fmt.Errorf("reaction #%d (%s) fired right after observing the opposite state at observation %d", k+1, stateName(r.Healthy), i)
		}
		j := runStart(obs, i)
		if i-j+1 < n {
			return v, fmt.Errorf("reaction #%d (%s) at observation %d after only %d consecutive observations of that state, %d configured", k+1, stateName(r.Healthy), i, i-j+1, n)
		}
		// the span of the consecutive checks that observed the new state: from the call of the first of them (the
		// check before it observed the other state and is not one of them) to the reaction
		if span := r.T - obs[j].A; span < s.Period {
			return v, fmt.Errorf("reaction #%d (%s) at observation %d: the %d consecutive checks that observed that state span %v (from the call of the first of them, observation %d, to the reaction), stable period is %v",
				k+1, stateName(r.Healthy), i, i-j+1, span, j, s.Period)
		}
		// informational: did it fire at the earliest observation allowed (N>=2: the N-th, span from the run's first observation)?
		if first := j + max(n, 2) - 1; i == first || (i > first && obs[i-1].B-obs[j].B < s.Period) {
			v.atMinimum++
		}
	}
	// (S3) no reaction during the cool-down that follows an 'unhealthy' reaction
	for k, r := range tr.Reacts {
		if r.Healthy {
			continue
		}
		for _, later := range tr.Reacts[k+1:] {
			if later.T < r.T+s.Cooldown {
				return v, fmt.Errorf("reaction %q at %v falls into the cool-down [%v, %v) of the 'unhealthy' reaction #%d", stateName(later.Healthy), later.T, r.T, r.T+s.Cooldown, k+1)
			}
		}
	}
	// classify maximal runs
	type run struct{ j, e int }
	var runs []run
	for i := 0; i < len(obs); {
		e := i
		for e+1 < len(obs) && obs[e+1].V == obs[i].V {
			e++
		}
		runs = append(runs, run{i, e})
		i = e + 1
	}
	for _, ru := range runs {
		q := ru.e-ru.j+1 >= n && obs[ru.e].B-lenientStart(obs, ru.j) >= s.Period
		isFlip := ru.j > 0 || !obs[ru.j].V // the initial state is assumed healthy
		if q {
			v.qualifying++
		} else if isFlip {
			v.nonQualFlips++
		}
	}
	// (S4) a signal without any qualifying run (in particular a flapping one) never triggers a reaction
	if v.qualifying == 0 && len(tr.Reacts) > 0 {
		return v, fmt.Errorf("%d reaction(s) although no run of observations qualifies (flapping signal)", len(tr.Reacts))
	}
	// (C) tolerant completeness: a run that qualifies by a clear margin (strictest
	// reading of count and span, plus one further observation of the same state)
	// and whose state differs from the last reacted state does produce the reaction.
	for _, ru := range runs {
		st := obs[ru.j].V
		stableBefore := true
		var coolEnd time.Duration = -1
		for _, r := range tr.Reacts {
			if r.Obs < ru.j {
				stableBefore = r.Healthy
				if !r.Healthy {
					coolEnd = r.T + s.Cooldown
				}
			}
		}
		if stableBefore == st {
			continue
		}
		jj := ru.j
		for jj <= ru.e && obs[jj].A < coolEnd { // observations made inside a cool-down need not count
			jj++
		}
		clear := false
		for k := jj; k < ru.e; k++ { // k < e: one more observation of margin
			if k-jj+1 >= n && obs[k].A-obs[jj].B >= s.Period {
				clear = true
				break
			}
		}
		if !clear {
			continue
		}
		v.obligations++
		found := false
		for _, r := range tr.Reacts {
			if r.Healthy == st && r.Obs >= ru.j && r.Obs <= ru.e {
				found = true
			}
		}
		if !found {
			return v, fmt.Errorf("observations %d..%d are a stable run of %q (%d consecutive, spanning %v; configured %d and %v) but no %q reaction fired", ru.j, ru.e, stateName(st), ru.e-jj+1, obs[ru.e].B-obs[jj].B, n, s.Period, stateName(st))
		}
	}
	return v, nil
}

// ---- reference automaton (informational only) -------------------------------
//
// The tightest reading of the statement that the current code implements: a
// reaction fires at the first observation of a run that is at least the
// max(N,2)-th of the run and at least Period after the run's first observation,
// if the state differs from the last reacted state. Agreement is only counted
// (class ref-agree / ref-differ); it is not part of the verdict, because the
// statement does not fix these choices.
func refReactions(s settings, obs []obsRec) []int {
	var out []int
	stable := true
	fired := false
	for i := range obs {
		j := runStart(obs, i)
		if i == j {
			fired = false
			continue
		}
		if i-j+1 >= s.N && obs[i].B-obs[j].B >= s.Period && !fired && obs[i].V != stable {
			out = append(out, i)
			stable = obs[i].V
			fired = true
		}
	}
	return out
}

func agreesWithRef(s settings, tr *trace) bool {
	ref := refReactions(s, tr.Obs)
	if len(ref) != len(tr.Reacts) {
		return false
	}
	for k, i := range ref {
		if tr.Reacts[k].Obs != i || tr.Reacts[k].Healthy != tr.Obs[i].V {
			return false
		}
	}
	return true
}

// ---- one case, shared by all units ------------------------------------------

var refDiffer atomic.Int64

func reactionsClass(n int) string {
	if n >= 3 {
		return "reactions=3+"
	}
	return fmt.Sprintf("reactions=%d", n)
}

// evaluate runs the real watcher on k, records statistics and returns the
// failure message ("" when the property held).
func evaluate(r *ev.Recorder, k kase, fingerprint func() string) (string, *trace) {
	tr, err := runWatcher(k)
	if err != nil {
		return err.Error(), &tr
	}
	r.Case()
	if len(tr.Obs) != len(k.Script) {
		return fmt.Sprintf("harness: %d observations recorded for a script of %d", len(tr.Obs), len(k.Script)), &tr
	}
	v, cerr := checkTrace(k.S, &tr)
	if cerr != nil {
		return cerr.Error(), &tr
	}
	r.Class(reactionsClass(len(tr.Reacts)))
	if len(tr.Reacts) == 0 && v.nonQualFlips >= 3 {
		r.Class("flapping-without-reaction")
	}
	if len(tr.Reacts) >= 2 && k.S.Cooldown > 0 {
		r.Class("reaction-after-a-cool-down")
	}
	if v.obligations > 0 {
		r.ClassN("completeness-obligations", int64(v.obligations))
	}
	if v.atMinimum > 0 {
		r.ClassN("reactions-at-earliest-allowed-observation", int64(v.atMinimum))
	}
	if agreesWithRef(k.S, &tr) {
		r.Class("ref-agree")
	} else {
		r.Class("ref-differ")
		if os.Getenv("VERIF_C20_TIGHT") == "1" { // opt-in pinned-behaviour mode, not part of the property
			return "VERIF_C20_TIGHT: reactions differ from the tight reference automaton (reaction exactly at the max(N,2)-th observation of a run once the period has elapsed since its first observation)", &tr
		}
		if refDiffer.Add(1) == 1 {
			r.Note(fmt.Sprintf("informational: the watcher no longer reacts exactly where the tight reference automaton does (first at %+v); allowed by the statement, not a violation", k.repr(&tr)))
		}
	}
	if (len(tr.Reacts) > 0 || v.obligations > 0) && v.nonQualFlips > 0 {
		r.Class("nontrivial")
		r.NonTrivial(fingerprint(), func() any { return k.repr(&tr) })
	}
	return "", &tr
}

func fingerprintOf(k kase) string {
	var b strings.Builder
	fmt.Fprintf(&b, "%d/%d/%d/%d/%s/", k.S.N, ms(k.S.Period), ms(k.S.Interval), ms(k.S.Cooldown), scriptString(k.Script))
	for _, l := range k.Lat {
		fmt.Fprintf(&b, "%d,", ms(l))
	}
	return b.String()
}

func constLat(n int, d time.Duration) []time.Duration {
	out := make([]time.Duration, n)
	for i := range out {
		out[i] = d
	}
	return out
}

// replayCase returns the case stored in $VERIF_REPLAY (a replay written by the driver), if any.
func replayCase(t *testing.T) (kase, bool) {
	p := os.Getenv("VERIF_REPLAY")
	if p == "" {
		return kase{}, false
	}
	b, err := os.ReadFile(p)
	if err != nil {
		t.Fatalf("VERIF-INFRA: cannot read replay %s: %v", p, err)
	}
	var f struct {
		Failure struct {
			Case kaseRepr `json:"case"`
		} `json:"failure"`
	}
	if err := json.Unmarshal(b, &f); err != nil {
		t.Fatalf("VERIF-INFRA: replay %s: %v", p, err)
	}
	return f.Failure.Case.kase(), true
}

// ---- units ---------------------------------------------------------------------

var (
	gridN        = []int{1, 2, 3, 4}
	gridPeriod   = []time.Duration{0, 1 * time.Second, 3 * time.Second, 7 * time.Second}
	gridInterval = []time.Duration{0, 1 * time.Second, 2 * time.Second}
	gridCooldown = []time.Duration{0, 2 * time.Second, 5 * time.Second}
	gridLatency  = []time.Duration{time.Millisecond, time.Second}
)

// TestExhaustive: every boolean script up to length 10 (quick) / 12 (thorough)
// under every setting of the grid (4 x 4 x 3 x 3 settings x 2 predicate latencies).
func TestExhaustive(t *testing.T) {
	r := ev.New(t, "C20")
	if k, ok := replayCase(t); ok {
		if msg, tr := evaluate(r, k, func() string { return fingerprintOf(k) }); msg != "" {
			t.Fatalf("%s", r.Fail(k.repr(tr), "%s", msg))
		}
		return
	}
	r.SetExhaustive(true)
	maxLen := 10
	if ev.Tier() == "thorough" {
		maxLen = 12
	}
	r.Note(fmt.Sprintf("all boolean scripts of length 0..%d x %d settings", maxLen, len(gridN)*len(gridPeriod)*len(gridInterval)*len(gridCooldown)*len(gridLatency)))
	script := make([]bool, 0, maxLen)
	for _, n := range gridN {
		for _, p := range gridPeriod {
			for _, iv := range gridInterval {
				for _, cd := range gridCooldown {
					for _, lat := range gridLatency {
						s := settings{N: n, Period: p, Interval: iv, Cooldown: cd}
						lats := constLat(maxLen, lat)
						for l := 0; l <= maxLen; l++ {
							for bits := 0; bits < 1<<l; bits++ {
								script = script[:l]
								for i := 0; i < l; i++ {
									script[i] = bits>>(l-1-i)&1 == 1
								}
								k := kase{S: s, Script: script, Lat: lats[:l]}
								if msg, tr := evaluate(r, k, func() string { return fingerprintOf(k) }); msg != "" {
									k.Script = append([]bool(nil), script...)
									t.Fatalf("%s", r.Fail(k.repr(tr), "%s", msg))
								}
							}
						}
					}
				}
			}
		}
	}
}

func genDur(vals ...time.Duration) *rapid.Generator[time.Duration] { return rapid.SampledFrom(vals) }

func genSettings() *rapid.Generator[settings] {
	return rapid.Custom(func(t *rapid.T) settings {
		if rapid.IntRange(0, 9).Draw(t, "shipped-defaults") == 0 {
			// proxy/Dockerfile: 1 s between calls, 5 consecutive, 7 s stable, 300 s cool-down
			return settings{N: 5, Period: 7 * time.Second, Interval: time.Second, Cooldown: 300 * time.Second}
		}
		return settings{
			N:        rapid.SampledFrom([]int{1, 1, 2, 2, 3, 3, 4, 5, 6}).Draw(t, "n"),
			Period:   genDur(0, 0, 500*time.Millisecond, time.Second, 2500*time.Millisecond, 3*time.Second, 7*time.Second, 10*time.Second).Draw(t, "period"),
			Interval: genDur(0, 100*time.Millisecond, 500*time.Millisecond, time.Second, time.Second, 2*time.Second).Draw(t, "interval"),
			// cool-downs that are no whole multiple of anything round: 31 s, 45 s, 59 s, 100 s, 1.5 s
			Cooldown: genDur(0, time.Second, 2*time.Second, 5*time.Second, 20*time.Second, 300*time.Second, 45*time.Second, 100*time.Second,
				31*time.Second, 59*time.Second, 1500*time.Millisecond).Draw(t, "cooldown"),
		}
	})
}

// genRuns draws a script as a sequence of runs: short ones (flapping) and ones
// long enough to qualify, up to 200 observations.
func genRuns(n int) *rapid.Generator[[]bool] {
	return rapid.Custom(func(t *rapid.T) []bool {
		first := rapid.Bool().Draw(t, "first")
		lens := rapid.SliceOfN(rapid.OneOf(
			rapid.IntRange(1, 2),
			rapid.IntRange(1, 2),
			rapid.IntRange(max(1, n-1), n+1),
			rapid.IntRange(n, n+8),
			rapid.IntRange(1, 25),
			rapid.IntRange(8, 40),
		), 1, 60).Draw(t, "runs")
		var out []bool
		st := first
		for _, l := range lens {
			for i := 0; i < l && len(out) < 200; i++ {
				out = append(out, st)
			}
			st = !st
		}
		return out
	})
}

func genLatencies(n int) *rapid.Generator[[]time.Duration] {
	return rapid.Custom(func(t *rapid.T) []time.Duration {
		if rapid.Bool().Draw(t, "uniform") {
			return constLat(n, genDur(time.Millisecond, 10*time.Millisecond, 500*time.Millisecond, time.Second).Draw(t, "lat"))
		}
		return rapid.SliceOfN(genDur(time.Millisecond, time.Millisecond, time.Millisecond, 10*time.Millisecond, 500*time.Millisecond, time.Second, 3*time.Second), n, n).Draw(t, "lats")
	})
}

// TestRandomRuns: long random scripts made of runs, wider settings, per-observation latencies.
func TestRandomRuns(t *testing.T) {
	r := ev.New(t, "C20")
	rapid.Check(t, func(t *rapid.T) {
		s := genSettings().Draw(t, "settings")
		script := genRuns(s.N).Draw(t, "script")
		k := kase{S: s, Script: script, Lat: genLatencies(len(script)).Draw(t, "latencies")}
		r.Class(fmt.Sprintf("len<=%d", (len(script)+49)/50*50))
		if msg, tr := evaluate(r, k, func() string { return fingerprintOf(k) }); msg != "" {
			t.Fatalf("%s", r.Fail(k.repr(tr), "%s", msg))
		}
	})
}
