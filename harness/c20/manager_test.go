package c20

// Unit TestWiringThroughManager: the diagnosis fail-safe as the gateway itself wires it. The watcher is not built
// by the harness: a policy-mode routing.HandlingDataManager is set up per case (NewHandlingDataManager + Setup,
// which is what main() calls), and its initializePolicies builds and starts the watcher with the process clock and
// the process context of the context manager. The process clock is the case's virtual clock: for the watcher
// goroutine (recognised by its call stack) a Sleep moves virtual time at once and an After moves it a moment
// later, from a helper goroutine, so that code which waits on "timer or something else" really waits; every
// other goroutine that Setup starts sees the same time line but cannot move it (it is parked until the watcher
// has moved time far enough, as in TestWiringWithProxyFaults). At a generated observation the process is told to
// shut down (the context manager's context is cancelled, which is what SIGTERM does); main() does not exit on
// that, so the fail-safe goes on - and its reactions must still be those of the statement, cool-down included.

import (
	"context"
	"fmt"
	"net"
	"net/http"
	"os"
	"reflect"
	"runtime"
	"strings"
	"sync"
	"sync/atomic"
	"testing"
	"time"

	"lunar/engine/routing"
	contextmanager "lunar/toolkit-core/context-manager"
	"lunar/toolkit-core/logging"

	"github.com/rs/zerolog"
	"pgregory.net/rapid"

	"verif/harness/internal/ev"
)

// wiredClock: see the unit comment. Timers of the watcher goroutine are kept in a list; a driver goroutine fires
// the earliest one (moving virtual time to its due instant) once no timer has been registered for a moment, i.e.
// once the watcher waits. A timer nobody waits for any more (its waiter went on for another reason) stays in the
// list and is fired when its instant comes, like a runtime timer.
type wiredClock struct {
	*vclock
	over *atomic.Bool
	w    *watcherTimers
}

type watcherTimer struct {
	due time.Duration
	ch  chan time.Time
}

type watcherTimers struct {
	mu      sync.Mutex
	pending []watcherTimer
	lastReg time.Time
}

func (c wiredClock) drive() {
	for !c.over.Load() {
		time.Sleep(50 * time.Microsecond)
		c.w.mu.Lock()
		if len(c.w.pending) == 0 || time.Since(c.w.lastReg) < 200*time.Microsecond {
			c.w.mu.Unlock()
			continue
		}
		k := 0
		for i, t := range c.w.pending {
			if t.due < c.w.pending[k].due {
				k = i
			}
		}
		t := c.w.pending[k]
		c.w.pending = append(c.w.pending[:k], c.w.pending[k+1:]...)
		c.w.lastReg = time.Now()
		c.w.mu.Unlock()
		c.vclock.advance(t.due - c.vclock.Off())
		t.ch <- c.vclock.Now()
	}
}

func onWatcherGoroutine() bool {
	var pcs [40]uintptr
	n := runtime.Callers(3, pcs[:])
	frames := runtime.CallersFrames(pcs[:n])
	for {
		f, more := frames.Next()
		if strings.Contains(f.Function, "StateChangeWatcher") {
			return true
		}
		if !more {
			return false
		}
	}
}

func (c wiredClock) Sleep(d time.Duration) {
	if onWatcherGoroutine() {
		c.vclock.Sleep(d)
		return
	}
	parkClock{c.vclock, c.over}.Sleep(d)
}

func (c wiredClock) After(d time.Duration) <-chan time.Time {
	if !onWatcherGoroutine() {
		return parkClock{c.vclock, c.over}.After(d)
	}
	ch := make(chan time.Time, 1)
	c.w.mu.Lock()
	c.w.pending = append(c.w.pending, watcherTimer{due: c.vclock.Off() + d, ch: ch})
	c.w.lastReg = time.Now()
	c.w.mu.Unlock()
	return ch
}

var (
	mgrOnce sync.Once
	mgrTW   *logging.LunarTelemetryWriter
)

func TestWiringThroughManager(t *testing.T) {
	r := ev.New(t, "C20")
	w := setupWiring(t)
	for k, v := range map[string]string{
		"TENANT_NAME": "verif", "LUNAR_STREAMS_ENABLED": "false",
		"DISCOVERY_STATE_LOCATION": t.TempDir() + "/discovery.json", "REMEDY_STATE_LOCATION": t.TempDir() + "/remedy.json",
	} {
		t.Setenv(k, v)
	}
	mgrOnce.Do(func() {
		if ln, err := net.Listen("tcp", "127.0.0.1:5140"); err == nil {
			go func() {
				for {
					c, err := ln.Accept()
					if err != nil {
						return
					}
					go func() {
						buf := make([]byte, 4096)
						for {
							if _, e := c.Read(buf); e != nil {
								return
							}
						}
					}()
				}
			}()
		}
		contextmanager.Get().SetRealClock()
		mgrTW = logging.ConfigureLogger("lunar-engine", false, contextmanager.Get().GetClock())
		if os.Getenv("VERIF_LOG") == "" {
			zerolog.SetGlobalLevel(zerolog.Disabled)
		}
	})
	defer contextmanager.Get().WithContext(context.Background())
	rapid.Check(t, func(rt *rapid.T) {
		s := settings{
			N:        rapid.SampledFrom([]int{1, 2, 2, 3, 5}).Draw(rt, "n"),
			Period:   time.Duration(rapid.SampledFrom([]int{0, 0, 1, 3, 7}).Draw(rt, "period_s")) * time.Second,
			Interval: time.Duration(rapid.SampledFrom([]int{1, 1, 2}).Draw(rt, "interval_s")) * time.Second,
			Cooldown: time.Duration(rapid.SampledFrom([]int{0, 2, 5, 60, 300, 45, 100, 31}).Draw(rt, "cooldown_s")) * time.Second,
		}
		script := genRuns(s.N).Draw(rt, "script")
		if len(script) > 40 {
			script = script[:40]
		}
		k := kase{S: s, Script: script, Lat: genLatencies(len(script)).Draw(rt, "latencies")}
		variants := rapid.SliceOfN(rapid.IntRange(0, 2), len(script), len(script)).Draw(rt, "stats-variants")
		// the shutdown signal arrives while observation number shutdownAt is being made (-1: never)
		shutdownAt := -1
		if rapid.IntRange(0, 3).Draw(rt, "shutdown") != 0 {
			shutdownAt = rapid.IntRange(0, len(script)-1).Draw(rt, "shutdown-at")
		}
		fail := func(tr *trace, format string, a ...any) {
			rep := wiringRepr{kaseRepr: k.repr(nil), Env: map[string]string{"shutdown_signal_during_observation": fmt.Sprint(shutdownAt)}}
			if tr != nil {
				rep.Derived = tr.String()
			}
			rt.Fatalf("%s", r.Fail(rep, format, a...))
		}
		os.Setenv("DIAGNOSIS_FAILSAFE_CONSECUTIVE_N", fmt.Sprint(s.N))
		os.Setenv("DIAGNOSIS_FAILSAFE_MIN_STABLE_SEC", fmt.Sprint(int(s.Period/time.Second)))
		os.Setenv("DIAGNOSIS_FAILSAFE_MIN_SEC_BETWEEN_CALLS", fmt.Sprint(int(s.Interval/time.Second)))
		os.Setenv("DIAGNOSIS_FAILSAFE_COOLDOWN_SEC", fmt.Sprint(int(s.Cooldown/time.Second)))
		clk := newVClock()
		over := &atomic.Bool{}
		wc := wiredClock{clk, over, &watcherTimers{}}
		go wc.drive()
		defer over.Store(true)
		ctx, cancel := context.WithCancel(context.Background())
		defer cancel()
		contextmanager.Get().WithContext(ctx)

		tp := w.rt
		tp.mu.Lock()
		tp.clk, tp.k, tp.variants, tp.idx = clk, k, variants, 0
		tp.obs, tp.snaps, tp.calls = nil, nil, nil
		tp.faults = nil
		tp.done = make(chan struct{})
		tp.onPoll = func(idx int) {
			if idx == shutdownAt {
				cancel()
			}
		}
		tp.acc = nil // set below, before the watcher can poll: Setup builds the accessor first
		tp.mu.Unlock()
		defer func() { tp.mu.Lock(); tp.onPoll, tp.acc = nil, w.acc; tp.mu.Unlock() }()

		// Setup registers the metrics route on net/http's default mux, which refuses a second registration:
		// every manager gets a default mux of its own
		http.DefaultServeMux = http.NewServeMux()
		// the constructor dials the export server with the process clock (three attempts, a second apart, when
		// nobody listens): that happens on a time line of its own, before the case's
		contextmanager.Get().SetClockForVerif(newVClock())
		mgr := routing.NewHandlingDataManager(10*time.Second, nil)
		contextmanager.Get().SetClockForVerif(wc)
		tp.accFn = mgr.GetTxnPoliciesAccessor
		tp.active = true
		var setupErr error
		func() {
			defer func() {
				if p := recover(); p != nil {
					setupErr = fmt.Errorf("panic: %v", p)
				}
			}()
			setupErr = mgr.Setup(mgrTW)
		}()
		defer func() { tp.accFn = nil }()
		if setupErr != nil {
			tp.active = false
			rt.Fatalf("VERIF-INFRA: manager setup: %v", setupErr)
		}
		select {
		case <-tp.done:
		case <-time.After(guard):
			tp.active = false
			rt.Fatalf("VERIF-INFRA: watcher goroutine did not consume the script within %s", guard)
		}
		time.Sleep(300 * time.Microsecond)
		acc := mgr.GetTxnPoliciesAccessor()
		final := snap(acc)
		over.Store(true)
		r.Case()
		if shutdownAt >= 0 {
			r.Class("shutdown signal during the history")
		}
		if len(tp.obs) != len(script) || len(tp.snaps) != len(script)+1 {
			fail(nil, "harness: %d observations / %d snapshots for a script of %d", len(tp.obs), len(tp.snaps), len(script))
		}
		_ = final
		derived := trace{Obs: tp.obs}
		for i := 1; i < len(tp.snaps); i++ {
			if tp.snaps[i].ptr == tp.snaps[i-1].ptr {
				continue
			}
			rec := reactRec{Healthy: tp.snaps[i].diag > 0, T: tp.obs[i-1].B, Obs: i - 1}
			for _, c := range tp.calls {
				if c.T >= tp.obs[i-1].B && (i-1 == len(tp.obs)-1 || c.T <= tp.obs[i].A) {
					rec.T = c.T
					break
				}
			}
			derived.Reacts = append(derived.Reacts, rec)
			sn := tp.snaps[i]
			if !rec.Healthy {
				if sn.diag != 0 || !reflect.DeepEqual(shape(&sn.ptr.Config, true), shape(&w.original, false)) {
					fail(&derived, "after the 'unhealthy' reaction the policies are %v, want the loaded ones without diagnosis %v", shape(&sn.ptr.Config, true), shape(&w.original, false))
				}
			} else if !reflect.DeepEqual(shape(&sn.ptr.Config, true), shape(&w.original, true)) {
				fail(&derived, "after the 'healthy again' reaction the policies are %v, want the last loaded ones %v", shape(&sn.ptr.Config, true), shape(&w.original, true))
			}
		}
		if _, err := checkTrace(s, &derived); err != nil {
			fail(&derived, "%v", err)
		}
		plain, perr := runWatcher(k)
		if perr != nil {
			rt.Fatalf("%v", perr)
		}
		same := len(plain.Reacts) == len(derived.Reacts)
		for i := 0; same && i < len(plain.Reacts); i++ {
			same = plain.Reacts[i].Healthy == derived.Reacts[i].Healthy && plain.Reacts[i].Obs == derived.Reacts[i].Obs
		}
		if !same {
			fail(&derived, "policy changes of the gateway's own diagnosis fail-safe differ from the reactions of a bare watcher on the same script: %s", plain.String())
		}
		r.Class(reactionsClass(len(derived.Reacts)))
		v, _ := checkTrace(s, &derived)
		if (len(derived.Reacts) > 0 || v.obligations > 0) && v.nonQualFlips > 0 {
			r.Class("nontrivial")
			r.NonTrivial("m/"+fingerprintOf(k)+fmt.Sprint(shutdownAt), func() any {
				return wiringRepr{kaseRepr: k.repr(nil), Derived: derived.String(), Env: map[string]string{"shutdown_signal_during_observation": fmt.Sprint(shutdownAt)}}
			})
		}
	})
}
