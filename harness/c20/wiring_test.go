package c20

// Wiring unit: the real diagnosis fail-safe, built by the exported constructor
// failsafe.NewDiagnosisFailsafeStateChangeWatcher, with a real
// config.TxnPoliciesAccessor. All HTTP traffic of the process (the HAProxy
// statistics poll that is the health predicate, and the HAProxy endpoint
// management calls the reactions make) goes through http.DefaultClient, so a
// scripted http.DefaultTransport is all it takes: no socket is opened. The
// transport's RoundTrip runs on the watcher goroutine, so it can end that
// goroutine with runtime.Goexit() once the script is exhausted.

import (
	"fmt"
	"io"
	"net/http"
	"os"
	"path/filepath"
	"reflect"
	"runtime"
	"sort"
	"strings"
	"sync"
	"testing"
	"time"

	"lunar/engine/config"
	"lunar/engine/failsafe"
	sharedConfig "lunar/shared-model/config"

	"github.com/rs/zerolog"
	"pgregory.net/rapid"

	"verif/harness/internal/ev"
	"verif/harness/internal/loglevel"
)

const wiringPolicies = `global:
  remedies:
    - name: global-fixed
      enabled: true
      config:
        fixed_response:
          status_code: 418
  diagnosis:
    - name: global-har
      enabled: true
      config:
        har_exporter:
          transaction_max_size: 1000
          obfuscate:
            enabled: false
      export: file
endpoints:
  - url: h.com/a
    method: GET
    remedies:
      - name: a-fixed
        enabled: true
        config:
          fixed_response:
            status_code: 429
    diagnosis:
      - name: a-har
        enabled: true
        config:
          har_exporter:
            transaction_max_size: 500
            obfuscate:
              enabled: false
        export: file
  - url: h.com/b/*
    method: POST
    diagnosis:
      - name: b-har
        enabled: true
        config:
          har_exporter:
            transaction_max_size: 500
            obfuscate:
              enabled: false
        export: file
exporters:
  file:
    file_dir: %s
    file_name: out.log
`

type haproxyCall struct {
	T      time.Duration
	Method string
	Path   string
}

type snapshot struct {
	ptr  *config.PoliciesData
	diag int // number of diagnosis plugins in the current policies (global + endpoints)
	rem  int // number of remedy plugins
}

// shape lists the plugins of a policies configuration by scope, kind, name and
// enabled flag (diagnosis plugins only when withDiagnosis).
func shape(c *sharedConfig.PoliciesConfig, withDiagnosis bool) []string {
	var out []string
	for _, p := range c.Global.Remedies {
		out = append(out, fmt.Sprintf("global remedy %s %v", p.Name, p.Enabled))
	}
	for _, e := range c.Endpoints {
		for _, p := range e.Remedies {
			out = append(out, fmt.Sprintf("%s %s remedy %s %v", e.Method, e.URL, p.Name, p.Enabled))
		}
	}
	if withDiagnosis {
		for _, p := range c.Global.Diagnosis {
			out = append(out, fmt.Sprintf("global diagnosis %s %v %s", p.Name, p.Enabled, p.Export))
		}
		for _, e := range c.Endpoints {
			for _, p := range e.Diagnosis {
				out = append(out, fmt.Sprintf("%s %s diagnosis %s %v %s", e.Method, e.URL, p.Name, p.Enabled, p.Export))
			}
		}
	}
	sort.Strings(out)
	return out
}

// scriptedTransport answers the statistics poll from the script and records
// everything else.
type scriptedTransport struct {
	clk      *vclock
	acc      *config.TxnPoliciesAccessor
	k        kase
	variants []int
	idx      int
	obs      []obsRec
	snaps    []snapshot // snaps[i]: policies in force when observation i starts; last: at the end
	calls    []haproxyCall
	done     chan struct{}
	active   bool
	// fault injection (unit TestWiringWithProxyFaults): faults[k] = the management calls of the k-th reaction
	// attempt are answered 503. An attempt = the management calls between two statistics polls.
	mu        sync.Mutex
	faults    []bool
	attempt   int
	sincePoll bool
	failed    []reactRec // attempts that were answered 503 (the policies did not change)
	faulty    bool       // the current attempt is a faulted one
	// unit TestWiringThroughManager: the accessor is the manager's own; onPoll(i) runs when observation i starts
	accFn  func() *config.TxnPoliciesAccessor
	onPoll func(idx int)
}

func snap(acc *config.TxnPoliciesAccessor) snapshot {
	d := acc.GetCurrentPoliciesData()
	s := snapshot{ptr: d}
	s.diag = len(d.Config.Global.Diagnosis)
	s.rem = len(d.Config.Global.Remedies)
	for _, e := range d.Config.Endpoints {
		s.diag += len(e.Diagnosis)
		s.rem += len(e.Remedies)
	}
	return s
}

func okResponse(req *http.Request, body string) *http.Response {
	return &http.Response{
		StatusCode: 200, Status: "200 OK", Proto: "HTTP/1.1", ProtoMajor: 1, ProtoMinor: 1,
		Header: http.Header{}, Body: io.NopCloser(strings.NewReader(body)), ContentLength: int64(len(body)), Request: req,
	}
}

// statsCSV renders HAProxy statistics that the predicate reads as healthy / unhealthy
// (DIAGNOSIS_FAILSAFE_HEALTHY_SESSION_RATE=0, .._MAX_LAST_SESSION_SEC=5).
func statsCSV(healthy bool, variant int) string {
	head := "# pxname,svname,qcur,rate,lastsess\n" + "other,FRONTEND,0,7,1\n"
	switch {
	case healthy && variant == 0:
		return head + "lunar,BACKEND,0,0,100\n"
	case healthy && variant == 1:
		return head + "lunar,BACKEND,0,0,6\n"
	case healthy:
		return head + "lunar,BACKEND,0,0,-1\n" // no session yet: cannot evaluate, counts as healthy
	case variant == 0:
		return head + "lunar,BACKEND,0,3,0\n"
	case variant == 1:
		return head + "lunar,BACKEND,0,0,5\n"
	default:
		return head + "lunar,BACKEND,0,1,100\n"
	}
}

func (s *scriptedTransport) RoundTrip(req *http.Request) (*http.Response, error) {
	if !s.active {
		return okResponse(req, "ok"), nil
	}
	if req.URL.Host == "localhost:9000" {
		s.mu.Lock()
		s.sincePoll = true
		s.mu.Unlock()
		acc := s.acc
		if s.accFn != nil {
			acc = s.accFn()
		}
		s.snaps = append(s.snaps, snap(acc))
		if s.onPoll != nil && s.idx < len(s.k.Script) {
			s.onPoll(s.idx)
		}
		if s.idx >= len(s.k.Script) {
			s.active = false
			close(s.done)
			runtime.Goexit()
		}
		a := s.clk.Off()
		s.clk.advance(s.k.Lat[s.idx])
		v := s.k.Script[s.idx]
		s.obs = append(s.obs, obsRec{A: a, B: s.clk.Off(), V: v})
		body := statsCSV(v, s.variants[s.idx])
		s.idx++
		return okResponse(req, body), nil
	}
	s.mu.Lock()
	defer s.mu.Unlock()
	s.calls = append(s.calls, haproxyCall{T: s.clk.Off(), Method: req.Method, Path: req.URL.Path})
	if s.faults != nil && req.Method == http.MethodPut {
		if s.sincePoll {
			// the first management call after a poll: a new reaction attempt begins
			s.sincePoll = false
			s.faulty = s.attempt < len(s.faults) && s.faults[s.attempt]
			s.attempt++
			if s.faulty {
				s.failed = append(s.failed, reactRec{T: s.clk.Off(), Obs: s.idx - 1})
			}
		}
		if s.faulty {
			resp := okResponse(req, "unavailable")
			resp.StatusCode, resp.Status = 503, "503 Service Unavailable"
			return resp, nil
		}
	}
	return okResponse(req, "ok"), nil
}

type wiringEnv struct {
	acc      *config.TxnPoliciesAccessor
	rt       *scriptedTransport
	original sharedConfig.PoliciesConfig
	diag0    int
	rem0     int
}

func setupWiring(t *testing.T) *wiringEnv {
	zerolog.SetGlobalLevel(zerolog.Disabled)
	dir := t.TempDir()
	pol := filepath.Join(dir, "policies.yaml")
	if err := os.WriteFile(pol, []byte(fmt.Sprintf(wiringPolicies, dir)), 0o644); err != nil {
		t.Fatalf("VERIF-INFRA: %v", err)
	}
	t.Setenv("LUNAR_PROXY_POLICIES_CONFIG", pol)
	t.Setenv("LUNAR_PROXY_CONFIG_DIR", dir)
	t.Setenv("DIAGNOSIS_FAILSAFE_HEALTHY_SESSION_RATE", "0")
	t.Setenv("DIAGNOSIS_FAILSAFE_HEALTHY_MAX_LAST_SESSION_SEC", "5")
	rt := &scriptedTransport{}
	prev := http.DefaultTransport
	http.DefaultTransport = rt
	t.Cleanup(func() { http.DefaultTransport = prev })
	res, err := config.BuildInitialFromFile()
	if err != nil {
		t.Fatalf("VERIF-INFRA: cannot build the policies accessor: %v", err)
	}
	w := &wiringEnv{acc: res.Accessor, rt: rt}
	rt.acc = res.Accessor
	s := snap(w.acc)
	w.original, w.diag0, w.rem0 = s.ptr.Config, s.diag, s.rem
	if w.diag0 != 3 || w.rem0 != 2 {
		t.Fatalf("VERIF-INFRA: loaded policies have %d diagnosis / %d remedy plugins, expected 3 / 2", w.diag0, w.rem0)
	}
	return w
}

type wiringRepr struct {
	kaseRepr
	Derived string            `json:"derived_trace"`
	Env     map[string]string `json:"environment,omitempty"`
}

// TestWiring: reactions of the real diagnosis fail-safe are revert-to-diagnosis-free
// and restore-last-loaded, in the order and at the instants the watcher alone produces.
func TestWiring(t *testing.T) {
	r := ev.New(t, "C20")
	w := setupWiring(t)
	rapid.Check(t, func(rt *rapid.T) {
		s := settings{
			N:        rapid.SampledFrom([]int{1, 2, 2, 3, 4, 5, 10, 12}).Draw(rt, "n"),
			Period:   time.Duration(rapid.SampledFrom([]int{0, 0, 1, 3, 7}).Draw(rt, "period_s")) * time.Second,
			Interval: time.Duration(rapid.SampledFrom([]int{0, 1, 1, 2}).Draw(rt, "interval_s")) * time.Second,
			Cooldown: time.Duration(rapid.SampledFrom([]int{0, 2, 5, 300, 45, 100, 31, 59}).Draw(rt, "cooldown_s")) * time.Second,
		}
		script := genRuns(s.N).Draw(rt, "script")
		if len(script) > 60 {
			script = script[:60]
		}
		k := kase{S: s, Script: script, Lat: genLatencies(len(script)).Draw(rt, "latencies")}
		variants := rapid.SliceOfN(rapid.IntRange(0, 2), len(script), len(script)).Draw(rt, "stats-variants")
		// the settings are decimal integers in environment variables; fixed-width (zero-padded) spellings are the
		// same numbers
		env := map[string]string{}
		spell := func(name string, v int) {
			f := rapid.SampledFrom([]string{"%d", "%d", "%d", "%02d", "%03d", "%04d"}).Draw(rt, "spelling")
			env[name] = fmt.Sprintf(f, v)
			if env[name] != fmt.Sprint(v) {
				r.Class("a zero-padded setting")
			}
		}
		spell("DIAGNOSIS_FAILSAFE_CONSECUTIVE_N", s.N)
		spell("DIAGNOSIS_FAILSAFE_MIN_STABLE_SEC", int(s.Period/time.Second))
		spell("DIAGNOSIS_FAILSAFE_MIN_SEC_BETWEEN_CALLS", int(s.Interval/time.Second))
		spell("DIAGNOSIS_FAILSAFE_COOLDOWN_SEC", int(s.Cooldown/time.Second))
		fail := func(tr *trace, format string, a ...any) {
			rep := wiringRepr{kaseRepr: k.repr(nil), Env: env}
			if tr != nil {
				rep.Derived = tr.String()
			}
			rt.Fatalf("%s", r.Fail(rep, format, a...))
		}

		// every case starts from the last loaded policies (diagnosis present)
		if snap(w.acc).diag != w.diag0 {
			if err := w.acc.RevertToLastLoaded(); err != nil {
				rt.Fatalf("VERIF-INFRA: reset: %v", err)
			}
		}
		for name, v := range env {
			os.Setenv(name, v)
		}
		clk := newVClock()
		tp := w.rt
		tp.clk, tp.k, tp.variants, tp.idx = clk, k, variants, 0
		tp.obs, tp.snaps, tp.calls = nil, nil, nil
		tp.done = make(chan struct{})
		tp.active = true
		watcher, err := failsafe.NewDiagnosisFailsafeStateChangeWatcher(w.acc, clk)
		if err != nil {
			rt.Fatalf("VERIF-INFRA: constructor: %v", err)
		}
		watcher.RunInBackground()
		select {
		case <-tp.done:
		case <-time.After(guard):
			rt.Fatalf("VERIF-INFRA: watcher goroutine did not consume the script within %s", guard)
		}
		level := loglevel.Gen().Draw(rt, "log level")
		r.Class("log level " + level)
		defer loglevel.Set(level)()
		r.Case()

		// derive the reaction trace from the policies in force at each observation
		if len(tp.obs) != len(script) || len(tp.snaps) != len(script)+1 {
			fail(nil, "harness: %d observations / %d snapshots for a script of %d", len(tp.obs), len(tp.snaps), len(script))
		}
		derived := trace{Obs: tp.obs}
		for i := 1; i < len(tp.snaps); i++ {
			if tp.snaps[i].ptr == tp.snaps[i-1].ptr {
				continue
			}
			rec := reactRec{Healthy: tp.snaps[i].diag > 0, T: tp.obs[i-1].B, Obs: i - 1}
			for _, c := range tp.calls { // instant of the first HAProxy call the reaction made
				if c.T >= tp.obs[i-1].B && (i-1 == len(tp.obs)-1 || c.T <= tp.obs[i].A) {
					rec.T = c.T
					break
				}
			}
			derived.Reacts = append(derived.Reacts, rec)
			// reactions map to revert / restore
			sn := tp.snaps[i]
			if !rec.Healthy {
				if sn.diag != 0 || !reflect.DeepEqual(shape(&sn.ptr.Config, true), shape(&w.original, false)) {
					fail(&derived, "after the 'unhealthy' reaction the policies are %v, want the loaded ones without diagnosis %v", shape(&sn.ptr.Config, true), shape(&w.original, false))
				}
			} else if !reflect.DeepEqual(shape(&sn.ptr.Config, true), shape(&w.original, true)) {
				fail(&derived, "after the 'healthy again' reaction the policies are %v, want the last loaded ones %v", shape(&sn.ptr.Config, true), shape(&w.original, true))
			}
		}
		if _, err := checkTrace(s, &derived); err != nil {
			fail(&derived, "%v", err)
		}
		// differential: the same script through a bare watcher gives the same reactions
		plain, perr := runWatcher(k)
		if perr != nil {
			rt.Fatalf("%v", perr)
		}
		same := len(plain.Reacts) == len(derived.Reacts)
		for i := 0; same && i < len(plain.Reacts); i++ {
			same = plain.Reacts[i].Healthy == derived.Reacts[i].Healthy && plain.Reacts[i].Obs == derived.Reacts[i].Obs
		}
		if !same {
			fail(&derived, "policy changes of the diagnosis fail-safe differ from the reactions of a bare watcher on the same script: %s", plain.String())
		}
		r.Class(reactionsClass(len(derived.Reacts)))
		if len(tp.calls) > 0 {
			r.ClassN("haproxy-management-calls", int64(len(tp.calls)))
		}
		v, _ := checkTrace(s, &derived)
		if (len(derived.Reacts) > 0 || v.obligations > 0) && v.nonQualFlips > 0 {
			r.Class("nontrivial")
			r.NonTrivial("w/"+fingerprintOf(k), func() any { return wiringRepr{kaseRepr: k.repr(nil), Derived: derived.String()} })
		}
	})
}
