package c20

// Unit TestWiringWithProxyFaults: the wiring unit with a dependency that fails. The reactions of the diagnosis
// fail-safe go through HAProxy's admin API; here the management calls of generated reaction attempts are answered
// 503, so that the revert / restore of that reaction fails. The watcher has then made its reaction (the attempt
// counts as one, at the instant of its first management call); whatever the fail-safe does about the failure, the
// policies must still change only right after a qualifying run of observations - never on their own in the middle
// of a cool-down or of the other state. The process clock (context manager) is the case's virtual clock in a
// variant that parks sleepers of other goroutines until the watcher has moved virtual time past their wake-up
// instant: background work the fail-safe may start (and the accessor's deferred un-registrations) runs inside
// the case's time line instead of in real seconds.

import (
	"fmt"
	"os"
	"reflect"
	"runtime"
	"sort"
	"sync/atomic"
	"testing"
	"time"

	"lunar/engine/failsafe"
	contextmanager "lunar/toolkit-core/context-manager"

	"pgregory.net/rapid"

	"verif/harness/internal/ev"
)

// parkClock is what goroutines other than the watcher see: time is the case's virtual time; Sleep does not move
// it but waits until the watcher has moved it far enough. When the case is over the sleeper ends.
type parkClock struct {
	*vclock
	over *atomic.Bool
}

func (c parkClock) Sleep(d time.Duration) {
	wake := c.vclock.Off() + d
	for c.vclock.Off() < wake {
		if c.over.Load() {
			runtime.Goexit()
		}
		time.Sleep(50 * time.Microsecond)
	}
}

func (c parkClock) After(d time.Duration) <-chan time.Time {
	ch := make(chan time.Time, 1)
	go func() {
		c.Sleep(d)
		ch <- c.vclock.Now()
	}()
	return ch
}

func TestWiringWithProxyFaults(t *testing.T) {
	r := ev.New(t, "C20")
	w := setupWiring(t)
	rapid.Check(t, func(rt *rapid.T) {
		s := settings{
			N:        rapid.SampledFrom([]int{1, 2, 2, 3, 5}).Draw(rt, "n"),
			Period:   time.Duration(rapid.SampledFrom([]int{0, 0, 1, 3, 7}).Draw(rt, "period_s")) * time.Second,
			Interval: time.Duration(rapid.SampledFrom([]int{1, 1, 2}).Draw(rt, "interval_s")) * time.Second,
			Cooldown: time.Duration(rapid.SampledFrom([]int{0, 2, 5, 60, 300, 45, 100, 31}).Draw(rt, "cooldown_s")) * time.Second,
		}
		script := genRuns(s.N).Draw(rt, "script")
		if len(script) > 60 {
			script = script[:60]
		}
		k := kase{S: s, Script: script, Lat: genLatencies(len(script)).Draw(rt, "latencies")}
		variants := rapid.SliceOfN(rapid.IntRange(0, 2), len(script), len(script)).Draw(rt, "stats-variants")
		faults := rapid.SliceOfN(rapid.IntRange(0, 2), 6, 6).Draw(rt, "faults") // 0 = the attempt's calls are answered 503
		fb := make([]bool, len(faults))
		for i, f := range faults {
			fb[i] = f == 0
		}
		fail := func(tr *trace, format string, a ...any) {
			rep := wiringRepr{kaseRepr: k.repr(nil), Env: map[string]string{"faulted_reaction_attempts": fmt.Sprint(fb)}}
			if tr != nil {
				rep.Derived = tr.String()
			}
			rt.Fatalf("%s", r.Fail(rep, format, a...))
		}
		if snap(w.acc).diag != w.diag0 {
			if err := w.acc.RevertToLastLoaded(); err != nil {
				rt.Fatalf("VERIF-INFRA: reset: %v", err)
			}
		}
		os.Setenv("DIAGNOSIS_FAILSAFE_CONSECUTIVE_N", fmt.Sprint(s.N))
		os.Setenv("DIAGNOSIS_FAILSAFE_MIN_STABLE_SEC", fmt.Sprint(int(s.Period/time.Second)))
		os.Setenv("DIAGNOSIS_FAILSAFE_MIN_SEC_BETWEEN_CALLS", fmt.Sprint(int(s.Interval/time.Second)))
		os.Setenv("DIAGNOSIS_FAILSAFE_COOLDOWN_SEC", fmt.Sprint(int(s.Cooldown/time.Second)))
		clk := newVClock()
		over := &atomic.Bool{}
		contextmanager.Get().SetClockForVerif(parkClock{clk, over})
		defer over.Store(true)
		tp := w.rt
		tp.mu.Lock()
		tp.clk, tp.k, tp.variants, tp.idx = clk, k, variants, 0
		tp.obs, tp.snaps, tp.calls = nil, nil, nil
		tp.faults, tp.attempt, tp.sincePoll, tp.failed, tp.faulty = fb, 0, false, nil, false
		tp.done = make(chan struct{})
		tp.active = true
		tp.mu.Unlock()
		watcher, err := failsafe.NewDiagnosisFailsafeStateChangeWatcher(w.acc, clk)
		if err != nil {
			rt.Fatalf("VERIF-INFRA: constructor: %v", err)
		}
		watcher.RunInBackground()
		select {
		case <-tp.done:
		case <-time.After(guard):
			rt.Fatalf("VERIF-INFRA: watcher goroutine did not consume the script within %s", guard)
		}
		// background work that is due inside the case's time line gets a moment to act
		time.Sleep(300 * time.Microsecond)
		final := snap(w.acc)
		over.Store(true)
		r.Case()
		tp.mu.Lock()
		failed := append([]reactRec(nil), tp.failed...)
		tp.faults = nil
		tp.mu.Unlock()
		if len(tp.obs) != len(script) || len(tp.snaps) != len(script)+1 {
			fail(nil, "harness: %d observations / %d snapshots for a script of %d", len(tp.obs), len(tp.snaps), len(script))
		}
		snaps := append(append([]snapshot(nil), tp.snaps...), final)
		derived := trace{Obs: tp.obs}
		for i := 1; i < len(snaps); i++ {
			if snaps[i].ptr == snaps[i-1].ptr {
				continue
			}
			obsIdx := i - 1
			if obsIdx >= len(tp.obs) {
				obsIdx = len(tp.obs) - 1 // a change after the last observation
				fail(&derived, "the policies changed after the last observation although no reaction was due (diagnosis plugins now: %d)", snaps[i].diag)
			}
			derived.Reacts = append(derived.Reacts, reactRec{Healthy: snaps[i].diag > 0, T: tp.obs[obsIdx].B, Obs: obsIdx})
			sn := snaps[i]
			if sn.diag == 0 {
				if !reflect.DeepEqual(shape(&sn.ptr.Config, true), shape(&w.original, false)) {
					fail(&derived, "after the 'unhealthy' reaction the policies are %v, want the loaded ones without diagnosis %v", shape(&sn.ptr.Config, true), shape(&w.original, false))
				}
			} else if !reflect.DeepEqual(shape(&sn.ptr.Config, true), shape(&w.original, true)) {
				fail(&derived, "after the 'healthy again' reaction the policies are %v, want the last loaded ones %v", shape(&sn.ptr.Config, true), shape(&w.original, true))
			}
		}
		// the attempts whose calls were refused are reactions of the watcher too; their direction is the one the
		// watcher was due to take: the opposite of the attempt before
		all := append(append([]reactRec(nil), derived.Reacts...), failed...)
		sort.SliceStable(all, func(i, j int) bool { return all[i].Obs < all[j].Obs })
		isFailed := map[int]bool{}
		for _, f := range failed {
			isFailed[f.Obs] = true
		}
		for i := range all {
			if isFailed[all[i].Obs] {
				all[i].Healthy = i%2 == 1
			}
		}
		derived.Reacts = all
		if len(failed) > 0 {
			r.Class("a reaction's management calls were refused")
		}
		plain, perr := runWatcher(k)
		if perr != nil {
			rt.Fatalf("%v", perr)
		}
		same := len(plain.Reacts) == len(derived.Reacts)
		for i := 0; same && i < len(plain.Reacts); i++ {
			same = plain.Reacts[i].Healthy == derived.Reacts[i].Healthy && plain.Reacts[i].Obs == derived.Reacts[i].Obs
		}
		if !same {
			fail(&derived, "policy changes and refused attempts of the diagnosis fail-safe differ from the reactions of a bare watcher on the same script (%s): a reaction happened that no stable state change called for, or one is missing", plain.String())
		}
		if _, err := checkTrace(s, &derived); err != nil {
			fail(&derived, "%v", err)
		}
		if len(failed) > 0 && len(derived.Reacts) > len(failed) {
			r.NonTrivial("f/"+fingerprintOf(k)+fmt.Sprint(fb), func() any {
				return wiringRepr{kaseRepr: k.repr(nil), Derived: derived.String(), Env: map[string]string{"faulted_reaction_attempts": fmt.Sprint(fb)}}
			})
		}
	})
}
