// C10, unit TestConcurrentFirstArrivals: several requests reach a strategy-based queue remedy at the same
// time while the plugin has no queue for that remedy yet (first traffic after start-up or after a policy
// introduced the remedy). The other units drive one arrival at a time; here the arrivals run freely on real
// goroutines against a virtual clock that stands still, so nobody can be released by a roll-over and nobody
// expires until the verdicts of the first instant have been counted.
package c10

import (
	"context"
	"fmt"
	"sync"
	"sync/atomic"
	"testing"
	"time"

	"lunar/engine/actions"
	"lunar/engine/config"
	lunarMessages "lunar/engine/messages"
	"lunar/engine/services/remedies"
	"lunar/engine/utils"
	"lunar/engine/utils/queue"
	sharedConfig "lunar/shared-model/config"
	"lunar/toolkit-core/logging"

	"go.opentelemetry.io/otel/metric/noop"
	"pgregory.net/rapid"

	"verif/harness/internal/ev"
	"verif/harness/internal/vclock"
)

type firstRound struct {
	Quota    int `json:"quota"`
	Size     int `json:"queue_size"`
	Arrivals int `json:"concurrent_arrivals"`
	LingerUs int `json:"queue_construction_takes_us"` // real time the queue factory takes (widens the window, decides nothing)
}

type firstCase struct {
	Rounds []firstRound `json:"rounds"` // every round addresses a remedy the plugin has not seen before
}

func TestConcurrentFirstArrivals(t *testing.T) {
	r := ev.New(t, "C10")
	rapid.Check(t, func(t *rapid.T) {
		c := firstCase{Rounds: rapid.SliceOfN(rapid.Custom(func(t *rapid.T) firstRound {
			return firstRound{Quota: rapid.IntRange(1, 3).Draw(t, "quota"), Size: rapid.IntRange(1, 6).Draw(t, "size"),
				Arrivals: rapid.IntRange(2, 10).Draw(t, "arrivals"), LingerUs: rapid.SampledFrom([]int{0, 200, 2000}).Draw(t, "linger")}
		}), 1, 4).Draw(t, "rounds")}
		r.CaseN(int64(len(c.Rounds)))
		clk := vclock.New(time.Unix(baseSec, 17))
		clk.SettleTimeout = guard
		ctx, cancel := context.WithCancel(context.Background())
		defer cancel()
		var built atomic.Int64
		var linger atomic.Int64
		factory := func(key queue.QueueKey) queue.DelayedPriorityQueueable {
			built.Add(1)
			if d := linger.Load(); d > 0 {
				time.Sleep(time.Duration(d) * time.Microsecond)
			}
			return queue.NewInMemoryDelayedPriorityQueue(key, clk, logging.ContextLogger{})
		}
		plugin := remedies.NewStrategyBasedQueuePlugin(ctx, clk, logging.ContextLogger{}, noop.NewMeterProvider().Meter("c10"), factory)
		const status = 429
		const ttlS = 5
		for ri, rd := range c.Rounds {
			linger.Store(int64(rd.LingerUs))
			scoped := config.ScopedRemedy{
				Scope: utils.ScopeEndpoint, Method: "GET", NormalizedURL: "h.com/a",
				Remedy: &sharedConfig.Remedy{Name: fmt.Sprintf("first-%d", ri), Enabled: true, Config: sharedConfig.RemedyConfig{
					StrategyBasedQueue: &sharedConfig.StrategyBasedQueueConfig{
						AllowedRequestCount: int64(rd.Quota), WindowSizeInSeconds: 3600, ResponseStatusCode: status,
						TTLSeconds: ttlS, QueueSize: int64(rd.Size),
					},
				}},
			}
			type outcome struct {
				released bool
				bad      string
			}
			results := make(chan outcome, rd.Arrivals)
			var returned atomic.Int64
			start := make(chan struct{})
			var wg sync.WaitGroup
			for i := 0; i < rd.Arrivals; i++ {
				wg.Add(1)
				go func(i int) {
					defer wg.Done()
					<-start
					o := outcome{}
					func() {
						defer func() {
							if p := recover(); p != nil {
								o.bad = fmt.Sprintf("panic in OnRequest: %v", p)
							}
						}()
						a, err := plugin.OnRequest(lunarMessages.OnRequest{
							ID: fmt.Sprintf("f%d-%d", ri, i), SequenceID: fmt.Sprintf("f%d-%d", ri, i), Method: "GET", Scheme: "https",
							URL: "h.com/a", Path: "/a", Headers: map[string]string{"host": "h.com"},
						}, scoped)
						switch x := a.(type) {
						case *actions.NoOpAction:
							o.released = err == nil
						case *actions.EarlyResponseAction:
							if x.Status != status {
								o.bad = fmt.Sprintf("rejected with status %d, configured %d", x.Status, status)
							}
						default:
							o.bad = fmt.Sprintf("unexpected action %T (%v)", a, err)
						}
					}()
					returned.Add(1)
					results <- o
				}(i)
			}
			before := clk.Registrations(enqueueOwner)
			close(start)
			// every arrival has either returned or parked on its time-to-live timer (the clock stands still)
			deadline := time.Now().Add(guard)
			for int(returned.Load())+clk.Registrations(enqueueOwner)-before < rd.Arrivals {
				if time.Now().After(deadline) {
					fmt.Println("VERIF-INFRA: concurrent arrivals neither returned nor parked within the guard time")
					t.Fatalf("infrastructure")
				}
				time.Sleep(200 * time.Microsecond)
			}
			atOnce := int(returned.Load())
			released, rejected := 0, 0
			var bad string
			for i := 0; i < atOnce; i++ {
				o := <-results
				switch {
				case o.bad != "":
					bad = o.bad
				case o.released:
					released++
				default:
					rejected++
				}
			}
			waiting := rd.Arrivals - atOnce
			// let the waiters expire (their verdicts are not judged: the window of this unit never rolls over)
			for i := 0; i < 3 && int(returned.Load()) < rd.Arrivals; i++ {
				if _, err := clk.AdvanceSettle((ttlS+1)*time.Second, procOwner); err != nil {
					fmt.Println("VERIF-INFRA:", err)
					t.Fatalf("infrastructure")
				}
				time.Sleep(time.Millisecond)
			}
			wg.Wait()
			repr := func() any {
				return map[string]any{"case": c, "round": ri, "released_at_once": released, "rejected_at_once": rejected, "waiting": waiting, "queues_built": built.Load()}
			}
			if rd.Arrivals > rd.Quota {
				r.NonTrivial(ev.JSON([]any{rd, ri}), repr)
			}
			r.Class(fmt.Sprintf("arrivals>quota=%v", rd.Arrivals > rd.Quota))
			switch {
			case bad != "":
				t.Fatalf("%s", r.Fail(repr(), "round %d: %s", ri, bad))
			case released > rd.Quota:
				t.Fatalf("%s", r.Fail(repr(), "round %d: %d of %d simultaneous first arrivals were released in one window whose quota is %d", ri, released, rd.Arrivals, rd.Quota))
			case waiting > rd.Size:
				t.Fatalf("%s", r.Fail(repr(), "round %d: %d requests wait in a queue of size %d", ri, waiting, rd.Size))
			case rejected > 0 && rd.Arrivals <= rd.Quota+rd.Size:
				t.Fatalf("%s", r.Fail(repr(), "round %d: %d of %d arrivals were rejected at once although quota %d plus queue size %d has room for all of them", ri, rejected, rd.Arrivals, rd.Quota, rd.Size))
			}
		}
	})
}
