// Package c10 checks property C10: the policy-mode (strategy-based) delayed
// priority queue releases waiters in (priority, arrival) order, never strands a
// waiter whose turn has come, never releases more than the window quota, never
// holds more waiters than the queue size, and rejects only for "queue full" or
// "time-to-live really elapsed with no slot available".
//
// This file holds the two reference models. Both are pure, deterministic
// functions of the schedule; neither looks at the implementation.
//
//   - the statement model (defect == false): a waiter that is between "pushed,
//     queue lock released" and "parked on its done channel" (the hand-off gap)
//     is a waiting request like any other: when a roll-over reaches it, it is
//     granted the slot (counted against that window) and returns true as soon
//     as it proceeds.
//   - the defect model of finding C10-F1 "lost hand-off" (defect == true): a
//     roll-over that reaches a waiter in the gap drops its heap entry without
//     counting it; the waiter is never signalled and can only expire.
package c10

import (
	"fmt"
	"sort"
	"strings"
)

type mstate int

const (
	mHeld   mstate = iota // inside Enqueue, in the hand-off gap
	mParked               // parked in Enqueue's select
	mDone                 // Enqueue returned
)

type mw struct {
	ID       int
	Prio     int
	Ts       int64 // arrival instant (ns since the epoch)
	Deadline int64 // Ts + ttl
	St       mstate
	Token    bool // statement model: slot granted while in the gap
	Lost     bool // defect model: heap entry dropped while in the gap
	Result   bool
}

type model struct {
	defect bool
	quota  int
	size   int
	W      int64
	rel    map[int64]int // releases granted per aligned window index floor(t/W)
	ws     []*mw
	lost   int // number of lost hand-offs so far (defect model only)
	alive  bool
	// lostAt remembers, for the witness text, where the first hand-off was lost
	lostAt  int64
	lostWho int
}

func newModel(defect bool, quota, size int, W int64) *model {
	return &model{defect: defect, quota: quota, size: size, W: W, rel: map[int64]int{}, alive: true}
}

func (m *model) get(id int) *mw {
	for _, w := range m.ws {
		if w.ID == id {
			return w
		}
	}
	return nil
}

func (m *model) live() []*mw {
	out := []*mw{}
	for _, w := range m.ws {
		if w.St != mDone {
			out = append(out, w)
		}
	}
	return out
}

func rankLess(a, b *mw) bool {
	if a.Prio != b.Prio {
		return a.Prio < b.Prio
	}
	if a.Ts != b.Ts {
		return a.Ts < b.Ts
	}
	return a.ID < b.ID
}

func (m *model) free(now int64) int { return m.quota - m.rel[now/m.W] }

// arrive: "admit" (slot of the current window), "full" (rejected: as many
// waiters as the queue size), or "wait" (pushed; the caller is now in the gap).
func (m *model) arrive(now int64, id, prio int, ttl int64) string {
	k := now / m.W
	if m.rel[k] < m.quota {
		m.rel[k]++
		return "admit"
	}
	if len(m.live()) >= m.size {
		return "full"
	}
	m.ws = append(m.ws, &mw{ID: id, Prio: prio, Ts: now, Deadline: now + ttl, St: mHeld})
	return "wait"
}

// proceed: the waiter leaves the gap: "park" or, in the statement model when a
// slot was granted meanwhile, "true".
func (m *model) proceed(id int) string {
	w := m.get(id)
	if w == nil || w.St != mHeld {
		return "?"
	}
	if !m.defect && w.Token {
		w.St, w.Result = mDone, true
		return "true"
	}
	w.St = mParked
	return "park"
}

// candidates of a roll-over in rank order.
func (m *model) candidates() []*mw {
	c := []*mw{}
	for _, w := range m.live() {
		if (m.defect && w.Lost) || (!m.defect && w.Token) {
			continue
		}
		c = append(c, w)
	}
	sort.Slice(c, func(i, j int) bool { return rankLess(c[i], c[j]) })
	return c
}

// roll: the window processor runs at instant now; returns the ids of parked
// waiters that return true (sorted).
func (m *model) roll(now int64) []int {
	k := now / m.W
	avail := m.quota - m.rel[k]
	out := []int{}
	for _, w := range m.candidates() {
		if avail <= 0 {
			break
		}
		switch {
		case w.St == mParked:
			w.St, w.Result = mDone, true
			m.rel[k]++
			avail--
			out = append(out, w.ID)
		case m.defect:
			w.Lost = true
			if m.lost == 0 {
				m.lostAt, m.lostWho = now, w.ID
			}
			m.lost++
		default:
			w.Token = true
			m.rel[k]++
			avail--
		}
	}
	sort.Ints(out)
	return out
}

// ttl: the time-to-live timer of a parked waiter fires.
func (m *model) ttl(id int) string {
	w := m.get(id)
	if w == nil || w.St != mParked {
		return "?"
	}
	w.St, w.Result = mDone, false
	return "false"
}

func (m *model) describe(now int64) string {
	k := now / m.W
	parts := []string{}
	c := m.live()
	sort.Slice(c, func(i, j int) bool { return rankLess(c[i], c[j]) })
	for _, w := range c {
		st := "parked"
		if w.St == mHeld {
			st = "in-gap"
		}
		if w.Token {
			st += ",slot-granted"
		}
		if w.Lost {
			st += ",entry-lost"
		}
		parts = append(parts, fmt.Sprintf("w%d(prio %d, %s)", w.ID, w.Prio, st))
	}
	return fmt.Sprintf("window %d: %d of %d slots used; waiters by rank: [%s]; queue size %d", k, m.rel[k], m.quota, strings.Join(parts, " "), m.size)
}

// clone / adopt: a copy of the model to try an order of two simultaneous events on, and taking such a copy over.
func (m *model) clone() *model {
	c := *m
	c.rel = map[int64]int{}
	for k, v := range m.rel {
		c.rel[k] = v
	}
	c.ws = make([]*mw, len(m.ws))
	for i, w := range m.ws {
		cp := *w
		c.ws[i] = &cp
	}
	return &c
}

func (m *model) adopt(o *model) {
	alive := m.alive
	*m = *o
	m.alive = alive
}
