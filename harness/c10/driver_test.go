package c10

// Driver of the real DelayedPriorityQueue / StrategyBasedQueuePlugin on the
// shared virtual clock.
//
// Observability without any source hook:
//   - every enqueuer is held by vclock.HoldWhere inside clock.After(ttl), i.e.
//     after it pushed its request and released the queue mutex and before it
//     parks in its select (the hand-off gap);
//   - the window processor is a loop owner: its timer is fired explicitly and
//     its pass is complete when it asks for its next timer;
//   - whether a goroutine is parked in Enqueue's select is read from the
//     runtime's goroutine dump (state "select"); a waiter that was signalled is
//     made runnable by the sender before the sender continues, so after the
//     processor has re-armed every waiter is either definitely still parked
//     ("select") or definitely on its way out of Enqueue. No sleeps decide
//     anything; real-time bounds only turn a hang into "inconclusive".
//   - all goroutines are joined at the end of a case: waiters by draining the
//     schedule, the processor by terminating it (runtime.Goexit) inside its next
//     clock.After call once the case's clock is declared dead.

import (
	"context"
	"fmt"
	"runtime"
	"sort"
	"strings"
	"sync"
	"sync/atomic"
	"time"

	"lunar/engine/actions"
	"lunar/engine/config"
	lunarMessages "lunar/engine/messages"
	"lunar/engine/services/remedies"
	"lunar/engine/utils"
	"lunar/engine/utils/queue"
	sharedConfig "lunar/shared-model/config"
	"lunar/toolkit-core/logging"

	"go.opentelemetry.io/otel/metric/noop"

	"verif/harness/internal/vclock"
)

const (
	sec = int64(time.Second)
	// base instant: a multiple of every window size used (lcm(1..3) divides 60 s)
	baseSec = int64(1_700_000_040)
	baseNs  = baseSec * sec

	procOwner    = "DelayedPriorityQueue).process"
	enqueueOwner = "DelayedPriorityQueue).Enqueue"

	guard = 20 * time.Second // real-time bound of any single hand-shake (=> inconclusive)
)

type infraErr struct{ msg string }

func (e infraErr) Error() string { return "VERIF-INFRA: " + e.msg }

func infraf(format string, a ...any) error { return infraErr{fmt.Sprintf(format, a...)} }

// ---- goroutine identities and states ----------------------------------------

func curGoid() int64 {
	var b [64]byte
	n := runtime.Stack(b[:], false)
	id := int64(0)
	for _, c := range b[len("goroutine "):n] {
		if c < '0' || c > '9' {
			break
		}
		id = id*10 + int64(c-'0')
	}
	return id
}

var stackBuf = make([]byte, 1<<16)

// goStates maps goroutine id -> scheduler state ("select", "chan send", "runnable", ...).
func goStates() map[int64]string {
	var dump []byte
	for {
		n := runtime.Stack(stackBuf, true)
		if n < len(stackBuf) {
			dump = stackBuf[:n]
			break
		}
		stackBuf = make([]byte, 2*len(stackBuf))
	}
	out := map[int64]string{}
	s := string(dump)
	for len(s) > 0 {
		if strings.HasPrefix(s, "goroutine ") {
			line := s
			if i := strings.IndexByte(s, '\n'); i >= 0 {
				line = s[:i]
			}
			rest := line[len("goroutine "):]
			id := int64(0)
			j := 0
			for j < len(rest) && rest[j] >= '0' && rest[j] <= '9' {
				id = id*10 + int64(rest[j]-'0')
				j++
			}
			if a := strings.IndexByte(rest, '['); a >= 0 {
				st := rest[a+1:]
				if b := strings.IndexAny(st, ",]"); b >= 0 {
					st = st[:b]
				}
				out[id] = st
			}
		}
		i := strings.Index(s, "\n\n")
		if i < 0 {
			break
		}
		s = s[i+2:]
	}
	return out
}

// ---- the clock handed to lunar -------------------------------------------------

const (
	evAfter = iota
	evResult
)

type wev struct {
	kind  int
	ok    bool
	extra string
}

type rw struct {
	id      int
	goid    int64
	ev      chan wev
	timerID int
	st      mstate
	result  bool
}

// wclock is the shared virtual clock plus notifications: which goroutine is
// about to evaluate clock.After (an enqueuer entering the gap, or the window
// processor re-arming).
type wclock struct {
	*vclock.Clock
	mu       sync.Mutex
	byGoid   map[int64]*rw
	procGoid atomic.Int64
	procCh   chan struct{}
	dead     atomic.Bool
	exitCh   chan struct{}
	holdNow  atomic.Int64
	heldNow  chan struct{}
	letGo    chan struct{}
}

// Now: the queue reads the clock in the time-to-live branch of Enqueue (for its trace line) after the timer fired
// and before it takes the queue lock. A goroutine named in holdNow is kept there once, until letGo is closed: the
// window processor can be run meanwhile - the two then overlap, which firing one timer after the other never does.
func (c *wclock) Now() time.Time {
	if g := c.holdNow.Load(); g != 0 && g == curGoid() {
		c.holdNow.Store(0)
		c.heldNow <- struct{}{}
		<-c.letGo
	}
	return c.Clock.Now()
}

func (c *wclock) register(g int64, w *rw) { c.mu.Lock(); c.byGoid[g] = w; c.mu.Unlock() }
func (c *wclock) unregister(g int64)      { c.mu.Lock(); delete(c.byGoid, g); c.mu.Unlock() }

func (c *wclock) After(d time.Duration) <-chan time.Time {
	g := curGoid()
	c.mu.Lock()
	w := c.byGoid[g]
	c.mu.Unlock()
	if w != nil {
		w.ev <- wev{kind: evAfter}
		return c.Clock.After(d)
	}
	// not an enqueuer: the window processor
	c.procGoid.Store(g)
	if c.dead.Load() {
		close(c.exitCh)
		runtime.Goexit()
	}
	c.procCh <- struct{}{}
	return c.Clock.After(d)
}

// ---- system under test ------------------------------------------------------------

type sys struct {
	clk       *vclock.Clock
	wc        *wclock
	enq       func(id int, prio int, ttl time.Duration) (bool, string)
	ws        []*rw
	procArmed int  // processor timers acknowledged so far
	blocked   bool // processor found blocked in a channel send (it holds the queue mutex)
	killed    bool
}

type config_ struct {
	Quota   int    `json:"quota"`
	WindowS int    `json:"window_s"`
	Size    int    `json:"queue_size"`
	StartNs int64  `json:"start_offset_ns"` // offset of the first instant inside its window
	Gap     string `json:"gap"`             // none | some | all : which enqueuers stay in the hand-off gap
	Via     string `json:"via"`             // queue | plugin
	// Names (plugin): how the priority groups are called - "" = p0, p1, p2; "free" = header values as free text
	// (a comma, a space, parameters): a group is the header value that equals its configured name
	Names string `json:"group_names,omitempty"`
}

var freeGroupNames = []string{"gold", "eu,us", "team a; q=1, b"}

func groupName(style string, prio int) string {
	if style == "free" && prio >= 0 && prio < len(freeGroupNames) {
		return freeGroupNames[prio]
	}
	return fmt.Sprintf("p%d", prio)
}

func newSys(cfg config_) (*sys, error) {
	clk := vclock.New(time.Unix(0, baseNs+cfg.StartNs))
	clk.SettleTimeout = guard
	clk.HoldWhere(func(owner string) bool { return strings.Contains(owner, enqueueOwner) })
	wc := &wclock{Clock: clk, byGoid: map[int64]*rw{}, procCh: make(chan struct{}, 64), exitCh: make(chan struct{})}
	s := &sys{clk: clk, wc: wc}
	strategy := queue.Strategy{WindowQuota: int64(cfg.Quota), WindowSize: time.Duration(cfg.WindowS) * time.Second}
	switch cfg.Via {
	case "queue":
		q := queue.NewInMemoryDelayedPriorityQueue(queue.QueueKey{RemedyName: "q", Strategy: strategy}, wc, logging.ContextLogger{})
		if err := s.ackProcessor(); err != nil {
			return nil, err
		}
		s.enq = func(id int, prio int, ttl time.Duration) (bool, string) {
			ok, err := q.Enqueue(queue.NewRequest(fmt.Sprintf("r%d", id), float64(prio), wc), ttl, int64(cfg.Size))
			if err != nil {
				return ok, "error: " + err.Error()
			}
			return ok, ""
		}
	case "plugin":
		var initErr error
		initQueue := func(key queue.QueueKey) queue.DelayedPriorityQueueable {
			q := queue.NewInMemoryDelayedPriorityQueue(key, wc, logging.ContextLogger{})
			// runs on the first request's goroutine: wait until the new processor has armed its first timer
			initErr = s.ackProcessor()
			return q
		}
		plugin := remedies.NewStrategyBasedQueuePlugin(context.Background(), wc, logging.ContextLogger{},
			noop.NewMeterProvider().Meter("c10"), initQueue)
		const status = 429
		scoped := map[int64]config.ScopedRemedy{}
		for ttlS := int64(1); ttlS <= 9; ttlS++ {
			scoped[ttlS] = config.ScopedRemedy{
				Scope: utils.ScopeEndpoint, Method: "GET", NormalizedURL: "h.com/a",
				Remedy: &sharedConfig.Remedy{Name: "q", Enabled: true, Config: sharedConfig.RemedyConfig{
					StrategyBasedQueue: &sharedConfig.StrategyBasedQueueConfig{
						AllowedRequestCount: int64(cfg.Quota), WindowSizeInSeconds: cfg.WindowS, ResponseStatusCode: status,
						TTLSeconds: float32(ttlS), QueueSize: int64(cfg.Size),
						Prioritization: &sharedConfig.GroupPrioritization{
							GroupBy: sharedConfig.GroupBy{HeaderName: "x-prio"},
							Groups:  map[string]sharedConfig.Prioritization{groupName(cfg.Names, 0): {Priority: 0}, groupName(cfg.Names, 1): {Priority: 1}, groupName(cfg.Names, 2): {Priority: 2}},
						},
					},
				}},
			}
		}
		s.enq = func(id int, prio int, ttl time.Duration) (bool, string) {
			req := lunarMessages.OnRequest{
				ID: fmt.Sprintf("r%d", id), SequenceID: fmt.Sprintf("s%d", id), Method: "GET", Scheme: "https",
				URL: "h.com/a", Path: "/a", Headers: map[string]string{"host": "h.com", "x-prio": groupName(cfg.Names, prio)},
			}
			a, err := plugin.OnRequest(req, scoped[int64(ttl/time.Second)])
			if initErr != nil {
				return false, initErr.Error()
			}
			if err != nil {
				return false, "error: " + err.Error()
			}
			switch x := a.(type) {
			case *actions.NoOpAction:
				return true, ""
			case *actions.EarlyResponseAction:
				if x.Status != status {
					return false, fmt.Sprintf("rejected with status %d, configured %d", x.Status, status)
				}
				return false, ""
			}
			return false, fmt.Sprintf("unexpected action %T", a)
		}
	default:
		return nil, infraf("unknown via %q", cfg.Via)
	}
	return s, nil
}

// ackProcessor waits until the window processor asked for its next timer and
// the timer is registered in the virtual clock.
func (s *sys) ackProcessor() error {
	select {
	case <-s.wc.procCh:
	case <-time.After(guard):
		return infraf("window processor did not arm its timer")
	}
	if err := s.clk.WaitRegistrations(procOwner, s.procArmed+1); err != nil {
		return infraf("%v", err)
	}
	s.procArmed++
	return nil
}

func (s *sys) now() int64 { return s.clk.Now().UnixNano() }

func (s *sys) count(st mstate) int {
	n := 0
	for _, w := range s.ws {
		if w.st == st {
			n++
		}
	}
	return n
}

func (s *sys) get(id int) *rw {
	for _, w := range s.ws {
		if w.id == id {
			return w
		}
	}
	return nil
}

func (s *sys) waitEv(w *rw) (wev, error) {
	select {
	case e := <-w.ev:
		return e, nil
	case <-time.After(guard):
		return wev{}, infraf("request r%d neither returned nor reached its time-to-live timer (goroutine state %q)", w.id, goStates()[w.goid])
	}
}

func (s *sys) finish(w *rw, e wev) string {
	w.st, w.result = mDone, e.ok
	out := "false"
	if e.ok {
		out = "true"
	}
	if e.extra != "" {
		out += " (" + e.extra + ")"
	}
	return out
}

// arrive starts Enqueue on a new goroutine and waits until it returned or is
// held in the gap. Outcomes: "admit", "full", "wait" (+ anomaly text).
func (s *sys) arrive(id, prio int, ttl time.Duration) (string, error) {
	if s.blocked {
		return "", infraf("arrive after the processor blocked")
	}
	w := &rw{id: id, ev: make(chan wev, 4), st: mDone}
	heldBefore := s.count(mHeld)
	s.ws = append(s.ws, w)
	go func() {
		g := curGoid()
		w.goid = g
		s.wc.register(g, w)
		ok, extra := s.enq(id, prio, ttl)
		s.wc.unregister(g)
		w.ev <- wev{kind: evResult, ok: ok, extra: extra}
	}()
	e, err := s.waitEv(w)
	if err != nil {
		return "", err
	}
	if e.kind == evResult {
		r := s.finish(w, e)
		if strings.HasPrefix(r, "true") {
			return "admit" + r[4:], nil
		}
		return "full" + r[5:], nil
	}
	if err := s.clk.WaitHeld(heldBefore + 1); err != nil {
		return "", infraf("enqueuer r%d evaluated clock.After but is not held: %v", id, err)
	}
	known := map[int]bool{}
	for _, x := range s.ws {
		if x.st == mHeld {
			known[x.timerID] = true
		}
	}
	found := false
	for _, h := range s.clk.Held() {
		if !known[h.ID] {
			if !strings.Contains(h.Owner, enqueueOwner) {
				return "", infraf("held timer of unexpected owner %s", h.Owner)
			}
			w.timerID, found = h.ID, true
		}
	}
	if !found {
		return "", infraf("no new held timer for r%d", id)
	}
	w.st = mHeld
	return "wait", nil
}

// settle waits until a waiter that is neither held nor done is parked in its
// select ("park") or has returned ("true"/"false").
func (s *sys) settle(w *rw) (string, error) {
	start := time.Now()
	for i := 0; ; i++ {
		select {
		case e := <-w.ev:
			if e.kind != evResult {
				return "", infraf("r%d evaluated clock.After twice", w.id)
			}
			return s.finish(w, e), nil
		default:
		}
		if goStates()[w.goid] == "select" {
			w.st = mParked
			return "park", nil
		}
		if i < 100 {
			runtime.Gosched()
		} else {
			time.Sleep(20 * time.Microsecond)
		}
		if i%64 == 63 && time.Since(start) > guard {
			return "", infraf("r%d neither parked nor returned (state %q)", w.id, goStates()[w.goid])
		}
	}
}

// proceed lets a held enqueuer leave the gap.
func (s *sys) proceed(w *rw) (string, error) {
	if w.st != mHeld {
		return "", infraf("proceed: r%d is not held", w.id)
	}
	w.st = mParked // provisional; settle decides
	s.clk.Release(w.timerID)
	return s.settle(w)
}

func (s *sys) procTimer() (vclock.Info, bool) {
	for _, p := range s.clk.Pending() {
		if strings.Contains(p.Owner, procOwner) {
			return p, true
		}
	}
	return vclock.Info{}, false
}

// roll fires the processor's timer and waits for its pass to complete. It
// returns the parked waiters that came back ("[1 3]", anomalies appended), or
// blocked=true when the processor is parked in a channel send.
func (s *sys) roll() (obs string, blocked bool, err error) {
	pt, ok := s.procTimer()
	if !ok {
		return "", false, infraf("roll: no processor timer")
	}
	s.clk.Fire(pt.ID)
	blocked, err = s.waitProcessor()
	if err != nil || blocked {
		return "", blocked, err
	}
	obs, err = s.collect()
	return obs, false, err
}

func (s *sys) waitProcessor() (blocked bool, err error) {
	start := time.Now()
	for {
		select {
		case <-s.wc.procCh:
			if err := s.clk.WaitRegistrations(procOwner, s.procArmed+1); err != nil {
				return false, infraf("%v", err)
			}
			s.procArmed++
			return false, nil
		case <-time.After(2 * time.Millisecond):
		}
		if len(s.wc.procCh) > 0 {
			continue // re-armed meanwhile: never judge its state then
		}
		// parked on its timer the processor is in "chan receive"; the original hand-off
		// (select with default) never parks. Parked in a send (or in a select containing
		// one) it waits for a receiver while holding the queue mutex.
		if st := goStates()[s.wc.procGoid.Load()]; st == "chan send" || st == "select" {
			return true, nil
		}
		if time.Since(start) > guard {
			return false, infraf("window processor did not finish its pass (state %q)", goStates()[s.wc.procGoid.Load()])
		}
	}
}

// collect: after a completed processor pass, which parked waiters were signalled?
func (s *sys) collect() (string, error) {
	states := goStates()
	ids := []int{}
	anomalies := []string{}
	for _, w := range s.ws {
		if w.st != mParked || states[w.goid] == "select" {
			continue
		}
		e, err := s.waitEv(w)
		if err != nil {
			return "", err
		}
		r := s.finish(w, e)
		if r == "true" {
			ids = append(ids, w.id)
		} else {
			anomalies = append(anomalies, fmt.Sprintf("w%d:%s", w.id, r))
		}
	}
	sort.Ints(ids)
	out := fmt.Sprint(ids)
	if len(anomalies) > 0 {
		out += " " + strings.Join(anomalies, " ")
	}
	return out, nil
}

// fireTTL fires the time-to-live timer of a parked waiter and joins it.
func (s *sys) fireTTL(w *rw) (string, error) {
	if w.st != mParked {
		return "", infraf("fireTTL: r%d is not parked", w.id)
	}
	if !s.clk.Fire(w.timerID) {
		return "", infraf("fireTTL: timer of r%d is not pending", w.id)
	}
	e, err := s.waitEv(w)
	if err != nil {
		return "", err
	}
	return s.finish(w, e), nil
}

// fireTTLDuringRoll: the waiter's time-to-live timer fires, the waiter is kept between the timer and the queue lock
// (inside its clock reading), the window processor's pass runs, then the waiter goes on. Returns what the pass
// released (the waiter itself left out) and the waiter's result; held=false if the waiter never read the clock there
// (then the timer simply fired first).
func (s *sys) fireTTLDuringRoll(w *rw) (rollObs string, res string, held bool, blocked bool, err error) {
	if w.st != mParked {
		return "", "", false, false, infraf("fireTTLDuringRoll: r%d is not parked", w.id)
	}
	s.wc.heldNow, s.wc.letGo = make(chan struct{}, 1), make(chan struct{})
	s.wc.holdNow.Store(w.goid)
	if !s.clk.Fire(w.timerID) {
		s.wc.holdNow.Store(0)
		return "", "", false, false, infraf("fireTTLDuringRoll: timer of r%d is not pending", w.id)
	}
	var early *wev
	select {
	case <-s.wc.heldNow:
		held = true
	case e := <-w.ev:
		early = &e // returned without reading the clock: nothing to overlap with
		s.wc.holdNow.Store(0)
	case <-time.After(guard):
		s.wc.holdNow.Store(0)
		return "", "", false, false, infraf("r%d neither returned nor read the clock after its time-to-live timer fired", w.id)
	}
	if early != nil {
		res = s.finish(w, *early)
		rollObs, blocked, err = s.roll()
		return rollObs, res, false, blocked, err
	}
	w.st = mDone // keep the pass's collection away from it; its result is read below
	rollObs, blocked, err = s.roll()
	close(s.wc.letGo)
	w.st = mParked
	if err != nil || blocked {
		return rollObs, "", true, blocked, err
	}
	e, err := s.waitEv(w)
	if err != nil {
		return rollObs, "", true, false, err
	}
	return rollObs, s.finish(w, e), true, false, nil
}

// releaseAllHeld is used once the processor was found in a channel send: it may
// be waiting for a waiter that is in the gap.
func (s *sys) releaseAllHeld() error {
	for _, w := range s.ws {
		if w.st == mHeld {
			w.st = mParked
			s.clk.Release(w.timerID)
		}
	}
	return nil
}

// shutdown joins everything the case started. Unchecked: used after the checked
// drain (nothing left but the processor) and on failure paths.
func (s *sys) shutdown() {
	if s.killed {
		return
	}
	s.killed = true
	for _, w := range s.ws {
		if w.st == mHeld {
			w.st = mParked
			s.clk.Release(w.timerID)
		}
	}
	for _, w := range s.ws {
		if w.st == mParked {
			s.clk.Fire(w.timerID)
		}
	}
	for _, w := range s.ws {
		if w.st == mParked {
			limit := 2 * time.Second
			if s.blocked {
				limit = 20 * time.Millisecond // they queue up behind the mutex the processor holds
			}
			select {
			case <-w.ev:
				w.st = mDone
			case <-time.After(limit):
			}
		}
	}
	if s.blocked || s.procArmed == 0 {
		return
	}
	s.wc.dead.Store(true)
	if pt, ok := s.procTimer(); ok {
		s.clk.Fire(pt.ID)
		select {
		case <-s.wc.exitCh:
		case <-time.After(2 * time.Second):
		}
	}
}
