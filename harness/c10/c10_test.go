// C10 — policy-mode delayed queue releases waiters in order and never strands one.
//
// A case is a queue configuration plus a schedule of controller actions
//
//	arrive(priority, ttl[, stay in the hand-off gap])   proceed(waiter)   fire(next due timer)   adv(time)
//
// run against the real queue (or the real plugin) on the virtual clock. After
// every action the system is quiescent (every goroutine returned, held in the
// gap, parked in its select, or - the processor - parked on its timer) and the
// observation of that action is compared with the statement model; a
// disagreement that the defect model of a listed finding reproduces exactly is
// attributed to it, anything else is a violation.
package c10

import (
	"fmt"
	"os"
	"strings"
	"testing"
	"time"

	"github.com/rs/zerolog"
	"pgregory.net/rapid"

	"verif/harness/internal/ev"
	"verif/harness/internal/vclock"
)

func TestMain(m *testing.M) {
	zerolog.SetGlobalLevel(zerolog.Disabled)
	os.Exit(m.Run())
}

// ---- case representation ----------------------------------------------------

type step struct {
	Op   string `json:"op"`             // arrive | proceed | fire | adv
	Prio int    `json:"prio,omitempty"` // arrive: 0 (best) .. 2
	TTLw int    `json:"ttl_windows,omitempty"`
	Stay bool   `json:"stay_in_gap,omitempty"` // arrive: do not let the enqueuer proceed to its select yet
	Pick int    `json:"pick,omitempty"`        // proceed: index among held waiters; fire: index among the timers due first
	Adv  int    `json:"adv,omitempty"`         // adv: 0 = 1 ns, 1 = W/4, 2 = W/2, 3 = up to 1 ns before the next timer, 4 = exactly to the window boundary without running the processor
}

type hist struct {
	Config config_ `json:"config"`
	Steps  []step  `json:"steps"`
}

type failCase struct {
	Case  hist     `json:"case"`
	Trace []string `json:"trace"`
}

func genCase(via string) *rapid.Generator[hist] {
	return rapid.Custom(func(t *rapid.T) hist {
		c := config_{Via: via}
		if via == "plugin" && rapid.IntRange(0, 2).Draw(t, "group-names") == 0 {
			c.Names = "free"
		}
		c.Quota = rapid.IntRange(1, 3).Draw(t, "quota")
		c.WindowS = rapid.IntRange(1, 3).Draw(t, "window_s")
		c.Size = rapid.IntRange(1, 4).Draw(t, "size")
		W := int64(c.WindowS) * sec
		switch rapid.IntRange(0, 5).Draw(t, "start") {
		case 0, 1:
			c.StartNs = 0
		case 2:
			c.StartNs = W / 2
		case 3:
			c.StartNs = W - 1
		case 4:
			c.StartNs = W - 2
		default:
			c.StartNs = rapid.Int64Range(0, W-1).Draw(t, "start_ns")
		}
		c.Gap = rapid.SampledFrom([]string{"none", "some", "some", "all"}).Draw(t, "gap")
		g := genStep(c.Gap)
		// mostly long schedules; the short alternative comes first so that shrinking ends there
		steps := rapid.OneOf(rapid.SliceOfN(g, 1, 10), rapid.SliceOfN(g, 10, 30), rapid.SliceOfN(g, 10, 30), rapid.SliceOfN(g, 10, 30)).Draw(t, "steps")
		return hist{Config: c, Steps: steps}
	})
}

func genStep(gap string) *rapid.Generator[step] {
	ops := []string{"arrive", "arrive", "arrive", "arrive", "arrive", "fire", "fire", "fire", "adv", "adv"}
	if gap != "none" {
		ops = append(ops, "proceed", "proceed")
	}
	return rapid.Custom(func(t *rapid.T) step {
		s := step{Op: rapid.SampledFrom(ops).Draw(t, "op")}
		switch s.Op {
		case "arrive":
			s.Prio = rapid.IntRange(0, 2).Draw(t, "prio")
			s.TTLw = rapid.IntRange(1, 3).Draw(t, "ttl")
			switch gap {
			case "all":
				s.Stay = true
			case "some":
				s.Stay = rapid.Bool().Draw(t, "stay")
			}
		case "proceed", "fire":
			s.Pick = rapid.IntRange(0, 5).Draw(t, "pick")
		case "adv":
			s.Adv = rapid.IntRange(0, 4).Draw(t, "adv")
		}
		return s
	})
}

// ---- controller ---------------------------------------------------------------

type violation struct{ msg string }

func (v violation) Error() string { return v.msg }

type ctl struct {
	h       hist
	s       *sys
	spec    *model
	def     *model
	r       *ev.Recorder
	W       int64
	trace   []string
	classes map[string]int
	nt      bool
	lastArr int64
	nextID  int
	// abandoned: the implementation showed blocking hand-off semantics that the
	// schedule language cannot follow; the rest of the case asserts nothing
	abandoned bool
}

func (c *ctl) logf(format string, a ...any) {
	now := c.s.now() - baseNs
	c.trace = append(c.trace, fmt.Sprintf("t=%s ", time.Duration(now))+fmt.Sprintf(format, a...))
}

// judge compares one observation with the models (each model computes its
// prediction and moves on).
func (c *ctl) judge(what string, obs string, f func(m *model) string) error {
	now := c.s.now()
	specWasAlive := c.spec.alive
	before, ps, pd := "", "", ""
	if c.spec.alive {
		before = c.spec.describe(now)
		if ps = f(c.spec); ps != obs {
			c.spec.alive = false
		}
	}
	if c.def.alive {
		if pd = f(c.def); pd != obs {
			c.def.alive = false
		}
	}
	c.logf("%s -> %s", what, obs)
	if c.spec.alive {
		return nil
	}
	if specWasAlive {
		msg := fmt.Sprintf("%s: observed %s, the statement requires %s (before the action: %s)", what, obs, ps, before)
		if c.def.alive && c.def.lost > 0 {
			why := fmt.Sprintf("the roll-over at t=%s reached waiter w%d while it was between releasing the queue lock and parking on its done channel: its entry was dropped without a signal and without counting the slot",
				time.Duration(c.def.lostAt-baseNs), c.def.lostWho)
			if c.r.KnownFinding("C10-F1", func() any { return map[string]any{"case": c.h, "trace": c.trace, "why": why} }) {
				c.classes["attributed_C10-F1"]++
				return nil
			}
			return violation{msg + "; " + why}
		}
		return violation{msg}
	}
	if c.def.alive {
		return nil
	}
	return violation{fmt.Sprintf("%s: observed %s; after the lost hand-off (C10-F1) the defect model predicts %s - neither model explains the observation", what, obs, pd)}
}

// pending lists the timers that still have a goroutine behind them: the
// processor's and those of waiters that have not returned (a released waiter
// leaves its time-to-live timer behind; firing it wakes nobody).
func (c *ctl) pending() []vclock.Info {
	out := []vclock.Info{}
	for _, p := range c.s.clk.Pending() {
		if strings.Contains(p.Owner, procOwner) {
			out = append(out, p)
			continue
		}
		for _, w := range c.s.ws {
			if w.st != mDone && w.timerID == p.ID {
				out = append(out, p)
			}
		}
	}
	return out
}

// jumpTo moves the virtual clock to exactly target without firing anything: the
// harness registers a marker timer of its own and fires just that one. Timers
// that become due stay pending (their goroutines have "not been scheduled yet").
func (c *ctl) jumpTo(target int64) {
	now := c.s.now()
	if target <= now {
		return
	}
	before := map[int]bool{}
	for _, p := range c.s.clk.Pending() {
		before[p.ID] = true
	}
	c.s.clk.After(time.Duration(target - now))
	for _, p := range c.s.clk.Pending() {
		if !before[p.ID] {
			c.s.clk.Fire(p.ID)
		}
	}
}

func (c *ctl) checkProcTimer() error {
	if c.s.procArmed == 0 {
		return nil
	}
	now := c.s.now()
	pt, ok := c.s.procTimer()
	if !ok {
		return violation{"the window processor has no timer armed: no later roll-over can release a waiter"}
	}
	if want := (now/c.W + 1) * c.W; pt.At.UnixNano() != want {
		return violation{fmt.Sprintf("the window processor is armed for t=%s, the current window ends at t=%s: waiters would not be served at the roll-over",
			time.Duration(pt.At.UnixNano()-baseNs), time.Duration(want-baseNs))}
	}
	return nil
}

func (c *ctl) doArrive(prio, ttlW int, stay bool) error {
	now := c.s.now()
	if now == c.lastArr {
		// arrival instants are distinct (no two requests read the same nanosecond), so ranks are total
		c.jumpTo(now + 1)
		now++
	}
	c.lastArr = now
	id := c.nextID
	c.nextID++
	ttl := time.Duration(int64(ttlW) * c.W)
	firstOfProcessor := c.s.procArmed == 0
	if pt, ok := c.s.procTimer(); ok && pt.At.UnixNano() == now {
		c.classes["arrive_at_boundary_before_roll"]++
	}
	obs, err := c.s.arrive(id, prio, ttl)
	if err != nil {
		return err
	}
	if err := c.judge(fmt.Sprintf("arrive w%d (prio %d, ttl %d windows)", id, prio, ttlW), obs, func(m *model) string {
		return m.arrive(now, id, prio, int64(ttl))
	}); err != nil {
		return err
	}
	c.classes["arrive_"+strings.SplitN(obs, " ", 2)[0]]++
	if firstOfProcessor {
		if err := c.checkProcTimer(); err != nil {
			return err
		}
	}
	if live := c.s.count(mHeld) + c.s.count(mParked); live > c.h.Config.Size {
		return violation{fmt.Sprintf("%d requests wait, the queue size is %d", live, c.h.Config.Size)}
	}
	if obs == "wait" {
		// "its time-to-live really elapsed": the waiter's timer must stand at arrival + ttl
		for _, p := range c.s.clk.Pending() {
			if p.ID == c.s.get(id).timerID && p.At.UnixNano() != now+int64(ttl) {
				return violation{fmt.Sprintf("w%d arrived at t=%s with a time-to-live of %s, its expiry timer is armed for t=%s",
					id, time.Duration(now-baseNs), ttl, time.Duration(p.At.UnixNano()-baseNs))}
			}
		}
		if !stay {
			return c.doProceed(id)
		}
	}
	return nil
}

func (c *ctl) doProceed(id int) error {
	w := c.s.get(id)
	obs, err := c.s.proceed(w)
	if err != nil {
		return err
	}
	c.classes["proceed_"+strings.SplitN(obs, " ", 2)[0]]++
	return c.judge(fmt.Sprintf("w%d leaves the hand-off gap", id), obs, func(m *model) string { return m.proceed(id) })
}

func (c *ctl) doRoll() error {
	now0 := c.s.now()
	pt, _ := c.s.procTimer()
	at := pt.At.UnixNano()
	if at < now0 {
		at = now0
	}
	// classification (before anything moves)
	m := c.spec
	if !m.alive {
		m = c.def
	}
	held, live := c.s.count(mHeld), c.s.count(mHeld)+c.s.count(mParked)
	avail := m.free(at)
	c.classes["roll"]++
	switch {
	case live == 0:
		c.classes["roll_nobody_waits"]++
	case avail <= 0:
		c.classes["roll_quota_taken_by_boundary_arrivals"]++
	}
	if held > 0 {
		c.classes["roll_with_waiter_in_gap"]++
		c.nt = true
	}
	if live >= 2 && avail >= 1 && avail < live {
		c.classes["roll_contested"]++
		c.nt = true
		prios := map[int]bool{}
		for _, w := range m.live() {
			prios[w.Prio] = true
		}
		if len(prios) > 1 {
			c.classes["roll_contested_mixed_priorities"]++
		}
	}
	obs, blocked, err := c.s.roll()
	if err != nil {
		return err
	}
	if blocked {
		return c.processorBlocked()
	}
	if err := c.judge("roll-over", obs, func(m *model) string { return fmt.Sprint(m.roll(at)) }); err != nil {
		return err
	}
	return c.checkProcTimer()
}

// processorBlocked: the processor sits in a channel send while holding the
// queue mutex. If a waiter is in the gap it may be waiting for that waiter
// (blocking hand-off: legitimate, but outside the schedule language); if it
// stays blocked with every waiter parked or returned, the receiver is gone for
// good and so is the processor.
func (c *ctl) processorBlocked() error {
	c.s.blocked = true
	c.logf("roll-over: the window processor is blocked in a channel send")
	if c.s.count(mHeld) > 0 {
		c.s.releaseAllHeld()
		if stillBlocked, err := c.s.waitProcessor(); err != nil {
			return err
		} else if !stillBlocked {
			c.s.blocked = false
			c.abandoned = true
			c.classes["abandoned_blocking_handoff"]++
			return nil
		}
	}
	return violation{"roll-over: the window processor is blocked for good inside the hand-off (channel send to a request whose waiter has already returned) while holding the queue lock: " +
		"no waiter whose turn comes can be released any more and every later Enqueue blocks (" + c.def.describe(c.s.now()) + ")"}
}

func (c *ctl) doTTL(id int) error {
	w := c.s.get(id)
	if w.st == mHeld {
		// the clock cannot fire the timer of a goroutine it holds inside After(): let it park first
		if err := c.doProceed(id); err != nil {
			return err
		}
		if w.st != mParked {
			return nil
		}
	}
	at := int64(0)
	for _, p := range c.s.clk.Pending() {
		if p.ID == w.timerID {
			at = p.At.UnixNano()
		}
	}
	if at%c.W == 0 {
		c.classes["ttl_on_window_boundary"]++
	}
	obs, err := c.s.fireTTL(w)
	if err != nil {
		return err
	}
	c.classes["ttl_"+strings.SplitN(obs, " ", 2)[0]]++
	return c.judge(fmt.Sprintf("time-to-live of w%d fires", id), obs, func(m *model) string { return m.ttl(id) })
}

// doTTLDuringRoll: a waiter's time-to-live fires while the window processor's pass of the same instant runs. Either
// order of the two is an outcome the statement allows - the pass first (the waiter is released if its turn has come,
// otherwise it expires) or the time-to-live first (the waiter expires, the pass hands its slots to the others) - but
// nothing else: in particular not "the pass spent a slot on the waiter and the waiter was rejected".
func (c *ctl) doTTLDuringRoll(w *rw) error {
	pt, _ := c.s.procTimer()
	at := pt.At.UnixNano()
	if now0 := c.s.now(); at < now0 {
		at = now0
	}
	c.classes["ttl_fires_while_the_roll-over_runs"]++
	c.nt = true
	rollObs, res, held, blocked, err := c.s.fireTTLDuringRoll(w)
	if err != nil {
		return err
	}
	if blocked {
		return c.processorBlocked()
	}
	if held {
		c.classes["ttl_waiter_kept_between_timer_and_lock_during_the_pass"]++
	}
	obs := fmt.Sprintf("roll-over released %s, w%d returned %s", rollObs, w.id, strings.SplitN(res, " ", 2)[0])
	without := func(ids []int) []int {
		out := []int{}
		for _, i := range ids {
			if i != w.id {
				out = append(out, i)
			}
		}
		return out
	}
	if err := c.judge(fmt.Sprintf("time-to-live of w%d fires while the roll-over runs", w.id), obs, func(m *model) string {
		passFirst, ttlFirst := m.clone(), m.clone()
		rel := passFirst.roll(at)
		resA := "true"
		got := false
		for _, i := range rel {
			got = got || i == w.id
		}
		if !got {
			resA = passFirst.ttl(w.id)
		}
		a := fmt.Sprintf("roll-over released %v, w%d returned %s", without(rel), w.id, resA)
		resB := ttlFirst.ttl(w.id)
		b := fmt.Sprintf("roll-over released %v, w%d returned %s", ttlFirst.roll(at), w.id, resB)
		switch obs {
		case b:
			m.adopt(ttlFirst)
			return b
		default:
			m.adopt(passFirst)
			return a
		}
	}); err != nil {
		return err
	}
	return c.checkProcTimer()
}

// doFire fires one of the timers that are due first.
func (c *ctl) doFire(pick int) error {
	p := c.pending()
	if len(p) == 0 {
		c.classes["skipped_fire"]++
		return nil
	}
	n := 0
	for n < len(p) && p[n].At.Equal(p[0].At) {
		n++
	}
	if n > 1 {
		c.classes["fire_choice_among_simultaneous_timers"]++
	}
	t := p[pick%n]
	// the window processor's timer and a waiter's time-to-live are due at the same instant: in one case of three
	// the two really overlap (the waiter is kept between its timer and the queue lock while the pass runs)
	if n > 1 && pick%3 == 0 {
		var proc bool
		var racer *rw
		for _, q := range p[:n] {
			if strings.Contains(q.Owner, procOwner) {
				proc = true
				continue
			}
			for _, w := range c.s.ws {
				if w.st == mParked && w.timerID == q.ID && racer == nil {
					racer = w
				}
			}
		}
		if proc && racer != nil {
			return c.doTTLDuringRoll(racer)
		}
	}
	if strings.Contains(t.Owner, procOwner) {
		return c.doRoll()
	}
	for _, w := range c.s.ws {
		if w.st != mDone && w.timerID == t.ID {
			return c.doTTL(w.id)
		}
	}
	return infraf("pending timer %d of %s belongs to nobody", t.ID, t.Owner)
}

func (c *ctl) doAdv(kind int) error {
	now := c.s.now()
	next := int64(-1)
	if p := c.pending(); len(p) > 0 {
		next = p[0].At.UnixNano()
	}
	if kind == 4 {
		// to exactly the next window boundary, the processor not yet scheduled
		b := (now/c.W + 1) * c.W
		if next >= 0 && next < b {
			kind = 3
		} else {
			c.jumpTo(b)
			c.classes["adv_to_boundary_before_processor"]++
			c.logf("(advanced to the window boundary; the processor has not run yet)")
			return nil
		}
	}
	var d int64
	switch kind {
	case 0:
		d = 1
	case 1:
		d = c.W / 4
	case 2:
		d = c.W / 2
	default:
		d = c.W
	}
	if next >= 0 {
		if room := next - now - 1; d > room || kind == 3 {
			d = room
		}
	}
	if d <= 0 {
		c.classes["skipped_adv"]++
		return nil
	}
	c.jumpTo(now + d)
	c.logf("(advanced by %s)", time.Duration(d))
	return nil
}

// drain completes the schedule: waiters in the gap proceed, then timers fire in
// order until nobody waits. Everything is still checked.
func (c *ctl) drain() error {
	for i := 0; i < 200 && !c.abandoned; i++ {
		if c.s.count(mHeld)+c.s.count(mParked) == 0 {
			return nil
		}
		var err error
		if c.s.count(mHeld) > 0 {
			for _, w := range c.s.ws {
				if w.st == mHeld {
					err = c.doProceed(w.id)
					break
				}
			}
		} else {
			err = c.doFire(0)
		}
		if err != nil {
			return err
		}
	}
	if c.abandoned {
		return nil
	}
	return violation{"requests are still waiting after every time-to-live has passed"}
}

func runCase(r *ev.Recorder, h hist) (c *ctl, err error) {
	W := int64(h.Config.WindowS) * sec
	s, err := newSys(h.Config)
	if err != nil {
		return nil, err
	}
	defer s.shutdown()
	c = &ctl{h: h, s: s, r: r, W: W, classes: map[string]int{}, lastArr: -1,
		spec: newModel(false, h.Config.Quota, h.Config.Size, W), def: newModel(true, h.Config.Quota, h.Config.Size, W)}
	c.classes["gap_"+h.Config.Gap]++
	if err := c.checkProcTimer(); err != nil {
		return c, err
	}
	for _, st := range h.Steps {
		if c.abandoned {
			break
		}
		var err error
		switch st.Op {
		case "arrive":
			err = c.doArrive(st.Prio, st.TTLw, st.Stay)
		case "proceed":
			held := []int{}
			for _, w := range s.ws {
				if w.st == mHeld {
					held = append(held, w.id)
				}
			}
			if len(held) == 0 {
				c.classes["skipped_proceed"]++
				continue
			}
			err = c.doProceed(held[st.Pick%len(held)])
		case "fire":
			err = c.doFire(st.Pick)
		case "adv":
			err = c.doAdv(st.Adv)
		default:
			err = infraf("unknown op %q", st.Op)
		}
		if err != nil {
			return c, err
		}
	}
	if err := c.drain(); err != nil {
		return c, err
	}
	// one more roll-over with nobody waiting: the processor must get through whatever the
	// case left behind (entries of expired requests) and arm the next window
	if !c.abandoned && s.procArmed > 0 {
		if err := c.doRoll(); err != nil {
			return c, err
		}
	}
	if c.def.lost > 0 {
		c.classes["case_with_lost_handoff_schedule"]++
	}
	if !c.spec.alive {
		c.classes["case_attributed_C10-F1"]++
	}
	return c, nil
}

func runAndReport(t interface {
	Fatalf(string, ...any)
}, r *ev.Recorder, h hist) *ctl {
	c, err := runCase(r, h)
	if c != nil {
		for k, n := range c.classes {
			r.ClassN(k, int64(n))
		}
	}
	if err != nil {
		if _, infra := err.(infraErr); infra {
			fmt.Println(err.Error())
			t.Fatalf("%v", err)
		}
		fc := failCase{Case: h}
		if c != nil {
			fc.Trace = c.trace
		}
		t.Fatalf("%s", r.Fail(fc, "%v", err))
	}
	if c.nt {
		r.NonTrivial(ev.JSON(h), func() any { return h })
	}
	return c
}

// ---- properties ---------------------------------------------------------------------

func TestQueueSchedules(t *testing.T) {
	r := ev.New(t, "C10")
	rapid.Check(t, func(t *rapid.T) {
		h := genCase("queue").Draw(t, "case")
		r.Case()
		runAndReport(t, r, h)
	})
}

func TestPluginSchedules(t *testing.T) {
	r := ev.New(t, "C10")
	rapid.Check(t, func(t *rapid.T) {
		h := genCase("plugin").Draw(t, "case")
		r.Case()
		runAndReport(t, r, h)
	})
}

// ---- witness of finding C10-F1 (lost hand-off) ----------------------------------------------
//
// quota 1, window 1 s, queue size 1, start in the middle of a window:
//
//	w0 arrives                       -> admitted (the window's only slot)
//	w1 arrives (ttl 1 window), stays in the hand-off gap (pushed, lock released, not yet parked)
//	the window rolls over            -> w1 is the only waiter of an empty window
//	w1 proceeds                      -> must return true; defect: parks
//	w1's time-to-live fires          -> defect: rejected
//
// The test passes iff the defect is absent, or present and listed (open).
func witnessCase(via string) hist {
	return hist{Config: config_{Quota: 1, WindowS: 1, Size: 1, StartNs: sec / 2, Gap: "all", Via: via}, Steps: []step{
		{Op: "arrive", Prio: 0, TTLw: 1, Stay: true},
		{Op: "arrive", Prio: 0, TTLw: 1, Stay: true},
		{Op: "fire"},
		{Op: "proceed"},
		{Op: "fire"},
	}}
}

func TestWitnessLostHandoff(t *testing.T) {
	r := ev.New(t, "C10")
	for _, via := range []string{"queue", "plugin"} {
		h := witnessCase(via)
		r.Case()
		c := runAndReport(t, r, h)
		stranded := !c.spec.alive
		r.Class(fmt.Sprintf("witness_%s_stranded_%v", via, stranded))
		t.Logf("%s: lost hand-off present=%v\n  %s", via, stranded, strings.Join(c.trace, "\n  "))
		if stranded && !r.IsOpen("C10-F1") {
			t.Fatalf("%s", r.Fail(failCase{Case: h, Trace: c.trace}, "lost hand-off present but C10-F1 is not listed"))
		}
	}
}
