// C10, unit TestLargeBacklogOrder: a backlog of hundreds of waiters (the other units keep at most a handful),
// part of which expire while they wait, then a second batch of arrivals, then window after window: every window
// releases exactly its quota, and always the waiters whose turn it is - best priority first, earlier arrival
// first among equals - out of those that are still alive.
package c10

import (
	"fmt"
	"io"
	"sort"
	"testing"
	"time"

	"lunar/engine/utils/queue"
	"lunar/toolkit-core/logging"

	"github.com/rs/zerolog"
	"pgregory.net/rapid"

	"verif/harness/internal/engine"
	"verif/harness/internal/ev"
	"verif/harness/internal/vclock"
)

type backlogCase_ struct {
	Quota   int    `json:"quota"`
	First   int    `json:"first_batch"`
	Second  int    `json:"second_batch"`
	Prios   []int  `json:"priorities"` // per arrival (both batches)
	Short   []bool `json:"short_ttl"`  // per arrival: 2.5 s instead of 1 h
	Windows int    `json:"windows_observed"`
	// LogLevel: the level of the logger handed to the queue ("" = the zero-value logger, logging switched off);
	// Reads: the requests_in_queue gauge is read (Counts) before every roll-over
	LogLevel string `json:"log_level,omitempty"`
	Reads    bool   `json:"metrics_read_before_each_rollover,omitempty"`
}

func TestLargeBacklogOrder(t *testing.T) {
	r := ev.New(t, "C10")
	rapid.Check(t, func(t *rapid.T) {
		// mostly a trickle (1-3 per window: the backlog stays large), in one case of four a quota that drains a large
		// backlog within a few windows (the heap shrinks from hundreds of waiters to a handful)
		c := backlogCase_{Quota: rapid.SampledFrom([]int{1, 2, 3, 1, 2, 3, 1, 2, 3, 40, 100, 150}).Draw(t, "quota"),
			First:    rapid.SampledFrom([]int{20, 120, 130, 200, 260}).Draw(t, "first"),
			Second:   rapid.SampledFrom([]int{0, 10, 70, 130}).Draw(t, "second"),
			Windows:  rapid.IntRange(3, 12).Draw(t, "windows"),
			LogLevel: rapid.SampledFrom([]string{"", "", "debug", "trace", "trace"}).Draw(t, "log-level"),
			Reads:    rapid.Bool().Draw(t, "metrics-reads")}
		n := c.First + c.Second
		pr := rapid.SliceOfN(rapid.IntRange(1, 5), n, n).Draw(t, "prios")
		sh := rapid.SliceOfN(rapid.Bool(), n, n).Draw(t, "short")
		c.Prios, c.Short = pr, sh
		r.Case()
		engine.WithLogLevel(c.LogLevel, func() { backlogCase(t, r, c, n) })
	})
}

func backlogCase(t *rapid.T, r *ev.Recorder, c backlogCase_, n int) {
	{
		const windowS = 10
		clk := vclock.New(time.Unix(baseSec, 0).Add(100 * time.Millisecond))
		clk.SettleTimeout = guard
		logger := logging.ContextLogger{}
		if c.LogLevel != "" {
			logger = logging.ContextLogger{Logger: zerolog.New(io.Discard)}
		}
		q := queue.NewInMemoryDelayedPriorityQueue(queue.QueueKey{RemedyName: "backlog", Strategy: queue.Strategy{WindowQuota: int64(c.Quota), WindowSize: windowS * time.Second}}, clk, logger)
		if err := clk.WaitRegistrations(procOwner, 1); err != nil {
			fmt.Println("VERIF-INFRA:", err)
			t.Fatalf("infrastructure")
		}
		type res struct {
			id int
			ok bool
		}
		results := make(chan res, n+8)
		enq := func(id, prio int, ttl time.Duration) {
			go func() {
				ok, _ := q.Enqueue(queue.NewRequest(fmt.Sprintf("b%d", id), float64(prio), clk), ttl, 100000)
				results <- res{id, ok}
			}()
		}
		fail := func(format string, a ...any) {
			t.Fatalf("%s", r.Fail(c, format, a...))
		}
		// the current window's quota is used up by a first burst (released at once)
		for i := 0; i < c.Quota; i++ {
			enq(-1-i, 1, time.Hour)
			select {
			case x := <-results:
				if !x.ok {
					fail("a request arriving with quota free was refused")
				}
			case <-time.After(guard):
				fmt.Println("VERIF-INFRA: the first arrival did not return")
				t.Fatalf("infrastructure")
			}
		}
		live := map[int]blWaiter{}
		parked := 0
		arrive := func(id int) {
			ttl := time.Hour
			if c.Short[id] {
				ttl = 2500 * time.Millisecond
			}
			clk.Advance(time.Millisecond)
			enq(id, c.Prios[id], ttl)
			parked++
			if err := clk.WaitRegistrations(enqueueOwner, parked); err != nil {
				fmt.Println("VERIF-INFRA:", err)
				t.Fatalf("infrastructure")
			}
			live[id] = blWaiter{id, c.Prios[id], clk.Now().Add(ttl)}
		}
		// collect what came back since the last call: released (true) or expired (false)
		collect := func(wantReleased int) (released []int) {
			// releases follow the clock within microseconds; five real seconds without them is "not released"
			deadline := time.Now().Add(5 * time.Second)
			for {
				select {
				case x := <-results:
					w, ok := live[x.id]
					if !ok {
						fail("request %d got a second verdict", x.id)
					}
					delete(live, x.id)
					if x.ok {
						released = append(released, x.id)
					} else if clk.Now().Before(w.expires) {
						fail("request %d (priority %d) was rejected %v before its time-to-live ended although the queue is far from full", x.id, w.prio, w.expires.Sub(clk.Now()))
					}
					continue
				default:
				}
				pendingExpired := 0
				for _, w := range live {
					if !clk.Now().Before(w.expires) {
						pendingExpired++
					}
				}
				if len(released) >= wantReleased && pendingExpired == 0 {
					// a short grace for verdicts nobody should get
					time.Sleep(2 * time.Millisecond)
					if len(results) == 0 {
						return released
					}
					continue
				}
				if time.Now().After(deadline) {
					return released
				}
				time.Sleep(200 * time.Microsecond)
			}
		}
		for id := 0; id < c.First; id++ {
			arrive(id)
		}
		// 3 s later (still inside the first window): the short-lived waiters have expired
		clk.Advance(3 * time.Second)
		if rel := collect(0); len(rel) > 0 {
			fail("%d waiters were released inside a window whose quota is used up", len(rel))
		}
		for id := c.First; id < n; id++ {
			arrive(id)
		}
		expired := 0
		for id := 0; id < c.First; id++ {
			if c.Short[id] {
				expired++
			}
		}
		if expired > 0 && n >= 128 {
			r.NonTrivial(ev.JSON([]int{c.Quota, c.First, c.Second, c.Windows, expired}), func() any { return c })
		}
		r.Class(fmt.Sprintf("backlog>=128=%v", n >= 128))
		// window after window
		for wdw := 0; wdw < c.Windows; wdw++ {
			next := time.Unix(0, (clk.Now().UnixNano()/int64(windowS*time.Second)+1)*int64(windowS*time.Second))
			// first up to 1 ms before the roll-over, and let every waiter whose time-to-live ended on the way
			// take notice (virtual seconds pass in real microseconds: an expired waiter must not still be on its
			// way out when the window processor runs)
			clk.Advance(next.Sub(clk.Now()) - time.Millisecond)
			if c.Reads {
				_ = q.Counts()
			}
			if rel := collect(0); len(rel) > 0 {
				fail("window %d: %d waiters were released before the roll-over", wdw, len(rel))
			}
			if _, err := clk.AdvanceSettle(next.Sub(clk.Now()), procOwner); err != nil {
				fmt.Println("VERIF-INFRA:", err)
				t.Fatalf("infrastructure")
			}
			// who should be released: the best `quota` waiters alive at the roll-over
			alive := []blWaiter{}
			for _, w := range live {
				if clk.Now().Before(w.expires) {
					alive = append(alive, w)
				}
			}
			sort.Slice(alive, func(i, j int) bool {
				if alive[i].prio != alive[j].prio {
					return alive[i].prio < alive[j].prio
				}
				return alive[i].id < alive[j].id
			})
			want := c.Quota
			if len(alive) < want {
				want = len(alive)
			}
			rel := collect(want)
			if len(rel) != want {
				fail("window %d: %d waiters were released, quota %d with %d waiting", wdw, len(rel), c.Quota, len(alive))
			}
			sort.Ints(rel)
			exp := []int{}
			for _, w := range alive[:want] {
				exp = append(exp, w.id)
			}
			sort.Ints(exp)
			for i := range exp {
				if rel[i] != exp[i] {
					fail("window %d: released %v, but it was the turn of %v (priority first, then arrival; %d alive waiters, best priorities %v)", wdw, rel, exp, len(alive), prioOf(alive, want+2))
				}
			}
		}
		// let everybody go: advance past every time-to-live
		clk.Advance(2 * time.Hour)
		deadline := time.Now().Add(guard)
		for len(live) > 0 && time.Now().Before(deadline) {
			select {
			case x := <-results:
				delete(live, x.id)
			default:
				time.Sleep(time.Millisecond)
				clk.Advance(windowS * time.Second)
			}
		}
	}
}

type blWaiter struct {
	id, prio int
	expires  time.Time
}

func prioOf(ws []blWaiter, n int) []string {
	out := []string{}
	for i := 0; i < n && i < len(ws); i++ {
		out = append(out, fmt.Sprintf("#%d:p%d", ws[i].id, ws[i].prio))
	}
	return out
}
