// C16, thorough tier: byte-level search through ObfuscateJSON.
//
// A compiled test binary cannot run `go test -fuzz`, so the byte-level search
// of the thorough tier is a rapid property over byte strings obtained by
// mutating valid generated documents (TestObfuscateJSONBytes). The native fuzz
// target FuzzObfuscateJSON shares the same oracle; the driver runs its seed
// corpus as a plain unit, and `go test -fuzz=FuzzObfuscateJSON ./c16` can be
// used by hand for open-ended fuzzing.
package c16

import (
	"fmt"
	"strings"
	"testing"
	"unicode/utf8"

	"pgregory.net/rapid"

	"verif/harness/internal/ev"
)

func isHashString(n *node) bool {
	if n.K != kStr || len(n.S) != 32 {
		return false
	}
	for _, c := range n.S {
		if !(c >= '0' && c <= '9' || c >= 'a' && c <= 'f') {
			return false
		}
	}
	return true
}

// judgeBytes applies the oracle to an arbitrary byte string.
//
//	in the statement's domain (valid UTF-8 JSON, unique keys, finite numbers,
//	and — when exclusions are given — keys the cursor notation can express):
//	   the full leaf-by-leaf oracle;
//	outside it: ObfuscateJSON may reject the text (callers then hash the whole
//	   body); if it accepts it, no exclusion is given and the output is JSON,
//	   all leaves of the output must be hash strings.
//
// A panic inside ObfuscateJSON fails the test through rapid / the fuzz engine.
func judgeBytes(text string, excl []string) (class string, v verdict, out string) {
	out, err := md5Obfuscator.ObfuscateJSON(text, excl)
	in, perr := parseDoc(text)
	inDomain := perr == nil && utf8.ValidString(text)
	why := "not-json"
	if perr == nil && !utf8.ValidString(text) {
		why = "invalid-utf8"
	}
	if inDomain {
		ok, w := strictDomain(in)
		if !ok && !(w == "key-with-cursor-metachar" && len(excl) == 0) {
			inDomain, why = false, w
		}
	}
	if inDomain {
		if err != nil {
			return "in-domain", verdict{err: fmt.Errorf("ObfuscateJSON rejects a valid JSON document: %v", err)}, out
		}
		return "in-domain", judge(text, out, refFromCursors(excl), excl), out
	}
	if err != nil {
		return "rejected:" + why, verdict{}, out
	}
	if len(excl) > 0 {
		return "accepted-out-of-domain-with-exclusions:" + why, verdict{}, out
	}
	o, oerr := parseDoc(out)
	if oerr != nil {
		// garbage in, garbage out (e.g. a raw control byte inside a key is
		// copied through): the statement does not speak about non-JSON input
		return "accepted-out-of-domain-output-not-json:" + why, verdict{}, out
	}
	for _, l := range walk(o) {
		if l.n.K != kObj && l.n.K != kArr && !isHashString(l.n) {
			return "accepted-out-of-domain:" + why, verdict{err: fmt.Errorf("input accepted, but output leaf at %q is %s, not a hash", cursorString(l.segs), brief(l.n))}, out
		}
	}
	return "accepted-out-of-domain:" + why, verdict{}, out
}

var mutationBytes = []byte("{}[]\",:\\ \n\t0123456789.-+eEtfnulrsa$\x00\x1f\x7f\x80\xc3\xff")

var mutationTokens = []string{
	`,"a":1`, `"a":`, `[]`, `{}`, `null`, `true`, `1e999`, `-`, `"\ud800"`, `"\u0000"`, `,`, `:`, `"name":"x",`, `[[[[`, `]]`, `0x10`, `01`, `1.`, `.5`, `NaN`, `inf`, `"\x"`, `/**/`, `'a'`, "\xef\xbb\xbf",
}

func genBytes(t *rapid.T) (string, []string) {
	d := genDocument(t)
	var excl []string
	if rapid.Bool().Draw(t, "with-exclusions") {
		excl = genCursorExclusions(t, d.root, "excl")
	}
	// one document in eight repeats a member name inside an object (RFC 8259: names SHOULD be unique; parsers
	// accept repetitions): the repeated member carries a scalar of its own, which is a value like any other
	if chance(t, "repeated-member", 1, 8) {
		var objs []*node
		for _, l := range walk(d.root) {
			if l.n.K == kObj && len(l.n.Keys) > 0 {
				objs = append(objs, l.n)
			}
		}
		if len(objs) > 0 {
			o := objs[rapid.IntRange(0, len(objs)-1).Draw(t, "repeat-in")]
			k := rapid.IntRange(0, len(o.Keys)-1).Draw(t, "repeat-key")
			v := rapid.SampledFrom([]*node{{K: kStr, S: "s3cr3t-value"}, {K: kNum, N: "987654"}, {K: kBool, B: true}, {K: kStr, S: "owner@corp.example"}}).Draw(t, "repeat-value")
			o.Keys = append(o.Keys, o.Keys[k])
			o.Vals = append(o.Vals, v)
			if o.rawKeys != nil {
				o.rawKeys = append(o.rawKeys, o.rawKeys[k])
			}
			d.text = render(d.root, false)
			if chance(t, "repeat-only", 1, 2) {
				return d.text, nil // no exclusions, no byte mutations: the input is accepted and every leaf must come out hashed
			}
		}
	}
	b := []byte(d.text)
	if chance(t, "free-text", 1, 10) {
		b = rapid.SliceOfN(rapid.SampledFrom(mutationBytes), 0, 24).Draw(t, "bytes")
		return string(b), excl
	}
	nm := rapid.IntRange(0, 3).Draw(t, "mutations")
	for i := 0; i < nm; i++ {
		tag := fmt.Sprintf("m%d", i)
		pos := rapid.IntRange(0, len(b)).Draw(t, tag+"-pos")
		switch rapid.SampledFrom([]string{"delete", "insert", "replace", "token", "duplicate", "truncate"}).Draw(t, tag+"-op") {
		case "delete":
			if pos < len(b) {
				b = append(append([]byte(nil), b[:pos]...), b[pos+1:]...)
			}
		case "insert":
			c := rapid.SampledFrom(mutationBytes).Draw(t, tag+"-byte")
			b = append(append(append([]byte(nil), b[:pos]...), c), b[pos:]...)
		case "replace":
			if pos < len(b) {
				b = append([]byte(nil), b...)
				b[pos] = rapid.SampledFrom(mutationBytes).Draw(t, tag+"-byte")
			}
		case "token":
			tok := rapid.SampledFrom(mutationTokens).Draw(t, tag+"-token")
			b = append(append(append([]byte(nil), b[:pos]...), tok...), b[pos:]...)
		case "duplicate":
			end := rapid.IntRange(pos, len(b)).Draw(t, tag+"-end")
			b = append(append(append([]byte(nil), b[:end]...), b[pos:end]...), b[end:]...)
		case "truncate":
			b = append([]byte(nil), b[:pos]...)
		}
	}
	return string(b), excl
}

func TestObfuscateJSONBytes(t *testing.T) {
	r := ev.New(t, "C16")
	rapid.Check(t, func(t *rapid.T) {
		text, excl := genBytes(t)
		r.Case()
		class, v, out := judgeBytes(text, excl)
		r.Class(strings.SplitN(class, ":", 2)[0])
		if strings.Contains(class, ":") {
			r.Class(class)
		}
		c := bodyCase{Route: "Obfuscator.ObfuscateJSON (bytes)", Doc: text, Exclusions: excl, Output: out}
		if class == "in-domain" {
			if in, err := parseDoc(text); err == nil && nonTrivial(in, refFromCursors(excl)) {
				r.NonTrivial(ev.JSON(c), func() any { return c })
			}
		}
		settle(t, r, v, c)
	})
}

// FuzzObfuscateJSON: native fuzz target with the same oracle. Exclusions are
// passed as one newline-separated string.
func FuzzObfuscateJSON(f *testing.F) {
	r := ev.New(f, "C16")
	seeds := []struct{ doc, excl string }{
		{`{"key": "value"}`, ""},
		{`{"name":"top","user":{"name":"Alice","id":10.5}}`, ".user.id"},
		{`[{"foo":"lorem","bar":"de omnibus"},{"foo":"ipsum","bar":"dubitandum est"}]`, "[].bar"},
		{`{"data":{"comeOnIn":[{"foo":"lorem","bar":true},{"foo":null,"bar":[1,2,[3]]}]}}`, ".data.comeOnIn[].bar\n.data.missing"},
		{`"foo"`, ""}, {`10.999`, ""}, {`true`, ""}, {`null`, ""}, {`[]`, ""}, {`{}`, ""},
		{`{"a":{"a":{"a":{"a":1e3}}},"b":[[],[[]],{}]}`, ".a.a"},
		{`{"a":1,"a":2}`, ""}, {`{"a.b":1,"a":{"b":2}}`, ".a.b"},
		{`{"s":"😀é\n\"\\"}`, ""}, {"{\"s\":\"\xff\"}", ""},
		{`{field`, ""}, {``, ""}, {`1e999`, ""}, {`[1,]`, ""}, {`nan`, ""}, {`-`, ""}, {` {"a" : [ 1 , 2 ] } `, ".a[]"},
		{strings.Repeat("[", 300) + strings.Repeat("]", 300), ""},
	}
	for _, s := range seeds {
		f.Add([]byte(s.doc), s.excl)
	}
	f.Fuzz(func(t *testing.T, data []byte, exclJoined string) {
		var excl []string
		if exclJoined != "" {
			excl = strings.Split(exclJoined, "\n")
		}
		r.Case()
		class, v, out := judgeBytes(string(data), excl)
		r.Class(strings.SplitN(class, ":", 2)[0])
		settle(t, r, v, bodyCase{Route: "FuzzObfuscateJSON", Doc: string(data), Exclusions: excl, Output: out})
	})
}
