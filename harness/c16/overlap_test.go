package c16

// Unit TestHARGeneratorPluginOverlapped: the diagnosis HAR generator is ONE plugin instance for every transaction
// of every HAR-exporter diagnosis, and the diagnosis worker is not the only caller. Two transactions of two
// diagnoses with different obfuscation settings overlap here on purpose: the hasher the plugin was built with is
// the yield point - transaction A is stopped at one of its first hash computations (headers, URL and query are
// hashed before the bodies), transaction B runs from start to end on the same plugin, then A goes on. Both
// outputs are judged against their OWN exclusion lists with the oracle of the other units.

import (
	"bytes"
	"runtime"
	"strconv"
	"sync"
	"sync/atomic"
	"testing"
	"time"

	"lunar/engine/config"
	lunarMessages "lunar/engine/messages"
	"lunar/engine/services/diagnoses"
	"lunar/engine/utils/obfuscation"
	sharedConfig "lunar/shared-model/config"
	"lunar/toolkit-core/clock"

	"pgregory.net/rapid"

	"verif/harness/internal/ev"
)

func goroutineID() int64 {
	b := make([]byte, 64)
	b = b[:runtime.Stack(b, false)]
	b = bytes.TrimPrefix(b, []byte("goroutine "))
	if i := bytes.IndexByte(b, ' '); i > 0 {
		n, _ := strconv.ParseInt(string(b[:i]), 10, 64)
		return n
	}
	return -1
}

// gateHasher hashes like the production hasher; the goroutine registered as `who` is stopped at its k-th call.
type gateHasher struct {
	mu      sync.Mutex
	who     int64
	k, seen int
	parked  chan struct{}
	release chan struct{}
	armed   atomic.Bool
}

func (g *gateHasher) HashBytes(raw []byte) string {
	if g.armed.Load() && goroutineID() == g.who {
		g.mu.Lock()
		g.seen++
		hit := g.seen == g.k
		g.mu.Unlock()
		if hit && g.armed.CompareAndSwap(true, false) {
			close(g.parked)
			<-g.release
		}
	}
	return obfuscation.MD5Hasher{}.HashBytes(raw)
}

func TestHARGeneratorPluginOverlapped(t *testing.T) {
	r := ev.New(t, "C16")
	gate := &gateHasher{}
	plugin := diagnoses.NewHARGeneratorPlugin(clock.NewMockClock(), obfuscation.Obfuscator{Hasher: gate})
	tree, err := config.BuildEndpointPolicyTree([]sharedConfig.EndpointConfig{})
	if err != nil {
		t.Fatalf("VERIF-INFRA: BuildEndpointPolicyTree: %v", err)
	}
	t0 := time.Date(2026, 1, 2, 3, 4, 5, 0, time.UTC)
	type txn struct {
		rq, rp        genDoc
		exReq, exResp []string
		enabled       bool
		outReq        string
		outResp       string
		err           error
		ok            bool
	}
	rapid.Check(t, func(t *rapid.T) {
		mk := func(label string, enabled bool) *txn {
			x := &txn{rq: genDocument(t), rp: genDocument(t), enabled: enabled}
			x.exReq = genCursorExclusions(t, x.rq.root, label+"-req-excl")
			x.exResp = genCursorExclusions(t, x.rp.root, label+"-resp-excl")
			return x
		}
		a := mk("a", true)
		b := mk("b", chance(t, "b-obfuscates", 2, 3))
		if chance(t, "b-excludes-everything", 1, 3) {
			b.exReq, b.exResp = []string{""}, []string{""}
		}
		k := rapid.IntRange(1, 4).Draw(t, "a-stops-at-hash")
		r.Case()
		run := func(x *txn, id string) {
			cfg := sharedConfig.HARExporterConfig{TransactionMaxSize: 1 << 30, Obfuscate: sharedConfig.Obfuscate{Enabled: x.enabled,
				Exclusions: sharedConfig.ObfuscationExclusions{RequestBodyPaths: x.exReq, ResponseBodyPaths: x.exResp}}}
			onReq := lunarMessages.OnRequest{ID: id, SequenceID: id, Method: "POST", Scheme: "https", URL: "example.com/users/12345", Path: "/users/12345",
				Query: "a=1&b=2", Headers: map[string]string{"content-type": "application/json", "authorization": "secret-" + id}, Body: x.rq.text, Time: t0}
			onResp := lunarMessages.OnResponse{ID: id, SequenceID: id, Method: "POST", URL: "example.com/users/12345", Status: 200,
				Headers: map[string]string{"content-type": "application/json"}, Body: x.rp.text, Time: t0.Add(time.Second)}
			h, err := plugin.GenerateHAR(onReq, onResp, tree, &cfg)
			x.err = err
			if err == nil && h != nil && len(h.Log.Entries) == 1 {
				s1, ok1 := h.Log.Entries[0].Request.Body.(string)
				s2, ok2 := h.Log.Entries[0].Response.Content.(string)
				x.outReq, x.outResp, x.ok = s1, s2, ok1 && ok2
			}
		}
		gate.mu.Lock()
		gate.k, gate.seen = k, 0
		gate.parked, gate.release = make(chan struct{}), make(chan struct{})
		gate.mu.Unlock()
		done := make(chan struct{})
		go func() {
			gate.who = goroutineID()
			gate.armed.Store(true)
			run(a, "txn-a")
			close(done)
		}()
		overlapped := false
		select {
		case <-gate.parked:
			overlapped = true
			run(b, "txn-b")
			close(gate.release)
			<-done
		case <-done:
			// A made fewer hash computations than k
			gate.armed.Store(false)
			run(b, "txn-b")
		}
		whole := map[string]any{"route": "har-generator-plugin, two overlapping transactions", "a_request_body": a.rq.text, "a_response_body": a.rp.text,
			"a_request_body_paths": a.exReq, "a_response_body_paths": a.exResp, "b_obfuscation_enabled": b.enabled, "b_request_body_paths": b.exReq,
			"b_response_body_paths": b.exResp, "a_stopped_at_hash": k, "overlapped": overlapped}
		if a.err != nil || !a.ok {
			t.Fatalf("%s", r.Fail(whole, "GenerateHAR of transaction A: err=%v", a.err))
		}
		if overlapped {
			r.Class("transaction B ran while A was inside the plugin")
			r.NonTrivial(ev.JSON(whole), func() any { return whole })
		}
		rsReq, rsResp := refFromCursors(a.exReq), refFromCursors(a.exResp)
		settle(t, r, judge(a.rq.text, a.outReq, rsReq, a.exReq),
			bodyCase{Route: "har-generator-plugin request body of a transaction overlapped by another diagnosis' transaction", Side: "request", Doc: a.rq.text, Exclusions: a.exReq, Output: a.outReq})
		settle(t, r, judge(a.rp.text, a.outResp, rsResp, a.exResp),
			bodyCase{Route: "har-generator-plugin response body of a transaction overlapped by another diagnosis' transaction", Side: "response", Doc: a.rp.text, Exclusions: a.exResp, Output: a.outResp})
		if b.enabled && b.err == nil && b.ok {
			bReq, bResp := refFromCursors(b.exReq), refFromCursors(b.exResp)
			settle(t, r, judge(b.rq.text, b.outReq, bReq, b.exReq),
				bodyCase{Route: "har-generator-plugin request body (the overlapping transaction)", Side: "request", Doc: b.rq.text, Exclusions: b.exReq, Output: b.outReq})
			settle(t, r, judge(b.rp.text, b.outResp, bResp, b.exResp),
				bodyCase{Route: "har-generator-plugin response body (the overlapping transaction)", Side: "response", Doc: b.rp.text, Exclusions: b.exResp, Output: b.outResp})
		}
	})
}
