// C16 — obfuscation hides every value that is not explicitly excluded.
//
// This file: the harness-side JSON document model (ordered, duplicate-preserving,
// numbers kept as literals), an independent parser built on encoding/json's token
// stream, a renderer with controllable escaping/whitespace, and the rapid
// generators for documents and exclusion sets.
package c16

import (
	"encoding/json"
	"fmt"
	"io"
	"math"
	"strconv"
	"strings"
	"unicode/utf8"

	"pgregory.net/rapid"
)

type kind int

const (
	kObj kind = iota
	kArr
	kStr
	kNum
	kBool
	kNull
)

func (k kind) String() string {
	return [...]string{"object", "array", "string", "number", "boolean", "null"}[k]
}

type node struct {
	K     kind
	Keys  []string // object: keys in source order (duplicates kept)
	Vals  []*node  // object: values, parallel to Keys
	Items []*node  // array
	S     string   // string: decoded value
	N     string   // number: literal as written
	B     bool
	// rendering hints chosen by the generator (ignored by the oracle)
	rawS    string   // string: JSON-quoted form to emit ("" = default quoting)
	rawKeys []string // object: JSON-quoted key forms
}

// ---- parser (independent of the library used by the code under test) -------

func parseDoc(text string) (*node, error) {
	if !json.Valid([]byte(text)) {
		return nil, fmt.Errorf("not valid JSON")
	}
	dec := json.NewDecoder(strings.NewReader(text))
	dec.UseNumber()
	n, err := parseValue(dec, 0)
	if err != nil {
		return nil, err
	}
	if _, err := dec.Token(); err != io.EOF {
		return nil, fmt.Errorf("trailing data after the JSON value")
	}
	return n, nil
}

func parseValue(dec *json.Decoder, depth int) (*node, error) {
	if depth > 2000 {
		return nil, fmt.Errorf("nesting too deep")
	}
	tok, err := dec.Token()
	if err != nil {
		return nil, err
	}
	switch v := tok.(type) {
	case json.Delim:
		switch v {
		case '{':
			n := &node{K: kObj}
			for dec.More() {
				kt, err := dec.Token()
				if err != nil {
					return nil, err
				}
				k, ok := kt.(string)
				if !ok {
					return nil, fmt.Errorf("object key is %T", kt)
				}
				val, err := parseValue(dec, depth+1)
				if err != nil {
					return nil, err
				}
				n.Keys = append(n.Keys, k)
				n.Vals = append(n.Vals, val)
			}
			if _, err := dec.Token(); err != nil {
				return nil, err
			}
			return n, nil
		case '[':
			n := &node{K: kArr}
			for dec.More() {
				it, err := parseValue(dec, depth+1)
				if err != nil {
					return nil, err
				}
				n.Items = append(n.Items, it)
			}
			if _, err := dec.Token(); err != nil {
				return nil, err
			}
			return n, nil
		}
		return nil, fmt.Errorf("unexpected delimiter %v", v)
	case string:
		return &node{K: kStr, S: v}, nil
	case json.Number:
		return &node{K: kNum, N: v.String()}, nil
	case bool:
		return &node{K: kBool, B: v}, nil
	case nil:
		return &node{K: kNull}, nil
	}
	return nil, fmt.Errorf("unexpected token %T", tok)
}

// strictDomain says whether a parsed document lies in the domain the statement
// and the cursor notation can speak about: unique keys per object, keys without
// '.', '[' or ']', numbers representable as finite float64, nesting no deeper
// than maxDomainDepth (JSON parsers bound the nesting; the pinned one at 300),
// no lone surrogate escapes.
const maxDomainDepth = 64

func strictDomain(n *node) (bool, string) {
	why := map[string]bool{}
	strictDomainAt(n, 0, why)
	// report the strongest reason; "key-with-cursor-metachar" alone only matters
	// when exclusions are given
	for _, w := range []string{"nesting-too-deep", "duplicate-key", "number-out-of-float64-range", "lone-surrogate-or-replacement-char", "key-with-cursor-metachar"} {
		if why[w] {
			return false, w
		}
	}
	return true, ""
}

func strictDomainAt(n *node, depth int, why map[string]bool) {
	if depth > maxDomainDepth {
		why["nesting-too-deep"] = true
		return
	}
	switch n.K {
	case kObj:
		seen := map[string]bool{}
		for i, k := range n.Keys {
			if seen[k] {
				why["duplicate-key"] = true
			}
			seen[k] = true
			if strings.ContainsAny(k, ".[]") {
				why["key-with-cursor-metachar"] = true
			}
			if strings.ContainsRune(k, utf8.RuneError) {
				why["lone-surrogate-or-replacement-char"] = true
			}
			strictDomainAt(n.Vals[i], depth+1, why)
		}
	case kArr:
		for _, it := range n.Items {
			strictDomainAt(it, depth+1, why)
		}
	case kStr:
		// a lone surrogate escape ("\ud800") is decoded to U+FFFD here and to
		// something else elsewhere: no canonical form to compare with
		if strings.ContainsRune(n.S, utf8.RuneError) {
			why["lone-surrogate-or-replacement-char"] = true
		}
	case kNum:
		f, err := strconv.ParseFloat(n.N, 64)
		if err != nil || math.IsInf(f, 0) || math.IsNaN(f) {
			why["number-out-of-float64-range"] = true
		}
	}
}

// ---- renderer ---------------------------------------------------------------

func quoteDefault(s string) string {
	var sb strings.Builder
	enc := json.NewEncoder(&sb)
	enc.SetEscapeHTML(false)
	_ = enc.Encode(s)
	return strings.TrimSuffix(sb.String(), "\n")
}

// quoteEscaped writes every non-alphanumeric rune as a \uXXXX escape (surrogate
// pairs above the BMP) — a legal, maximally escaped spelling of the same string.
func quoteEscaped(s string) string {
	var sb strings.Builder
	sb.WriteByte('"')
	for _, r := range s {
		switch {
		case r >= 'a' && r <= 'z' || r >= 'A' && r <= 'Z' || r >= '0' && r <= '9':
			sb.WriteRune(r)
		case r == utf8.RuneError:
			sb.WriteString(`�`)
		case r > 0xFFFF:
			r -= 0x10000
			fmt.Fprintf(&sb, `\u%04x\u%04x`, 0xD800+(r>>10), 0xDC00+(r&0x3FF))
		default:
			fmt.Fprintf(&sb, `\u%04x`, r)
		}
	}
	sb.WriteByte('"')
	return sb.String()
}

func render(n *node, pretty bool) string {
	var sb strings.Builder
	renderTo(&sb, n, pretty, 0)
	return sb.String()
}

func renderTo(sb *strings.Builder, n *node, pretty bool, ind int) {
	nl := func(d int) {
		if pretty {
			sb.WriteString("\n")
			sb.WriteString(strings.Repeat("\t", d))
		}
	}
	switch n.K {
	case kObj:
		sb.WriteByte('{')
		for i, k := range n.Keys {
			if i > 0 {
				sb.WriteByte(',')
			}
			nl(ind + 1)
			if i < len(n.rawKeys) && n.rawKeys[i] != "" {
				sb.WriteString(n.rawKeys[i])
			} else {
				sb.WriteString(quoteDefault(k))
			}
			sb.WriteByte(':')
			if pretty {
				sb.WriteByte(' ')
			}
			renderTo(sb, n.Vals[i], pretty, ind+1)
		}
		if len(n.Keys) > 0 {
			nl(ind)
		}
		sb.WriteByte('}')
	case kArr:
		sb.WriteByte('[')
		for i, it := range n.Items {
			if i > 0 {
				sb.WriteByte(',')
			}
			nl(ind + 1)
			renderTo(sb, it, pretty, ind+1)
		}
		if len(n.Items) > 0 {
			nl(ind)
		}
		sb.WriteByte(']')
	case kStr:
		if n.rawS != "" {
			sb.WriteString(n.rawS)
		} else {
			sb.WriteString(quoteDefault(n.S))
		}
	case kNum:
		sb.WriteString(n.N)
	case kBool:
		if n.B {
			sb.WriteString("true")
		} else {
			sb.WriteString("false")
		}
	case kNull:
		sb.WriteString("null")
	}
}

// ---- cursors ------------------------------------------------------------------

// A cursor is a list of segments; a segment is ".key" or "[]" — the notation
// obfuscate_test.go documents (".topA.middleOne.x", ".data.comeOnIn[].bar",
// "[].bar", "" for the root).
func segKey(k string) string { return "." + k }

const segArr = "[]"

func cursorString(segs []string) string { return strings.Join(segs, "") }

type located struct {
	segs []string
	n    *node
}

// walk lists every node with its cursor, parents before children. Array items
// share one cursor; each is listed.
func walk(n *node) []located {
	var out []located
	var rec func(n *node, segs []string)
	rec = func(n *node, segs []string) {
		out = append(out, located{append([]string(nil), segs...), n})
		switch n.K {
		case kObj:
			for i, k := range n.Keys {
				rec(n.Vals[i], append(append([]string(nil), segs...), segKey(k)))
			}
		case kArr:
			for _, it := range n.Items {
				rec(it, append(append([]string(nil), segs...), segArr))
			}
		}
	}
	rec(n, nil)
	return out
}

// parseCursor splits an exclusion written in cursor notation into segments. It
// returns ok=false for text that is not a cursor (e.g. "qui", "a.b", "[0]").
func parseCursor(x string) ([]string, bool) {
	segs := []string{}
	for len(x) > 0 {
		switch {
		case strings.HasPrefix(x, "[]"):
			segs = append(segs, segArr)
			x = x[2:]
		case x[0] == '.':
			j := 1
			for j < len(x) && x[j] != '.' && x[j] != '[' && x[j] != ']' {
				j++
			}
			segs = append(segs, x[:j])
			x = x[j:]
		default:
			return nil, false
		}
	}
	return segs, true
}

// ---- generators -------------------------------------------------------------

// chance draws an event of probability about num/den. rapid's integer draws
// favour values near the lower bound, so the event is mapped to the middle of
// the range: rare events stay rare, and shrinking (towards 0) removes them.
func chance(t *rapid.T, label string, num, den int) bool {
	v := rapid.IntRange(0, den-1).Draw(t, label)
	lo := den/2 + 1
	return v >= lo && v < lo+num
}

// small pool, weighted: the same name must recur at different depths. "body",
// "request", "response" are included because the '$.request.body…' notation is
// only a string prefix of the cursor notation.
// The pool repeats names so that one name recurs at several depths, and contains names that are string
// prefixes/extensions of each other (a/ab, user/username/users, id/ids/id_token, name/name2) so that an
// exclusion is also tried against sibling keys that merely start or end like the excluded one.
var keyPool = []string{"a", "a", "a", "b", "b", "ab", "name", "name", "name", "name2", "user", "user", "username", "users", "id", "ids", "id_token", "body", "body", "request", "response", "items"}

var valueRunes = []rune{'a', 'b', 'Z', '0', '7', ' ', '.', '[', ']', '$', '"', '\\', '/', '\n', '\t', '\u0001', 'é', 'ß', '日', '😀', '<', '&', ' '}

var keyRunes = []rune{'a', 'k', 'Z', '0', ' ', '$', '"', '\\', '/', '\n', 'é', '日', '😀', '-', '_', ':'}

// runes the pinned JSON library cannot write back into a key (finding C16-F3);
// drawn rarely so that the finding is observed without dominating the search
var keyRunesF3 = []rune{'a', '"', '\u0001', '\u007f', '\v'}

var numberPool = []string{
	"0", "-0", "1", "10", "-7", "42", "10.9", "81.101", "10.999", "0.005", "1.005", "0.125", "2.675", "-3.14159",
	"1e3", "1E3", "1e+3", "2.5e-7", "1.5E+10", "123456789", "9007199254740993", "12345678901234567890",
	"1e21", "1e-320", "0.1", "100.00", "3.0", "1.7976931348623157e308", "0.30000000000000004",
}

var stringPool = []string{"", "x", "secret", "Alice", "12345", "true", "null", "10.00", "d41d8cd98f00b204e9800998ecf8427e", ".name", "$.request.body.name"}

func genString(t *rapid.T, label string) (string, string) {
	var s string
	if chance(t, label+"-pool", 2, 6) {
		s = rapid.SampledFrom(stringPool).Draw(t, label)
	} else {
		s = rapid.StringOfN(rapid.SampledFrom(valueRunes), 0, 8, -1).Draw(t, label)
	}
	raw := ""
	if chance(t, label+"-esc", 1, 5) {
		raw = quoteEscaped(s)
	}
	return s, raw
}

func genNumber(t *rapid.T) string {
	switch rapid.IntRange(0, 3).Draw(t, "num-form") {
	case 0:
		return strconv.FormatInt(rapid.Int64Range(-100000, 100000).Draw(t, "int"), 10)
	case 1:
		i := rapid.IntRange(-9999, 9999).Draw(t, "ipart")
		f := rapid.IntRange(0, 99999).Draw(t, "fpart")
		w := rapid.IntRange(1, 5).Draw(t, "fwidth")
		return fmt.Sprintf("%d.%0*d", i, w, f%pow10(w))
	case 2:
		m := rapid.IntRange(-999, 999).Draw(t, "mant")
		e := rapid.IntRange(-30, 30).Draw(t, "exp")
		return fmt.Sprintf("%de%d", m, e)
	}
	return rapid.SampledFrom(numberPool).Draw(t, "num")
}

func pow10(w int) int {
	p := 1
	for i := 0; i < w; i++ {
		p *= 10
	}
	return p
}

func genKey(t *rapid.T) (string, string) {
	if chance(t, "weird-key", 1, 12) {
		runes := keyRunes
		if chance(t, "ctl-key", 1, 25) {
			runes = keyRunesF3
		}
		k := rapid.StringOfN(rapid.SampledFrom(runes), 1, 5, -1).Draw(t, "key")
		raw := ""
		if rapid.Bool().Draw(t, "key-esc") {
			raw = quoteEscaped(k)
		}
		return k, raw
	}
	return rapid.SampledFrom(keyPool).Draw(t, "key"), ""
}

func genPrimitive(t *rapid.T) *node {
	switch rapid.SampledFrom([]kind{kStr, kStr, kStr, kNum, kNum, kNum, kBool, kBool, kNull}).Draw(t, "prim") {
	case kStr:
		s, raw := genString(t, "str")
		return &node{K: kStr, S: s, rawS: raw}
	case kNum:
		return &node{K: kNum, N: genNumber(t)}
	case kBool:
		return &node{K: kBool, B: rapid.Bool().Draw(t, "bool")}
	}
	return &node{K: kNull}
}

func genValue(t *rapid.T, depth, maxDepth int) *node {
	choice := 0 // primitive
	if depth < maxDepth {
		// 0..19, primitives in the middle of the range (see chance)
		c := rapid.IntRange(0, 19).Draw(t, "shape")
		prim := c >= 11 && c < 19 // 40%
		if depth == 0 {
			prim = c == 11 // 5%
		}
		switch {
		case prim:
		case c%3 == 2:
			choice = 2 // array, about a third of the containers
		default:
			choice = 1 // object
		}
	}
	switch choice {
	case 1:
		n := &node{K: kObj}
		lo := 0
		if depth == 0 {
			lo = 2
		}
		cnt := rapid.IntRange(lo, 5).Draw(t, "nkeys")
		seen := map[string]bool{}
		for i := 0; i < cnt; i++ {
			k, raw := genKey(t)
			if seen[k] {
				continue
			}
			seen[k] = true
			n.Keys = append(n.Keys, k)
			n.rawKeys = append(n.rawKeys, raw)
			n.Vals = append(n.Vals, genValue(t, depth+1, maxDepth))
		}
		return n
	case 2:
		n := &node{K: kArr}
		cnt := rapid.IntRange(0, 3).Draw(t, "nitems")
		objItems := rapid.Bool().Draw(t, "array-of-objects")
		for i := 0; i < cnt; i++ {
			if objItems && depth+1 < maxDepth+1 {
				// arrays of objects: force an object one level down (may exceed
				// maxDepth by one level of primitives only)
				o := &node{K: kObj}
				kc := rapid.IntRange(1, 3).Draw(t, "item-nkeys")
				seen := map[string]bool{}
				for j := 0; j < kc; j++ {
					k, raw := genKey(t)
					if seen[k] {
						continue
					}
					seen[k] = true
					o.Keys = append(o.Keys, k)
					o.rawKeys = append(o.rawKeys, raw)
					o.Vals = append(o.Vals, genValue(t, depth+2, maxDepth))
				}
				n.Items = append(n.Items, o)
			} else {
				n.Items = append(n.Items, genValue(t, depth+1, maxDepth))
			}
		}
		return n
	}
	return genPrimitive(t)
}

type genDoc struct {
	root *node
	text string
}

func genDocument(t *rapid.T) genDoc {
	maxDepth := rapid.IntRange(2, 4).Draw(t, "max-depth")
	root := genValue(t, 0, maxDepth)
	pretty := chance(t, "pretty", 1, 4)
	return genDoc{root: root, text: render(root, pretty)}
}

// genCursorExclusions draws 0..4 exclusions in cursor notation, most of them
// derived from the cursors that exist in the document.
func genCursorExclusions(t *rapid.T, doc *node, label string) []string {
	nodes := walk(doc)
	var out []string
	cnt := rapid.IntRange(0, 4).Draw(t, label+"-count")
	pickSegs := func(tag string) []string {
		// the root (cursor "") only rarely: it excludes the whole document
		if chance(t, tag+"-root", 1, 40) {
			return nil
		}
		if len(nodes) == 1 {
			return []string{segKey(rapid.SampledFrom(keyPool).Draw(t, tag+"-absent"))}
		}
		return nodes[rapid.IntRange(1, len(nodes)-1).Draw(t, tag)].segs
	}
	poolSeg := func(tag string) string {
		if chance(t, tag+"-arr", 1, 5) {
			return segArr
		}
		return segKey(rapid.SampledFrom(keyPool).Draw(t, tag))
	}
	for i := 0; i < cnt; i++ {
		tag := fmt.Sprintf("%s-%d", label, i)
		var segs []string
		switch s := rapid.IntRange(0, 19).Draw(t, tag+"-strategy"); {
		case s < 8: // an existing node (leaf, inner node, root)
			segs = pickSegs(tag + "-node")
		case s < 10: // an existing cursor without its first segment(s)
			segs = pickSegs(tag + "-node")
			if len(segs) > 1 {
				segs = segs[rapid.IntRange(1, len(segs)-1).Draw(t, tag+"-drop"):]
			}
		case s < 14: // an existing cursor placed under one or two more segments
			segs = pickSegs(tag + "-node")
			pre := []string{poolSeg(tag + "-pre")}
			if rapid.Bool().Draw(t, tag+"-pre2") {
				pre = append(pre, poolSeg(tag+"-pre-b"))
			}
			segs = append(pre, segs...)
		case s < 17: // free path over the pool
			l := rapid.IntRange(1, 3).Draw(t, tag+"-len")
			for j := 0; j < l; j++ {
				segs = append(segs, poolSeg(fmt.Sprintf("%s-free%d", tag, j)))
			}
		case s < 18: // an existing cursor with one more segment
			segs = append(append([]string(nil), pickSegs(tag+"-node")...), poolSeg(tag+"-post"))
		case s < 19: // a textual neighbour of an existing cursor: its last key shortened or lengthened, so the
			// exclusion is a string prefix (or extension) of a real cursor while naming a different key
			segs = append([]string(nil), pickSegs(tag+"-node")...)
			if n := len(segs); n > 0 && segs[n-1] != segArr {
				last := segs[n-1]
				if len(last) > 2 && rapid.Bool().Draw(t, tag+"-shorten") {
					segs[n-1] = last[:len(last)-rapid.IntRange(1, len(last)-2).Draw(t, tag+"-cut")]
				} else {
					segs[n-1] = last + rapid.SampledFrom([]string{"s", "_token", "2", "name"}).Draw(t, tag+"-ext")
				}
			}
		default: // not a cursor at all (obfuscate_test.go: "qui" excludes nothing)
			out = append(out, rapid.SampledFrom([]string{"qui", "name", "a"}).Draw(t, tag+"-junk"))
			continue
		}
		out = append(out, cursorString(segs))
	}
	return out
}
