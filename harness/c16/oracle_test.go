// Oracle for C16: an independent path matcher, the leaf-by-leaf comparison of
// input and output, the accepted canonical forms of a hashed value, and the
// defect model used to attribute failing cases to the listed known findings.
package c16

import (
	"crypto/md5"
	"encoding/hex"
	"encoding/json"
	"fmt"
	"math"
	"strconv"
	"strings"
)

func md5hex(s string) string {
	h := md5.Sum([]byte(s))
	return hex.EncodeToString(h[:])
}

// ---- reference matcher ---------------------------------------------------------

// refSet is the set of exclusions that apply to one body, normalised to segment
// lists. An exclusion covers a node iff its segment list is a prefix of the
// node's segment list (equal cursor, or ancestor at a segment boundary).
type refSet struct {
	paths [][]string
	// bare is set when the '$.request.body' / '$.response.body' prefix itself
	// (the whole body) is among the exclusions of this body.
	bare bool
}

func (rs refSet) covers(segs []string) bool {
	for _, p := range rs.paths {
		if len(p) > len(segs) {
			continue
		}
		ok := true
		for i := range p {
			if p[i] != segs[i] {
				ok = false
				break
			}
		}
		if ok {
			return true
		}
	}
	return false
}

// refFromCursors: exclusions written in cursor notation (".a.b", "[].x", "").
func refFromCursors(excl []string) refSet {
	var rs refSet
	for _, e := range excl {
		if segs, ok := parseCursor(e); ok {
			rs.paths = append(rs.paths, segs)
		}
	}
	return rs
}

const (
	reqPrefix  = "$.request.body"
	respPrefix = "$.response.body"
)

// refFromJSONPaths: exclusions of the HAR collector ('$.request.body<cursor>' /
// '$.response.body<cursor>', mixed with exclusions for headers, query
// parameters and path segments). Only those that name this body apply, and the
// part after the prefix is the cursor.
func refFromJSONPaths(excl []string, prefix string) refSet {
	var rs refSet
	for _, e := range excl {
		if !strings.HasPrefix(e, prefix) {
			continue
		}
		rest := e[len(prefix):]
		if rest == "" {
			rs.paths = append(rs.paths, []string{})
			rs.bare = true
			continue
		}
		if rest[0] != '.' && rest[0] != '[' {
			continue // e.g. '$.request.body_size': a different component
		}
		if segs, ok := parseCursor(rest); ok {
			rs.paths = append(rs.paths, segs)
		}
	}
	return rs
}

// ---- defect model: "exclusion matched by string suffix" -------------------------

// suffixModelCovers reproduces the pinned implementation: a cursor is excluded
// iff it equals one of the strings handed to ObfuscateJSON or (when non-empty)
// is a string suffix of one of them; exclusion is inherited by everything below.
func suffixModelCovers(passed []string) func(segs []string) bool {
	return func(segs []string) bool {
		for i := 0; i <= len(segs); i++ {
			c := cursorString(segs[:i])
			for _, e := range passed {
				if e == c || (c != "" && strings.HasSuffix(e, c)) {
					return true
				}
			}
		}
		return false
	}
}

// passedByCollector models which configured exclusions the HAR collector hands
// to ObfuscateJSON for one body (plain string-prefix selection, unchanged text).
func passedByCollector(excl []string, prefix string) []string {
	var out []string
	for _, e := range excl {
		if strings.HasPrefix(e, prefix) {
			out = append(out, e)
		}
	}
	return out
}

// isSuffixExposure (classifier of C16-F1): the document contains a node that
// the reference matcher does not cover but whose cursor (or an ancestor's) is a
// string suffix of an exclusion — i.e. an exclusion for one path reaches a
// different path.
func isSuffixExposure(doc *node, rs refSet, passed []string) (bool, string) {
	model := suffixModelCovers(passed)
	for _, l := range walk(doc) {
		if !rs.covers(l.segs) && model(l.segs) {
			return true, cursorString(l.segs)
		}
	}
	return false, ""
}

// ---- accepted canonical forms of a hashed leaf -----------------------------------

func hashCandidates(n *node) map[string]string {
	c := map[string]string{}
	add := func(form, text string) { c[md5hex(text)] = form }
	switch n.K {
	case kStr:
		add("string bytes", n.S)
		add("quoted JSON string", quoteDefault(n.S))
	case kBool:
		if n.B {
			add("true", "true")
		} else {
			add("false", "false")
		}
	case kNum:
		add("literal", n.N)
		f, err := strconv.ParseFloat(n.N, 64)
		if err != nil {
			return c
		}
		// the pinned implementation hashes the value with two decimals; parsers
		// may differ by an ulp, and other fixed spellings of the value are as
		// reasonable
		vals := []float64{f}
		up, down := f, f
		for i := 0; i < 2; i++ {
			up, down = math.Nextafter(up, math.Inf(1)), math.Nextafter(down, math.Inf(-1))
			vals = append(vals, up, down)
		}
		for _, v := range vals {
			for prec := 0; prec <= 6; prec++ {
				add(fmt.Sprintf("%d decimals", prec), strconv.FormatFloat(v, 'f', prec, 64))
			}
		}
		add("two decimals truncated", strconv.FormatFloat(math.Trunc(f*100)/100, 'f', 2, 64))
		add("shortest decimal", strconv.FormatFloat(f, 'f', -1, 64))
		add("shortest %g", strconv.FormatFloat(f, 'g', -1, 64))
		add("shortest %e", strconv.FormatFloat(f, 'e', -1, 64))
	}
	return c
}

// ---- comparison ----------------------------------------------------------------------

type mismatch struct {
	cursor string
	what   string // exposed | not-hashed | changed | structure
	msg    string
}

func (m *mismatch) Error() string {
	return fmt.Sprintf("at cursor %q: %s", m.cursor, m.msg)
}

func brief(n *node) string {
	s := render(n, false)
	if len(s) > 80 {
		s = s[:77] + "..."
	}
	return s
}

// jsonEqual: same JSON value (object member order is irrelevant, numbers equal
// as literals or as values).
func jsonEqual(a, b *node) bool {
	if a.K != b.K {
		return false
	}
	switch a.K {
	case kObj:
		if len(a.Keys) != len(b.Keys) {
			return false
		}
		idx := map[string]*node{}
		for i, k := range b.Keys {
			if _, dup := idx[k]; dup {
				return false
			}
			idx[k] = b.Vals[i]
		}
		for i, k := range a.Keys {
			v, ok := idx[k]
			if !ok || !jsonEqual(a.Vals[i], v) {
				return false
			}
		}
		return true
	case kArr:
		if len(a.Items) != len(b.Items) {
			return false
		}
		for i := range a.Items {
			if !jsonEqual(a.Items[i], b.Items[i]) {
				return false
			}
		}
		return true
	case kStr:
		return a.S == b.S
	case kNum:
		if a.N == b.N {
			return true
		}
		fa, ea := strconv.ParseFloat(a.N, 64)
		fb, eb := strconv.ParseFloat(b.N, 64)
		return ea == nil && eb == nil && fa == fb
	case kBool:
		return a.B == b.B
	}
	return true
}

// compare checks one output against one input under a coverage function.
// Counters (leaves hashed / kept) are reported through tally when non-nil.
type tally struct{ hashed, kept, nulls int }

func compare(in, out *node, covers func([]string) bool, tl *tally) *mismatch {
	var rec func(in, out *node, segs []string) *mismatch
	rec = func(in, out *node, segs []string) *mismatch {
		cur := cursorString(segs)
		if covers(segs) {
			if !jsonEqual(in, out) {
				return &mismatch{cur, "changed", fmt.Sprintf("the value lies on an excluded path and must be kept verbatim: input %s, output %s", brief(in), brief(out))}
			}
			if tl != nil {
				for _, l := range walk(in) {
					if l.n.K == kStr || l.n.K == kNum || l.n.K == kBool {
						tl.kept++
					}
				}
			}
			return nil
		}
		switch in.K {
		case kObj:
			if out.K != kObj {
				return &mismatch{cur, "structure", fmt.Sprintf("input is an object, output is %s %s", out.K, brief(out))}
			}
			idx := map[string]*node{}
			for i, k := range out.Keys {
				if _, dup := idx[k]; dup {
					return &mismatch{cur, "structure", fmt.Sprintf("output object repeats key %q", k)}
				}
				idx[k] = out.Vals[i]
			}
			if len(out.Keys) != len(in.Keys) {
				return &mismatch{cur, "structure", fmt.Sprintf("input object has keys %q, output has %q", in.Keys, out.Keys)}
			}
			for i, k := range in.Keys {
				o, ok := idx[k]
				if !ok {
					return &mismatch{cur, "structure", fmt.Sprintf("key %q is missing from the output (output keys %q)", k, out.Keys)}
				}
				if m := rec(in.Vals[i], o, append(append([]string(nil), segs...), segKey(k))); m != nil {
					return m
				}
			}
		case kArr:
			if out.K != kArr {
				return &mismatch{cur, "structure", fmt.Sprintf("input is an array, output is %s %s", out.K, brief(out))}
			}
			if len(out.Items) != len(in.Items) {
				return &mismatch{cur, "structure", fmt.Sprintf("input array has %d items, output has %d", len(in.Items), len(out.Items))}
			}
			for i := range in.Items {
				if m := rec(in.Items[i], out.Items[i], append(append([]string(nil), segs...), segArr)); m != nil {
					return m
				}
			}
		case kNull:
			// not in the statement: accept null or any string stand-in
			if out.K != kNull && out.K != kStr {
				return &mismatch{cur, "structure", fmt.Sprintf("input is null, output is %s %s", out.K, brief(out))}
			}
			if tl != nil {
				tl.nulls++
			}
		default: // string, number, boolean: must be replaced by its hash
			if jsonEqual(in, out) {
				return &mismatch{cur, "exposed", fmt.Sprintf("the %s %s is not on an excluded path but appears verbatim in the output", in.K, brief(in))}
			}
			if out.K != kStr {
				return &mismatch{cur, "not-hashed", fmt.Sprintf("the %s %s was replaced by %s %s, not by a hash string", in.K, brief(in), out.K, brief(out))}
			}
			if _, ok := hashCandidates(in)[out.S]; !ok {
				return &mismatch{cur, "not-hashed", fmt.Sprintf("the %s %s was replaced by %q, which is not the md5 of any canonical form of the value", in.K, brief(in), out.S)}
			}
			if tl != nil {
				tl.hashed++
			}
		}
		return nil
	}
	return rec(in, out, nil)
}

// ---- verdict --------------------------------------------------------------------------

type verdict struct {
	err      error    // nil: the statement holds on this body
	findings []string // non-empty: err is exactly the combination of these listed defects
	where    string
	tl       tally
}

// judge decides one (input body, output body) pair. passed are the exclusion
// strings the implementation handed to ObfuscateJSON (needed by the defect model
// only); rs is the reference reading of the same exclusions.
func judge(inText, outText string, rs refSet, passed []string) verdict {
	in, err := parseDoc(inText)
	if err != nil {
		return verdict{err: fmt.Errorf("harness: input does not parse: %v", err)}
	}
	out, err := parseDoc(outText)
	if err != nil {
		notJSON := fmt.Errorf("output is not a JSON document (%v): %.300q", err, outText)
		// C16-F3: a key was re-quoted with Go syntax; everything else must hold
		if ok, key := hasGoQuotedKey(in); ok {
			if out2, err2 := parseGoQuotedDoc(outText); err2 == nil {
				v := judgeTrees(in, out2, rs, passed)
				if v.err == nil || len(v.findings) > 0 {
					return verdict{err: notJSON, findings: append([]string{"C16-F3"}, v.findings...), where: key, tl: v.tl}
				}
			}
		}
		return verdict{err: notJSON}
	}
	return judgeTrees(in, out, rs, passed)
}

func judgeTrees(in, out *node, rs refSet, passed []string) verdict {
	var tl tally
	m := compare(in, out, rs.covers, &tl)
	if m == nil {
		return verdict{tl: tl}
	}
	// does the output agree exactly with the known defective behaviour?
	var tl2 tally
	if d := compare(in, out, suffixModelCovers(passed), &tl2); d == nil {
		if rs.bare {
			return verdict{err: m, findings: []string{"C16-F2"}, tl: tl2}
		}
		if ok, where := isSuffixExposure(in, rs, passed); ok {
			return verdict{err: m, findings: []string{"C16-F1"}, where: where, tl: tl2}
		}
	}
	return verdict{err: m}
}

// nonTrivial implements rule NT: the document contains the last segment of an
// exclusion at two or more different paths.
func nonTrivial(doc *node, rs refSet) bool {
	cursors := map[string]map[string]bool{} // last segment -> set of cursors
	for _, l := range walk(doc) {
		if len(l.segs) == 0 {
			continue
		}
		last := l.segs[len(l.segs)-1]
		if cursors[last] == nil {
			cursors[last] = map[string]bool{}
		}
		cursors[last][cursorString(l.segs)] = true
	}
	for _, p := range rs.paths {
		if len(p) == 0 {
			continue
		}
		if len(cursors[p[len(p)-1]]) >= 2 {
			return true
		}
	}
	return false
}

// ---- defect model: "strings re-quoted with Go syntax" (C16-F3) ---------------------------

// goQuoteBreaksJSON says whether the JSON library used by the pinned
// implementation (fastjson 1.6.4, escapeString → strconv.AppendQuote) writes the
// string s in a form that is not JSON: it re-quotes every string that contains
// '"', '\' or a byte below 0x20 with Go syntax, which spells control characters
// "\x01", "\a", "\v", DEL "\x7f" and unprintable runes above U+FFFF "\U0010ffff".
func goQuoteBreaksJSON(s string) bool {
	special := strings.ContainsAny(s, "\"\\")
	for i := 0; i < len(s) && !special; i++ {
		special = s[i] < 0x20
	}
	return special && !json.Valid([]byte(strconv.Quote(s)))
}

func hasGoQuotedKey(doc *node) (bool, string) {
	for _, l := range walk(doc) {
		if l.n.K == kObj {
			for _, k := range l.n.Keys {
				if goQuoteBreaksJSON(k) {
					return true, k
				}
			}
		}
	}
	return false, ""
}

// parseGoQuotedDoc parses JSON in which string tokens may be spelled either as
// JSON strings or as Go string literals.
func parseGoQuotedDoc(text string) (*node, error) {
	p := &gqParser{s: text}
	n, err := p.value(0)
	if err != nil {
		return nil, err
	}
	p.ws()
	if p.i != len(p.s) {
		return nil, fmt.Errorf("trailing data at %d", p.i)
	}
	return n, nil
}

type gqParser struct {
	s string
	i int
}

func (p *gqParser) ws() {
	for p.i < len(p.s) && strings.IndexByte(" \t\r\n", p.s[p.i]) >= 0 {
		p.i++
	}
}

func (p *gqParser) str() (string, error) {
	start := p.i
	p.i++ // opening quote
	for p.i < len(p.s) {
		switch p.s[p.i] {
		case '\\':
			p.i += 2
		case '"':
			p.i++
			tok := p.s[start:p.i]
			var js string
			if err := json.Unmarshal([]byte(tok), &js); err == nil {
				return js, nil
			}
			if gs, err := strconv.Unquote(tok); err == nil {
				return gs, nil
			}
			return "", fmt.Errorf("string token %q is neither JSON nor Go syntax", tok)
		default:
			p.i++
		}
	}
	return "", fmt.Errorf("unterminated string")
}

func (p *gqParser) value(depth int) (*node, error) {
	if depth > 2000 {
		return nil, fmt.Errorf("too deep")
	}
	p.ws()
	if p.i >= len(p.s) {
		return nil, fmt.Errorf("unexpected end")
	}
	switch c := p.s[p.i]; {
	case c == '{':
		p.i++
		n := &node{K: kObj}
		p.ws()
		if p.i < len(p.s) && p.s[p.i] == '}' {
			p.i++
			return n, nil
		}
		for {
			p.ws()
			if p.i >= len(p.s) || p.s[p.i] != '"' {
				return nil, fmt.Errorf("expected a key at %d", p.i)
			}
			k, err := p.str()
			if err != nil {
				return nil, err
			}
			p.ws()
			if p.i >= len(p.s) || p.s[p.i] != ':' {
				return nil, fmt.Errorf("expected ':' at %d", p.i)
			}
			p.i++
			v, err := p.value(depth + 1)
			if err != nil {
				return nil, err
			}
			n.Keys, n.Vals = append(n.Keys, k), append(n.Vals, v)
			p.ws()
			if p.i < len(p.s) && p.s[p.i] == ',' {
				p.i++
				continue
			}
			if p.i < len(p.s) && p.s[p.i] == '}' {
				p.i++
				return n, nil
			}
			return nil, fmt.Errorf("expected ',' or '}' at %d", p.i)
		}
	case c == '[':
		p.i++
		n := &node{K: kArr}
		p.ws()
		if p.i < len(p.s) && p.s[p.i] == ']' {
			p.i++
			return n, nil
		}
		for {
			v, err := p.value(depth + 1)
			if err != nil {
				return nil, err
			}
			n.Items = append(n.Items, v)
			p.ws()
			if p.i < len(p.s) && p.s[p.i] == ',' {
				p.i++
				continue
			}
			if p.i < len(p.s) && p.s[p.i] == ']' {
				p.i++
				return n, nil
			}
			return nil, fmt.Errorf("expected ',' or ']' at %d", p.i)
		}
	case c == '"':
		s, err := p.str()
		if err != nil {
			return nil, err
		}
		return &node{K: kStr, S: s}, nil
	default:
		start := p.i
		for p.i < len(p.s) && strings.IndexByte(",]} \t\r\n", p.s[p.i]) < 0 {
			p.i++
		}
		tok := p.s[start:p.i]
		switch tok {
		case "true":
			return &node{K: kBool, B: true}, nil
		case "false":
			return &node{K: kBool}, nil
		case "null":
			return &node{K: kNull}, nil
		}
		if !json.Valid([]byte(tok)) {
			return nil, fmt.Errorf("unexpected token %q", tok)
		}
		return &node{K: kNum, N: tok}, nil
	}
}
