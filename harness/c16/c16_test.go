// C16 — obfuscation hides every value that is not explicitly excluded.
//
// Properties over generated (document, exclusion set) pairs, driven through
//   - obfuscation.Obfuscator{MD5Hasher}.ObfuscateJSON             (cursor notation)
//   - the HAR collector processor (NewProcessor/Execute)            ('$.request.body…' notation)
//   - the diagnosis HAR generator plugin (GenerateHAR)              (cursor notation from policies.yaml)
//
// and decided leaf by leaf by the independent matcher of oracle_test.go.
package c16

import (
	"fmt"
	"os"
	"strings"
	"testing"

	"lunar/engine/utils/obfuscation"

	"github.com/rs/zerolog"
	"pgregory.net/rapid"

	"verif/harness/internal/ev"
)

func TestMain(m *testing.M) {
	// the engine logs one error line per non-object body / unknown exporter
	zerolog.SetGlobalLevel(zerolog.Disabled)
	os.Exit(m.Run())
}

var md5Obfuscator = obfuscation.Obfuscator{Hasher: obfuscation.MD5Hasher{}}

// bodyCase is the readable replay of one obfuscated body.
type bodyCase struct {
	Route      string   `json:"route"`
	Doc        string   `json:"doc"`
	Exclusions []string `json:"exclusions"`
	Output     string   `json:"output,omitempty"`
	Side       string   `json:"side,omitempty"`
	Transport  any      `json:"transport,omitempty"` // har-collector route: how the bodies travelled
}

func classify(r *ev.Recorder, doc *node, rs refSet, passed []string) {
	nodes := walk(doc)
	hasArr, hasArrObj, depth := false, false, 0
	for _, l := range nodes {
		if l.n.K == kArr {
			hasArr = true
			for _, it := range l.n.Items {
				if it.K == kObj {
					hasArrObj = true
				}
			}
		}
		if len(l.segs) > depth {
			depth = len(l.segs)
		}
	}
	r.Class("root=" + doc.K.String())
	r.Class(fmt.Sprintf("depth=%d", depth))
	if hasArr {
		r.Class("has-array")
	}
	if hasArrObj {
		r.Class("has-array-of-objects")
	}
	r.Class(fmt.Sprintf("exclusions=%d", len(rs.paths)))
	anyCovered, anyUncovered := false, false
	for _, l := range nodes {
		if l.n.K == kStr || l.n.K == kNum || l.n.K == kBool {
			if rs.covers(l.segs) {
				anyCovered = true
			} else {
				anyUncovered = true
			}
		}
	}
	if anyCovered {
		r.Class("some-leaf-excluded")
	}
	if anyUncovered {
		r.Class("some-leaf-hidden")
	}
	if anyCovered && anyUncovered {
		r.Class("mixed-excluded-and-hidden")
	}
	if ok, _ := isSuffixExposure(doc, rs, passed); ok {
		r.Class("exclusion-is-string-suffix-reachable")
	}
	if rs.bare {
		r.Class("whole-body-exclusion")
	}
}

// settle turns a verdict into pass / attributed known finding / violation.
func settle(t interface {
	Fatalf(string, ...any)
}, r *ev.Recorder, v verdict, c bodyCase,
) {
	r.ClassN("leaves-hashed", int64(v.tl.hashed))
	r.ClassN("leaves-kept-verbatim", int64(v.tl.kept))
	if v.err == nil {
		return
	}
	if len(v.findings) > 0 {
		listed := true
		for _, id := range v.findings {
			listed = listed && r.IsOpen(id)
		}
		if listed {
			for _, id := range v.findings {
				r.KnownFinding(id, func() any { return c })
				r.Class("attributed:" + id)
			}
			return
		}
	}
	t.Fatalf("%s", r.Fail(c, "%s: %v", c.Route, v.err))
}

// ---- level 1: the obfuscator itself, cursor notation --------------------------------

func TestObfuscateJSONCursor(t *testing.T) {
	r := ev.New(t, "C16")
	rapid.Check(t, func(t *rapid.T) {
		d := genDocument(t)
		excl := genCursorExclusions(t, d.root, "excl")
		r.Case()
		rs := refFromCursors(excl)
		classify(r, d.root, rs, excl)
		c := bodyCase{Route: "Obfuscator.ObfuscateJSON", Doc: d.text, Exclusions: excl}
		if nonTrivial(d.root, rs) {
			r.NonTrivial(ev.JSON(c), func() any { return c })
		}
		out, err := md5Obfuscator.ObfuscateJSON(d.text, excl)
		if err != nil {
			t.Fatalf("%s", r.Fail(c, "ObfuscateJSON rejects a valid JSON document: %v", err))
		}
		c.Output = out
		settle(t, r, judge(d.text, out, rs, excl), c)
	})
}

// ---- bounded-exhaustive: every small document x every short exclusion ------------------------

// smallDocs enumerates every document of nesting <= 2 over the keys {a, b}:
// leaves "s", 7, true; objects with each key absent or bound; arrays [], [x] and
// ["s",7]. 653 documents.
func smallDocs() []*node {
	leaf := func() []*node {
		return []*node{{K: kStr, S: "s"}, {K: kNum, N: "7"}, {K: kBool, B: true}}
	}
	level := func(inner func() []*node) []*node {
		var out []*node
		vals := append([]*node{nil}, inner()...)
		for _, va := range vals {
			for _, vb := range vals {
				o := &node{K: kObj}
				if va != nil {
					o.Keys, o.Vals = append(o.Keys, "a"), append(o.Vals, va)
				}
				if vb != nil {
					o.Keys, o.Vals = append(o.Keys, "b"), append(o.Vals, vb)
				}
				out = append(out, o)
			}
		}
		out = append(out, &node{K: kArr})
		for _, v := range inner() {
			out = append(out, &node{K: kArr, Items: []*node{v}})
		}
		return out
	}
	v1 := func() []*node {
		return append(append(leaf(), level(leaf)...), &node{K: kArr, Items: []*node{{K: kStr, S: "s"}, {K: kNum, N: "7"}}})
	}
	return append(leaf(), level(v1)...)
}

func TestSmallSpaceExhaustive(t *testing.T) {
	r := ev.New(t, "C16")
	r.SetExhaustive(true)
	segs := []string{".a", ".b", "[]"}
	excls := []string{""}
	for l, cur := 1, []string{""}; l <= 3; l++ {
		var next []string
		for _, c := range cur {
			for _, s := range segs {
				next = append(next, c+s)
			}
		}
		excls = append(excls, next...)
		cur = next
	}
	for _, d := range smallDocs() {
		text := render(d, false)
		for _, e := range excls {
			excl := []string{e}
			r.Case()
			rs := refFromCursors(excl)
			c := bodyCase{Route: "Obfuscator.ObfuscateJSON (small space)", Doc: text, Exclusions: excl}
			if nonTrivial(d, rs) {
				r.NonTrivial(ev.JSON(c), func() any { return c })
			}
			out, err := md5Obfuscator.ObfuscateJSON(text, excl)
			if err != nil {
				t.Fatalf("%s", r.Fail(c, "ObfuscateJSON rejects a valid JSON document: %v", err))
			}
			c.Output = out
			settle(t, r, judge(text, out, rs, excl), c)
		}
	}
}

// ---- witnesses of the listed findings ---------------------------------------------------

type witness struct {
	name   string
	doc    string
	excl   []string
	jsonp  bool   // exclusions in '$.request.body…' notation: run as the request body of the HAR collector
	reveal string // text that must not / must appear in the output
}

func runWitness(t *testing.T, id string, ws []witness, present func(w witness, out string) bool) {
	r := ev.New(t, "C16")
	for _, w := range ws {
		r.Case()
		var out string
		var err error
		if w.jsonp {
			// through the real HAR collector: the translation of the '$' notation is its business
			setupCollector(t)
			var sides harSides
			sides, err = collectorObfuscate(w.doc, `{"unrelated":1}`, w.excl)
			out = sides.req
		} else {
			out, err = md5Obfuscator.ObfuscateJSON(w.doc, w.excl)
		}
		c := bodyCase{Route: "witness " + w.name, Doc: w.doc, Exclusions: w.excl, Output: out}
		if err != nil {
			t.Fatalf("%s", r.Fail(c, "obfuscation failed: %v", err))
		}
		if !present(w, out) {
			r.Class("defect-absent")
			continue
		}
		r.Class("defect-present")
		if !r.KnownFinding(id, func() any { return c }) {
			t.Fatalf("%s", r.Fail(c, "%s is present but not listed: %s", id, w.name))
		}
	}
}

// C16-F1: an exclusion also keeps every value whose cursor is a string suffix of it.
func TestWitnessSuffixExclusion(t *testing.T) {
	ws := []witness{
		{name: "cursor notation: '.user.name' exposes top-level 'name'", doc: `{"name":"top-secret","user":{"name":"Alice"}}`, excl: []string{".user.name"}, reveal: "top-secret"},
		{name: "json-path notation: '$.request.body.user.name' exposes top-level 'name'", doc: `{"name":"top-secret","user":{"name":"Alice"}}`, excl: []string{"$.request.body.user.name"}, jsonp: true, reveal: "top-secret"},
		{name: "json-path notation: '$.request.body.name' exposes '.body.name'", doc: `{"name":"Alice","body":{"name":"top-secret"}}`, excl: []string{"$.request.body.name"}, jsonp: true, reveal: "top-secret"},
		{name: "array items: '.items[]' exposes a top-level array's items", doc: `["top-secret"]`, excl: []string{".items[]"}, reveal: "top-secret"},
	}
	runWitness(t, "C16-F1", ws, func(w witness, out string) bool { return strings.Contains(out, w.reveal) })
}

// C16-F3: a key with a control character makes the output invalid JSON.
func TestWitnessControlCharacterInKey(t *testing.T) {
	ws := []witness{
		{name: "key with U+0001: output is not JSON", doc: `{"a\u0001":"x"}`},
		{name: "key with a quote and DEL: output is not JSON", doc: `{"a\"\u007f":{"b":[1]}}`},
	}
	runWitness(t, "C16-F3", ws, func(w witness, out string) bool { _, err := parseDoc(out); return err != nil })
}

// C16-F2: excluding the whole body in '$.request.body' notation keeps nothing.
func TestWitnessWholeBodyExclusion(t *testing.T) {
	ws := []witness{
		{name: "'$.request.body' does not keep the body verbatim", doc: `{"user":{"name":"Alice"}}`, excl: []string{"$.request.body"}, jsonp: true, reveal: "Alice"},
	}
	runWitness(t, "C16-F2", ws, func(w witness, out string) bool { return !strings.Contains(out, w.reveal) })
}
