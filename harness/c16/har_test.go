// C16, levels 2 and 3: the two exporters that obfuscate bodies of real traffic.
//
//   - HAR collector processor (flows): harcollector.NewProcessor + Execute on a
//     response-type API stream; the exported record is captured through the
//     context manager's file exporter. Exclusions are '$.request.body…' /
//     '$.response.body…' strings mixed with header / query / path exclusions.
//   - diagnosis HAR generator plugin (policies): HARGeneratorPlugin.GenerateHAR
//     with request_body_paths / response_body_paths in cursor notation.
package c16

import (
	"bytes"
	"compress/gzip"
	"encoding/json"
	"fmt"
	"os"
	"path/filepath"
	"sync"
	"testing"
	"time"

	"lunar/engine/config"
	"lunar/engine/formats/har"
	lunarMessages "lunar/engine/messages"
	"lunar/engine/services/diagnoses"
	harcollector "lunar/engine/streams/processors/har-collector"
	publictypes "lunar/engine/streams/public-types"
	testutils "lunar/engine/streams/test-utils"
	streamtypes "lunar/engine/streams/types"
	"lunar/engine/utils/environment"
	sharedConfig "lunar/shared-model/config"
	"lunar/toolkit-core/clock"
	contextmanager "lunar/toolkit-core/context-manager"

	"pgregory.net/rapid"

	"verif/harness/internal/ev"
	"verif/harness/internal/loglevel"
)

// ---- capture of the exported HAR record -------------------------------------------------

type capture struct {
	mu   sync.Mutex
	recs [][]byte
}

func (c *capture) Write(b []byte) (int, error) {
	c.mu.Lock()
	c.recs = append(c.recs, append([]byte(nil), b...))
	c.mu.Unlock()
	return len(b), nil
}
func (c *capture) Close() error { return nil }
func (c *capture) take() [][]byte {
	c.mu.Lock()
	defer c.mu.Unlock()
	out := c.recs
	c.recs = nil
	return out
}

const exporterID = "verif-c16"

var (
	collectorOnce sync.Once
	collectorCap  = &capture{}
)

func setupCollector(t testing.TB) {
	collectorOnce.Do(func() {
		dir := os.Getenv("VERIF_SCRATCH")
		if dir == "" {
			dir = t.TempDir()
		}
		path := filepath.Join(dir, "gateway_config.yaml")
		if err := os.WriteFile(path, []byte("exporters:\n  file:\n    exporter_id: \""+exporterID+"\"\n    file_dir: \""+dir+"\"\n    file_name: \"har.log\"\n"), 0o644); err != nil {
			t.Fatalf("VERIF-INFRA: cannot write gateway config: %v", err)
		}
		environment.SetGatewayConfigPath(path)
		contextmanager.Get().WithFileExporter(collectorCap)
	})
}

type harSides struct{ req, resp string }

// collectorObfuscate runs one transaction through a freshly configured HAR
// collector processor and returns the bodies of the exported HAR entry.
// transport describes how the two bodies travel: the collector's size limit, what the content-length
// headers declare, and whether a body is gzip-compressed (the collector exports the decompressed text)
type transport struct {
	MaxSize  int    `json:"transaction_max_size_bytes"`
	ReqCL    string `json:"request_content_length"`  // "" (absent, chunked) | honest | small
	RespCL   string `json:"response_content_length"` // "" | honest | small
	ReqGzip  bool   `json:"request_gzip,omitempty"`
	RespGzip bool   `json:"response_gzip,omitempty"`
	// ReqCT / RespCT: the declared media type of the JSON body ("" = application/json, "-" = no content-type header)
	ReqCT  string `json:"request_content_type,omitempty"`
	RespCT string `json:"response_content_type,omitempty"`
}

// media types JSON bodies are sent with
var jsonMediaTypes = []string{"", "", "application/json; charset=utf-8", "application/problem+json", "application/vnd.api+json",
	"application/hal+json", "application/x-amz-json-1.1", "Application/JSON", "text/json", "text/plain", "application/octet-stream", "-"}

var plainTransport = transport{MaxSize: 1 << 30}

func genTransport(t *rapid.T) transport {
	if chance(t, "plain-transport", 1, 2) {
		return plainTransport
	}
	cl := []string{"", "", "honest", "small"}
	return transport{MaxSize: rapid.SampledFrom([]int{1 << 30, 4096, 256, 48}).Draw(t, "max-size"),
		ReqCL: rapid.SampledFrom(cl).Draw(t, "req-cl"), RespCL: rapid.SampledFrom(cl).Draw(t, "resp-cl"),
		ReqGzip: chance(t, "req-gzip", 1, 4), RespGzip: chance(t, "resp-gzip", 1, 4),
		ReqCT: rapid.SampledFrom(jsonMediaTypes).Draw(t, "req-ct"), RespCT: rapid.SampledFrom(jsonMediaTypes).Draw(t, "resp-ct")}
}

func gz(s string) string {
	var b bytes.Buffer
	w := gzip.NewWriter(&b)
	_, _ = w.Write([]byte(s))
	_ = w.Close()
	return b.String()
}

// errNotExported: the collector dropped the transaction (declared size over its limit): nothing is exposed
var errNotExported = fmt.Errorf("not exported")

func collectorObfuscate(reqBody, respBody string, exclusions []string) (harSides, error) {
	return collectorObfuscateVia(reqBody, respBody, exclusions, plainTransport)
}

func collectorObfuscateVia(reqBody, respBody string, exclusions []string, tr transport) (harSides, error) {
	meta := &streamtypes.ProcessorMetaData{
		Name: "harCollectorUnderTest",
		Parameters: map[string]streamtypes.ProcessorParam{
			"exporter_id":                {Name: "exporter_id", Value: publictypes.NewParamValue(exporterID)},
			"transaction_max_size_bytes": {Name: "transaction_max_size_bytes", Value: publictypes.NewParamValue(tr.MaxSize)},
			"obfuscate_enabled":          {Name: "obfuscate_enabled", Value: publictypes.NewParamValue(true)},
			"obfuscate_exclusions":       {Name: "obfuscate_exclusions", Value: publictypes.NewParamValue(append([]string{}, exclusions...))},
		},
	}
	proc, err := harcollector.NewProcessor(meta)
	if err != nil {
		return harSides{}, fmt.Errorf("NewProcessor: %v", err)
	}
	reqH := map[string]string{"content-type": "application/json", "authorization": "Bearer t", "name": "hdr-name"}
	respH := map[string]string{"content-type": "application/json", "name": "hdr-name"}
	for _, x := range []struct {
		ct string
		h  map[string]string
	}{{tr.ReqCT, reqH}, {tr.RespCT, respH}} {
		switch x.ct {
		case "":
		case "-":
			delete(x.h, "content-type")
		default:
			x.h["content-type"] = x.ct
		}
	}
	declared := 0
	wire := func(body string, zip bool, cl string, h map[string]string) string {
		if zip {
			body = gz(body)
			h["content-encoding"] = "gzip"
		}
		switch cl {
		case "honest":
			h["content-length"] = fmt.Sprint(len(body))
			declared += len(body)
		case "small":
			h["content-length"] = "7"
			declared += 7
		}
		return body
	}
	reqBody, respBody = wire(reqBody, tr.ReqGzip, tr.ReqCL, reqH), wire(respBody, tr.RespGzip, tr.RespCL, respH)
	stream := testutils.NewMockAPIStreamFull(
		publictypes.StreamTypeResponse, "POST",
		"https://example.com/users/12345/orders?name=n1&a=1",
		reqH, respH,
		reqBody, respBody, 200,
	)
	collectorCap.take()
	if _, err := proc.Execute("flowUnderTest", stream); err != nil {
		return harSides{}, fmt.Errorf("Execute: %v", err)
	}
	recs := collectorCap.take()
	if len(recs) == 0 && declared > tr.MaxSize {
		return harSides{}, errNotExported
	}
	if len(recs) != 1 {
		return harSides{}, fmt.Errorf("the collector exported %d records for one transaction", len(recs))
	}
	rec := recs[0]
	if !bytes.HasPrefix(rec, []byte(exporterID+" ")) {
		return harSides{}, fmt.Errorf("exported record does not start with the exporter id: %.80q", rec)
	}
	var h har.HAR
	if err := json.Unmarshal(rec[len(exporterID)+1:], &h); err != nil {
		return harSides{}, fmt.Errorf("exported record is not a HAR document: %v", err)
	}
	if len(h.Log.Entries) != 1 {
		return harSides{}, fmt.Errorf("HAR has %d entries", len(h.Log.Entries))
	}
	rq, ok1 := h.Log.Entries[0].Request.Body.(string)
	rs, ok2 := h.Log.Entries[0].Response.Content.(string)
	if !ok1 || !ok2 {
		return harSides{}, fmt.Errorf("HAR bodies are %T / %T, not strings", h.Log.Entries[0].Request.Body, h.Log.Entries[0].Response.Content)
	}
	return harSides{rq, rs}, nil
}

// exclusions of the same list that name other transaction components; they
// must never influence a body
var otherComponentExclusions = []string{
	`$.request.headers["name"]`, `$.response.headers["name"]`, `$.request.headers["Authorization"]`,
	`$.request.query_param.name`, `$.request.query_param.a`,
	`$.request.path_segments[*]`, `$.request.path_segments[1]`, `$.request.path_segments[?(@ == "users")]`,
}

func genCollectorExclusions(t *rapid.T, req, resp *node) []string {
	var out []string
	for _, x := range genCursorExclusions(t, req, "req-excl") {
		if _, ok := parseCursor(x); ok {
			out = append(out, reqPrefix+x)
		}
	}
	for _, x := range genCursorExclusions(t, resp, "resp-excl") {
		if _, ok := parseCursor(x); ok {
			out = append(out, respPrefix+x)
		}
	}
	// an exclusion written for one body whose cursor exists in the other body
	if chance(t, "cross", 1, 4) {
		for _, x := range genCursorExclusions(t, resp, "cross-excl") {
			if _, ok := parseCursor(x); ok && x != "" {
				out = append(out, reqPrefix+x)
			}
		}
	}
	n := rapid.IntRange(0, 2).Draw(t, "other-count")
	for i := 0; i < n; i++ {
		out = append(out, rapid.SampledFrom(otherComponentExclusions).Draw(t, fmt.Sprintf("other-%d", i)))
	}
	if len(out) > 1 {
		out = rapid.Permutation(out).Draw(t, "order")
	}
	return out
}

func TestHARCollectorBodies(t *testing.T) {
	setupCollector(t)
	r := ev.New(t, "C16")
	rapid.Check(t, func(t *rapid.T) {
		rq, rp := genDocument(t), genDocument(t)
		excl := genCollectorExclusions(t, rq.root, rp.root)
		level := loglevel.Gen().Draw(t, "log level")
		r.Class("log level " + level)
		defer loglevel.Set(level)()
		r.Case()
		rsReq, rsResp := refFromJSONPaths(excl, reqPrefix), refFromJSONPaths(excl, respPrefix)
		passReq, passResp := passedByCollector(excl, reqPrefix), passedByCollector(excl, respPrefix)
		classify(r, rq.root, rsReq, passReq)
		tr := genTransport(t)
		whole := map[string]any{"route": "har-collector", "request_body": rq.text, "response_body": rp.text, "exclusions": excl, "transport": tr}
		if nonTrivial(rq.root, rsReq) || nonTrivial(rp.root, rsResp) {
			r.NonTrivial(ev.JSON(whole), func() any { return whole })
		}
		if tr != plainTransport {
			r.Class("transport: size limit / content-length / gzip / media type varied")
			if tr.ReqCT != "" || tr.RespCT != "" {
				r.Class("transport: a JSON body declared with another media type than application/json (or none)")
			}
			if len(rq.text) > tr.MaxSize || len(rp.text) > tr.MaxSize {
				r.Class("transport: a body longer than the collector's size limit")
			}
		}
		out, err := collectorObfuscateVia(rq.text, rp.text, excl, tr)
		if err == errNotExported {
			r.Class("transport: transaction dropped (declared size over the limit)")
			return
		}
		if err != nil {
			t.Fatalf("%s", r.Fail(whole, "har-collector: %v", err))
		}
		settle(t, r, judge(rq.text, out.req, rsReq, passReq),
			bodyCase{Route: "har-collector request body", Side: "request", Doc: rq.text, Exclusions: excl, Output: out.req, Transport: tr})
		settle(t, r, judge(rp.text, out.resp, rsResp, passResp),
			bodyCase{Route: "har-collector response body", Side: "response", Doc: rp.text, Exclusions: excl, Output: out.resp, Transport: tr})
	})
}

// ---- diagnosis HAR generator plugin -------------------------------------------------------

func TestHARGeneratorPluginBodies(t *testing.T) {
	r := ev.New(t, "C16")
	plugin := diagnoses.NewHARGeneratorPlugin(clock.NewMockClock(), md5Obfuscator)
	tree, err := config.BuildEndpointPolicyTree([]sharedConfig.EndpointConfig{})
	if err != nil {
		t.Fatalf("VERIF-INFRA: BuildEndpointPolicyTree: %v", err)
	}
	t0 := time.Date(2026, 1, 2, 3, 4, 5, 0, time.UTC)
	rapid.Check(t, func(t *rapid.T) {
		rq, rp := genDocument(t), genDocument(t)
		exReq := genCursorExclusions(t, rq.root, "req-excl")
		exResp := genCursorExclusions(t, rp.root, "resp-excl")
		if chance(t, "cross", 1, 4) {
			// the same path list reused for the other body must be judged on its own
			exReq = append(exReq, genCursorExclusions(t, rp.root, "cross-excl")...)
		}
		level := loglevel.Gen().Draw(t, "log level")
		r.Class("log level " + level)
		defer loglevel.Set(level)()
		r.Case()
		rsReq, rsResp := refFromCursors(exReq), refFromCursors(exResp)
		classify(r, rq.root, rsReq, exReq)
		whole := map[string]any{"route": "har-generator-plugin", "request_body": rq.text, "response_body": rp.text,
			"request_body_paths": exReq, "response_body_paths": exResp}
		if nonTrivial(rq.root, rsReq) || nonTrivial(rp.root, rsResp) {
			r.NonTrivial(ev.JSON(whole), func() any { return whole })
		}
		cfg := sharedConfig.HARExporterConfig{
			TransactionMaxSize: 1 << 30,
			Obfuscate: sharedConfig.Obfuscate{Enabled: true, Exclusions: sharedConfig.ObfuscationExclusions{
				RequestBodyPaths: exReq, ResponseBodyPaths: exResp,
				QueryParams: []string{"name"}, RequestHeaders: []string{"name"}, ResponseHeaders: []string{"name"},
			}},
		}
		onReq := lunarMessages.OnRequest{ID: "c16", SequenceID: "1", Method: "POST", Scheme: "https", URL: "example.com/users/12345",
			Path: "/users/12345", Query: "name=n1&a=1", Headers: map[string]string{"content-type": "application/json", "name": "hdr-name"},
			Body: rq.text, Time: t0}
		onResp := lunarMessages.OnResponse{ID: "c16", SequenceID: "1", Method: "POST", URL: "example.com/users/12345", Status: 200,
			Headers: map[string]string{"content-type": "application/json", "name": "hdr-name"}, Body: rp.text, Time: t0.Add(time.Second)}
		h, err := plugin.GenerateHAR(onReq, onResp, tree, &cfg)
		if err != nil || h == nil || len(h.Log.Entries) != 1 {
			t.Fatalf("%s", r.Fail(whole, "GenerateHAR: err=%v", err))
		}
		outReq, ok1 := h.Log.Entries[0].Request.Body.(string)
		outResp, ok2 := h.Log.Entries[0].Response.Content.(string)
		if !ok1 || !ok2 {
			t.Fatalf("%s", r.Fail(whole, "HAR bodies are not strings"))
		}
		settle(t, r, judge(rq.text, outReq, rsReq, exReq),
			bodyCase{Route: "har-generator-plugin request body", Side: "request", Doc: rq.text, Exclusions: exReq, Output: outReq})
		settle(t, r, judge(rp.text, outResp, rsResp, exResp),
			bodyCase{Route: "har-generator-plugin response body", Side: "response", Doc: rp.text, Exclusions: exResp, Output: outResp})
	})
}
