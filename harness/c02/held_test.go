package c02

// Unit TestHeldAtStateOperations: transactions of a concurrency quota stopped in the middle of what they do. The
// quota strategies work on a shared state through separately atomic operations (add to the set if not full,
// remove, list members, ...); between two of them another transaction, or the expiry collector, can act. Every
// such operation of the in-memory state is a yield point (hooks "state.before:<op>" / "state.after:<op>", commit
// 82f82ff), so generated schedules can stop a chosen request, response or proxy-error report at its k-th operation
// boundary, let other transactions run from start to end or let a collector pass happen, and release it again.
// A stall stays short: while something is held the clock moves by less than a second in total, every slot lives
// for at least two.
//
// Oracle (sound under every interleaving): nothing panics and every transaction returns; the transactions that
// were admitted, have not ended and are surely not expired (less than the expiry after their start) never exceed
// the maximum; and when everything has ended and every expiry has passed a new transaction is admitted - the quota
// does not stay exhausted.

import (
	"bytes"
	"fmt"
	"runtime"
	"strconv"
	"strings"
	"sync"
	"testing"
	"time"

	"lunar/toolkit-core/verifhook"

	"pgregory.net/rapid"

	"verif/harness/internal/engine"
	"verif/harness/internal/ev"
	"verif/harness/internal/vclock"
)

type heldOp struct {
	Op    string `json:"op"`               // req | resp | err | adv | release
	Txn   int    `json:"txn,omitempty"`    // req/resp/err/release: which transaction
	HoldK int    `json:"hold_at,omitempty"` // req/resp/err: > 0 = stop at the k-th state-operation boundary
	Ms    int    `json:"ms,omitempty"`     // adv
}

type heldHist struct {
	Config config   `json:"config"`
	Ops    []heldOp `json:"ops"`
}

func goid() int64 {
	b := make([]byte, 64)
	b = b[:runtime.Stack(b, false)]
	b = bytes.TrimPrefix(b, []byte("goroutine "))
	if i := bytes.IndexByte(b, ' '); i > 0 {
		n, _ := strconv.ParseInt(string(b[:i]), 10, 64)
		return n
	}
	return -1
}

type heldTxn struct {
	k       int
	seen    int
	reached chan struct{}
	release chan struct{}
	done    chan string // "" or the panic text
	kind    string
	txn     int
	early   bool // verdict of a request: answered by the gateway (refused)
	stopped bool
}

func TestHeldAtStateOperations(t *testing.T) {
	if !verifhook.Enabled {
		fmt.Println("VERIF-INFRA: harness built without the verif tag")
		t.Fatalf("no hooks")
	}
	r := ev.New(t, "C02")
	rapid.Check(t, func(t *rapid.T) {
		cfg := config{Max: rapid.Int64Range(1, 2).Draw(t, "max"), ExpireSec: rapid.SampledFrom([]int64{2, 3}).Draw(t, "exp"), GCSec: 1}
		switch rapid.IntRange(0, 3).Draw(t, "shape") {
		case 0:
			cfg.Parent, cfg.PMax, cfg.PExpire, cfg.PGC = true, rapid.Int64Range(1, 2).Draw(t, "pmax"), rapid.SampledFrom([]int64{2, 60}).Draw(t, "pexp"), 1
		case 1:
			cfg.Second = rapid.SampledFrom([]string{"conc-after", "conc-before"}).Draw(t, "second")
		}
		h := heldHist{Config: cfg}
		n := rapid.IntRange(3, 14).Draw(t, "n")
		next, started, answered := 1, []int{}, map[int]bool{}
		heldNow := []int{}
		for i := 0; i < n; i++ {
			holdK := 0
			if len(heldNow) < 2 && rapid.IntRange(0, 2).Draw(t, "hold") == 0 {
				holdK = rapid.IntRange(1, 8).Draw(t, "k")
			}
			switch k := rapid.IntRange(0, 9).Draw(t, "op"); {
			case k < 3:
				h.Ops = append(h.Ops, heldOp{Op: "req", Txn: next, HoldK: holdK})
				if holdK > 0 {
					heldNow = append(heldNow, next)
				}
				started = append(started, next)
				next++
			case k < 6 && len(started) > 0:
				id := started[rapid.IntRange(0, len(started)-1).Draw(t, "which")]
				if answered[id] || contains(heldNow, id) {
					continue
				}
				answered[id] = true
				op := "resp"
				if rapid.IntRange(0, 3).Draw(t, "err") == 0 {
					op = "err"
				}
				h.Ops = append(h.Ops, heldOp{Op: op, Txn: id, HoldK: holdK})
				if holdK > 0 {
					heldNow = append(heldNow, id)
				}
			case k < 8:
				h.Ops = append(h.Ops, heldOp{Op: "adv", Ms: rapid.SampledFrom([]int{1, 10, 400, 990, 1000, 1500, 2011, 2600, 3011}).Draw(t, "ms")})
			case len(heldNow) > 0:
				j := rapid.IntRange(0, len(heldNow)-1).Draw(t, "rel")
				h.Ops = append(h.Ops, heldOp{Op: "release", Txn: heldNow[j]})
				heldNow = append(heldNow[:j], heldNow[j+1:]...)
			}
		}
		r.Case()
		nt, msg, infra := runHeld(h)
		if infra != "" {
			fmt.Println("VERIF-INFRA:", infra)
			t.Fatalf("infrastructure")
		}
		if msg != "" {
			t.Fatalf("%s", r.Fail(h, "%s", msg))
		}
		if nt {
			r.Class("something else ran while a transaction was held inside an operation")
			r.NonTrivial(ev.JSON(h), func() any { return h })
		}
	})
}

func contains(xs []int, x int) bool {
	for _, y := range xs {
		if y == x {
			return true
		}
	}
	return false
}

func runHeld(h heldHist) (nontrivial bool, violation string, infra string) {
	start := time.Unix(1_700_000_000, 0)
	clk := vclock.New(start)
	clk.SettleTimeout = 2 * time.Second
	engine.SetClock(clk)
	dir, e := engine.NewDir(scratch)
	if e != nil {
		return false, "", e.Error()
	}
	defer dir.Remove()
	if e := dir.WriteQuota("q.yaml", h.Config.quotaYAML()); e != nil {
		return false, "", e.Error()
	}
	if e := dir.WriteFlow("f.yaml", h.Config.flowYAML()); e != nil {
		return false, "", e.Error()
	}
	s, e := dir.Load()
	if e != nil {
		return false, "", "generated configuration was rejected: " + e.Error()
	}
	nWait := 1
	if h.Config.Parent && !h.Config.Mixed {
		nWait++
	}
	if strings.HasPrefix(h.Config.Second, "conc-") {
		nWait++
	}
	if e := clk.WaitRegistrations("runGC", nWait); e != nil {
		return false, "", "collectors did not arm their timers: " + e.Error()
	}
	defer func() {
		// the collector goroutines of this case run out
		clk.Advance(1000 * time.Hour)
	}()

	var mu sync.Mutex
	byG := map[int64]*heldTxn{}
	verifhook.SetYield(func(point, _ string) {
		if !strings.HasPrefix(point, "state.") {
			return
		}
		mu.Lock()
		ht := byG[goid()]
		mu.Unlock()
		if ht == nil || ht.stopped {
			return
		}
		ht.seen++
		if ht.seen == ht.k {
			ht.stopped = true
			close(ht.reached)
			<-ht.release
		}
	})
	defer verifhook.SetYield(nil)

	maxEff := h.Config.Max
	if h.Config.Parent && h.Config.PMax < maxEff {
		maxEff = h.Config.PMax
	}
	exp := effExp(h.Config.ExpireSec)
	if h.Config.Parent && effExp(h.Config.PExpire) < exp {
		exp = effExp(h.Config.PExpire)
	}
	startedAt := map[int]time.Time{}
	admitted := map[int]bool{}
	ended := map[int]bool{}
	held := map[int]*heldTxn{}
	stallLeft := 990 * time.Millisecond

	run := func(kind string, id int) (early bool, panicked string) {
		defer func() {
			if p := recover(); p != nil {
				panicked = fmt.Sprintf("%v", p)
			}
		}()
		switch kind {
		case "req":
			res := engine.RunRequest(s, txn(id, false, clk.Now()))
			if res.Err != nil {
				return true, ""
			}
			return res.Early != nil, ""
		case "resp":
			_ = engine.RunResponse(s, txn(id, false, clk.Now()))
		case "err":
			s.OnError(txName(id))
		}
		return false, ""
	}
	finish := func(ht *heldTxn, panicText string) string {
		if panicText != "" {
			return fmt.Sprintf("handling the %s of transaction t%d panicked: %s", ht.kind, ht.txn, panicText)
		}
		switch ht.kind {
		case "req":
			if !ht.early {
				admitted[ht.txn] = true
			}
		default:
			ended[ht.txn] = true
		}
		return ""
	}
	releaseOne := func(id int) string {
		ht := held[id]
		if ht == nil {
			return ""
		}
		delete(held, id)
		close(ht.release)
		select {
		case p := <-ht.done:
			return finish(ht, p)
		case <-time.After(20 * time.Second):
			return fmt.Sprintf("the %s of transaction t%d did not return after it was let go on", ht.kind, ht.txn)
		}
	}
	bound := func(when string) string {
		now := clk.Now()
		n := int64(0)
		for id := range admitted {
			if !ended[id] && now.Before(startedAt[id].Add(exp)) {
				n++
			}
		}
		if n > maxEff {
			return fmt.Sprintf("%s: %d admitted transactions are in flight and not expired, the quota allows %d", when, n, maxEff)
		}
		return ""
	}

	for i, op := range h.Ops {
		if len(held) > 0 && (op.Op == "req" || op.Op == "resp" || op.Op == "err" || op.Op == "adv") {
			nontrivial = true
		}
		switch op.Op {
		case "req", "resp", "err":
			if op.Op == "req" {
				startedAt[op.Txn] = clk.Now()
			} else {
				// from the moment its end begins a transaction may have given its slot back
				ended[op.Txn] = true
			}
			ht := &heldTxn{k: op.HoldK, reached: make(chan struct{}), release: make(chan struct{}), done: make(chan string, 1), kind: op.Op, txn: op.Txn}
			ready := make(chan struct{})
			go func() {
				if ht.k > 0 {
					mu.Lock()
					byG[goid()] = ht
					mu.Unlock()
				}
				close(ready)
				early, p := run(ht.kind, ht.txn)
				ht.early = early
				ht.done <- p
			}()
			<-ready
			select {
			case p := <-ht.done:
				// ran to its end (it has fewer operation boundaries than k, or was not to be held)
				ht.stopped = true
				if msg := finish(ht, p); msg != "" {
					return nontrivial, fmt.Sprintf("step %d: %s", i, msg), ""
				}
			case <-ht.reached:
				held[op.Txn] = ht
				stallLeft = 990 * time.Millisecond
			case <-time.After(20 * time.Second):
				if len(held) == 0 {
					return nontrivial, fmt.Sprintf("step %d: the %s of transaction t%d did not return", i, op.Op, op.Txn), ""
				}
				// it waits for something a held transaction has: let the held ones go on
				for id := range held {
					if msg := releaseOne(id); msg != "" {
						return nontrivial, fmt.Sprintf("step %d: %s", i, msg), ""
					}
				}
				select {
				case p := <-ht.done:
					ht.stopped = true
					if msg := finish(ht, p); msg != "" {
						return nontrivial, fmt.Sprintf("step %d: %s", i, msg), ""
					}
				case <-time.After(20 * time.Second):
					return nontrivial, fmt.Sprintf("step %d: the %s of transaction t%d did not return", i, op.Op, op.Txn), ""
				}
			}
		case "release":
			if msg := releaseOne(op.Txn); msg != "" {
				return nontrivial, fmt.Sprintf("step %d: %s", i, msg), ""
			}
		case "adv":
			d := time.Duration(op.Ms) * time.Millisecond
			if len(held) > 0 {
				// a stall is short: less than a second in all while something is held
				if d > stallLeft {
					for id := range held {
						if msg := releaseOne(id); msg != "" {
							return nontrivial, fmt.Sprintf("step %d: %s", i, msg), ""
						}
					}
				} else {
					stallLeft -= d
				}
			}
			if _, e := clk.AdvanceSettle(d, "runGC"); e != nil {
				if len(held) == 0 {
					return nontrivial, "", "collector pass not awaited: " + e.Error()
				}
				for id := range held {
					if msg := releaseOne(id); msg != "" {
						return nontrivial, fmt.Sprintf("step %d: %s", i, msg), ""
					}
				}
			}
		}
		if msg := bound(fmt.Sprintf("after step %d (%s)", i, op.Op)); msg != "" {
			return nontrivial, msg, ""
		}
	}
	for id := range held {
		if msg := releaseOne(id); msg != "" {
			return nontrivial, "at the end: " + msg, ""
		}
	}
	// everything ends; every expiry passes (collector passes included); then the quota must be free
	for id := range admitted {
		if !ended[id] {
			if _, p := run("resp", id); p != "" {
				return nontrivial, fmt.Sprintf("at the end: handling the response of transaction t%d panicked: %s", id, p), ""
			}
			ended[id] = true
		}
	}
	longest := effExp(h.Config.ExpireSec)
	if h.Config.Parent && effExp(h.Config.PExpire) > longest {
		longest = effExp(h.Config.PExpire)
	}
	for k := 0; k < 3; k++ {
		if _, e := clk.AdvanceSettle(longest+2*time.Second, "runGC"); e != nil {
			return nontrivial, "", "collector pass not awaited at the end: " + e.Error()
		}
	}
	early, p := run("req", 900000)
	if p != "" {
		return nontrivial, "final probe panicked: " + p, ""
	}
	if early {
		return nontrivial, "final probe refused: every transaction has ended and every expiry time has passed, but the quota is still exhausted", ""
	}
	return nontrivial, "", ""
}
