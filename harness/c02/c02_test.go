// C02 — concurrency quotas bound in-flight requests and always free their slots.
package c02

import (
	"fmt"
	"lunar/engine/streams"
	"lunar/toolkit-core/verifhook"
	"os"
	"sort"
	"strings"
	"sync"
	"testing"
	"time"

	"pgregory.net/rapid"

	"verif/harness/internal/engine"
	"verif/harness/internal/ev"
	"verif/harness/internal/loglevel"
	"verif/harness/internal/vclock"
)

type config struct {
	Max       int64 `json:"max"`
	ExpireSec int64 `json:"expire_sec"`
	GCSec     int64 `json:"gc_sec"`
	Parent    bool  `json:"parent"`
	PMax      int64 `json:"parent_max,omitempty"`
	PExpire   int64 `json:"parent_expire_sec,omitempty"`
	PGC       int64 `json:"parent_gc_sec,omitempty"`
	// Mixed (with Parent): the internal limit the Limiter consults is a fixed-window limit that never refuses
	// (100000 per minute); the concurrency quota is its parent alone
	Mixed bool `json:"fixed_window_child,omitempty"`
	// Cluster: the cluster-liveness component as main() wires it, with this gateway instance id ("" is what an
	// unset GATEWAY_INSTANCE_ID gives; main() only warns about it); "none" = not wired (library use)
	Cluster string `json:"cluster_instance_id"`
	// Second: the flow also consults an independent fixed-window quota that never refuses (100000 per minute),
	// through a second Limiter placed "after" or "before" the Limiter of the concurrency quota; "conc-after" /
	// "conc-before": that second quota is a concurrency quota too (100000 slots, never refuses)
	Second string `json:"second_quota,omitempty"`
	// IDs: how the transaction ids read - the proxy takes them from the client's x-lunar-req-id header when there is
	// one, so they are free text: "" = t<n>; "nested" = pairs of ids of which one is the other plus "::retry" (the
	// separator the concurrency quota uses inside its set members); "free" = spaces, colons, non-ASCII; "colon" = t<n>: (a trailing colon)
	IDs string `json:"id_style,omitempty"`
	// Attempts: which transactions are retried attempts of an earlier sequence, i.e. carry a sequence id that is
	// not their own id ("" none, "odd" every second one, "all")
	Attempts string `json:"retried_attempts,omitempty"`
	// LogLevel: the gateway's log level (LOG_LEVEL), output discarded; "" / "off" = logging disabled
	LogLevel string `json:"log_level,omitempty"`
	// RespFails: the handling of every response fails inside the flow's response direction, before the quota's end
	// flow is reached (an error injected at the execution of a Filter there - fault point proc.execute of hook
	// ec5ca4b; with the shipped processors a response flow fails only through a user-provided processor). The slot of
	// the transaction may or may not be given back by such a response; the proxy's failure report for it (or the
	// expiry) must give it back
	RespFails bool `json:"response_flow_fails,omitempty"`
	// Nested (with Second): the two independent quotas have filters of their own that both match the transactions
	// (h.com/c): "main-exact" = the concurrency quota on h.com/c, the second quota on h.com/*; "second-exact" =
	// the other way round; "" = both on h.com/*
	Nested string `json:"nested_quota_filters,omitempty"`
}

func (c config) quotaURLs() (mainURL, secondURL string) {
	switch c.Nested {
	case "main-exact":
		return "h.com/c", "h.com/*"
	case "second-exact":
		return "h.com/*", "h.com/c"
	}
	return "h.com/*", "h.com/*"
}

// idStyle is the id style of the case that is running (set where the case starts, like the clock)
var idStyle string

// seqStyle: which transactions of the running case carry a sequence id different from their id (config.Attempts)
var seqStyle string

// idAlias: transactions that carry the id of an earlier, ended transaction (set while a case runs)
var idAlias = map[int]int{}

// idHolder: the latest transaction that carries the id of transaction id
func idHolder(id int) int {
	root := id
	if a, ok := idAlias[id]; ok {
		root = a
	}
	h := root
	for k, a := range idAlias {
		if a == root && k > h {
			h = k
		}
	}
	return h
}

func txName(id int) string {
	if a, ok := idAlias[id]; ok {
		id = a
	}
	switch idStyle {
	case "nested":
		if id%2 == 0 { // the longer id belongs to the earlier transaction of a pair
			return fmt.Sprintf("order-%d::retry", id/2)
		}
		return fmt.Sprintf("order-%d", id/2)
	case "free":
		return fmt.Sprintf("req %d: \u00e9::\u2603", id)
	case "colon": // ends in one colon: next to the separator that follows it in a set member it makes a run of three
		return fmt.Sprintf("t%d:", id)
	}
	return fmt.Sprintf("t%d", id)
}

// effective expiry / collector interval (documented defaults when not configured)
func effExp(sec int64) time.Duration {
	if sec == 0 {
		return 60 * time.Second
	}
	return time.Duration(sec) * time.Second
}

func effGC(sec int64) time.Duration {
	if sec == 0 {
		return 30 * time.Second
	}
	return time.Duration(sec) * time.Second
}

func (c config) quotaYAML() string {
	mainURL, secondURL := c.quotaURLs()
	// an expiry / collector interval of 0 means "not configured": the documented defaults (60 s / 30 s) apply
	conc := func(indent string, max, exp, gc int64) string {
		y := fmt.Sprintf("%sstrategy:\n%s  concurrent:\n%s    max_request_count: %d\n", indent, indent, indent, max)
		if exp != 0 {
			y += fmt.Sprintf("%s    request_expiration_sec: %d\n", indent, exp)
		}
		if gc != 0 {
			y += fmt.Sprintf("%s    gc_interval_sec: %d\n", indent, gc)
		}
		return y
	}
	second := ""
	if c.Second != "" {
		second = "  - id: QF\n    filter:\n      url: \"" + secondURL + "\"\n    strategy:\n      fixed_window:\n        max: 100000\n        interval: 1\n        interval_unit: minute\n"
	}
	if strings.HasPrefix(c.Second, "conc-") {
		// the second quota is a concurrency quota as well (it never refuses: 100000 slots, one hour)
		second = "  - id: QF\n    filter:\n      url: \"" + secondURL + "\"\n    strategy:\n      concurrent:\n        max_request_count: 100000\n        request_expiration_sec: 3600\n        gc_interval_sec: 3600\n"
	}
	if !c.Parent {
		return "quotas:\n  - id: QC\n    filter:\n      url: \"" + mainURL + "\"\n" + conc("    ", c.Max, c.ExpireSec, c.GCSec) + second
	}
	if c.Mixed {
		return "quotas:\n  - id: QP\n    filter:\n      url: \"" + mainURL + "\"\n" + conc("    ", c.PMax, c.PExpire, c.PGC) + second +
			"internal_limits:\n  - id: QC\n    parent_id: QP\n    strategy:\n      fixed_window:\n        max: 100000\n        interval: 1\n        interval_unit: minute\n"
	}
	return "quotas:\n  - id: QP\n    filter:\n      url: \"" + mainURL + "\"\n" + conc("    ", c.PMax, c.PExpire, c.PGC) + second +
		"internal_limits:\n  - id: QC\n    parent_id: QP\n" + conc("    ", c.Max, c.ExpireSec, c.GCSec)
}

// flowYAML of the configuration: the base flow, or the base flow with a second Limiter (quota QF) spliced in
// behind / in front of the Limiter of the concurrency quota.
func (c config) flowYAML() string {
	y := c.flowYAMLBase()
	if c.RespFails {
		y = strings.Replace(y, "  Gen429:\n", "  RespFlt:\n    processor: Filter\n    parameters:\n      - key: header\n        value: \"x-resp=1\"\n  Gen429:\n", 1)
		toEnd := "      to:\n        stream:\n          name: globalStream\n          at: end\n"
		y = strings.Replace(y, "    - from:\n        stream:\n          name: globalStream\n          at: start\n"+toEnd,
			"    - from:\n        stream:\n          name: globalStream\n          at: start\n      to:\n        processor:\n          name: RespFlt\n"+
				"    - from:\n        processor:\n          name: RespFlt\n          condition: hit\n"+toEnd+
				"    - from:\n        processor:\n          name: RespFlt\n          condition: miss\n"+toEnd, 1)
	}
	return y
}

func (c config) flowYAMLBase() string {
	if c.Second == "" {
		return flowYAML
	}
	y := strings.Replace(flowYAML, "  Gen429:\n", "  LimF:\n    processor: Limiter\n    parameters:\n      - key: quota_id\n        value: QF\n  Gen429:\n", 1)
	procEnd := func(n, cond string) string {
		s := "        processor:\n          name: " + n + "\n"
		if cond != "" {
			s += "          condition: " + cond + "\n"
		}
		return s
	}
	extra := "    - from:\n" + procEnd("LimF", "above_limit") + "      to:\n" + procEnd("Gen429", "")
	if strings.HasSuffix(c.Second, "after") {
		// Lim/below_limit -> LimF ; LimF/below_limit -> Flt
		y = strings.Replace(y, "          name: Lim\n          condition: below_limit\n      to:\n        processor:\n          name: Flt\n",
			"          name: Lim\n          condition: below_limit\n      to:\n        processor:\n          name: LimF\n"+extra+"    - from:\n"+procEnd("LimF", "below_limit")+"      to:\n"+procEnd("Flt", ""), 1)
	} else {
		// stream start -> LimF ; LimF/below_limit -> Lim
		y = strings.Replace(y, "          at: start\n      to:\n        processor:\n          name: Lim\n",
			"          at: start\n      to:\n        processor:\n          name: LimF\n"+extra+"    - from:\n"+procEnd("LimF", "below_limit")+"      to:\n"+procEnd("Lim", ""), 1)
	}
	return y
}

const flowYAML = `name: cflow
filter:
  url: "h.com/c"
processors:
  Lim:
    processor: Limiter
    parameters:
      - key: quota_id
        value: QC
  Gen429:
    processor: GenerateResponse
    parameters:
      - key: status
        value: 429
      - key: body
        value: Too Many Requests
  Flt:
    processor: Filter
    parameters:
      - key: header
        value: "x-early=1"
  Gen200:
    processor: GenerateResponse
    parameters:
      - key: status
        value: 200
      - key: body
        value: early
flow:
  request:
    - from:
        stream:
          name: globalStream
          at: start
      to:
        processor:
          name: Lim
    - from:
        processor:
          name: Lim
          condition: above_limit
      to:
        processor:
          name: Gen429
    - from:
        processor:
          name: Lim
          condition: below_limit
      to:
        processor:
          name: Flt
    - from:
        processor:
          name: Flt
          condition: hit
      to:
        processor:
          name: Gen200
    - from:
        processor:
          name: Flt
          condition: miss
      to:
        stream:
          name: globalStream
          at: end
  response:
    - from:
        processor:
          name: Gen429
      to:
        stream:
          name: globalStream
          at: end
    - from:
        processor:
          name: Gen200
      to:
        stream:
          name: globalStream
          at: end
    - from:
        stream:
          name: globalStream
          at: start
      to:
        stream:
          name: globalStream
          at: end
`

type step struct {
	Op  string        `json:"op"` // req | early | resp | err | adv | burst
	Txn int           `json:"txn,omitempty"`
	D   time.Duration `json:"d,omitempty"`
	N   int           `json:"n,omitempty"`
	// Again (req): the id of transaction Again comes again (x-lunar-req-id is client text; retried calls re-send
	// it) - if that transaction has surely ended (answered, failed, or expired and collected); else an id of its own
	Again int `json:"id_of_ended_transaction,omitempty"`
}

type hist struct {
	Config config `json:"config"`
	Steps  []step `json:"steps"`
}

func genConfig() *rapid.Generator[config] {
	return rapid.Custom(func(t *rapid.T) config {
		// one case in four leaves the expiry, and one in four the collector interval, to its default
		c := config{Max: rapid.Int64Range(1, 4).Draw(t, "max"), ExpireSec: rapid.SampledFrom([]int64{0, 1, 2, 3, 4, 5, 2, 3}).Draw(t, "exp"), GCSec: rapid.SampledFrom([]int64{0, 1, 2, 3}).Draw(t, "gc")}
		if rapid.IntRange(0, 2).Draw(t, "parent") == 0 {
			c.Parent = true
			c.PMax, c.PExpire, c.PGC = rapid.Int64Range(1, 4).Draw(t, "pmax"), rapid.SampledFrom([]int64{0, 1, 2, 3, 4, 5}).Draw(t, "pexp"), rapid.SampledFrom([]int64{0, 1, 2, 3}).Draw(t, "pgc")
			if rapid.IntRange(0, 2).Draw(t, "mixed") == 0 {
				// the concurrency quota is then the parent alone: the history is timed by its settings
				c.Mixed = true
				c.Max, c.ExpireSec, c.GCSec = c.PMax, c.PExpire, c.PGC
			}
		}
		c.Second = rapid.SampledFrom([]string{"", "", "after", "before", "conc-after", "conc-before"}).Draw(t, "second")
		c.RespFails = rapid.IntRange(0, 4).Draw(t, "resp-fails") == 0
		if c.Second != "" {
			c.Nested = rapid.SampledFrom([]string{"", "main-exact", "second-exact"}).Draw(t, "nested")
		}
		c.Cluster = rapid.SampledFrom([]string{"none", "none", "gw-7f3a", "", ""}).Draw(t, "cluster")
		c.IDs = rapid.SampledFrom([]string{"", "", "", "nested", "nested", "free", "colon"}).Draw(t, "ids")
		c.LogLevel = loglevel.Gen().Draw(t, "log level")
		c.Attempts = rapid.SampledFrom([]string{"", "", "odd", "all"}).Draw(t, "retried attempts")
		return c
	})
}

func genSteps(c config) *rapid.Generator[[]step] {
	return rapid.Custom(func(t *rapid.T) []step {
		n := rapid.IntRange(4, 40).Draw(t, "len")
		out := []step{}
		next := 1
		exp, gc := effExp(c.ExpireSec), effGC(c.GCSec)
		for k := 0; k < n; k++ {
			op := rapid.IntRange(0, 12).Draw(t, "op")
			if c.IDs == "nested" && op == 3 && rapid.Bool().Draw(t, "pair") {
				// two transactions whose ids differ by the separator suffix: the one with the longer id starts first
				// and is never answered, the other starts d later, is still inside its own expiry when the first one
				// has passed its expiry (a collector pass falls in between for d = gc), and is answered then;
				// afterwards as many requests as the quota has slots
				if next%2 == 1 {
					next++
				}
				d := rapid.SampledFrom([]time.Duration{gc, time.Second, 500 * time.Millisecond}).Draw(t, "pd")
				out = append(out, step{Op: "req", Txn: next}, step{Op: "adv", D: d}, step{Op: "req", Txn: next + 1},
					step{Op: "adv", D: exp}, step{Op: "resp", Txn: next + 1})
				next += 2
				for i := int64(0); i < c.Max && i < 6; i++ {
					out = append(out, step{Op: "req", Txn: next})
					next++
				}
				continue
			}
			if c.IDs != "" && op == 2 && rapid.IntRange(0, 2).Draw(t, "id-again") == 0 {
				// a transaction that is never answered expires and is collected; the quota is filled; then its id
				// comes again
				a := next
				out = append(out, step{Op: "req", Txn: a}, step{Op: "adv", D: exp + gc + 10*time.Millisecond}, step{Op: "adv", D: gc})
				next++
				for i := int64(0); i < c.Max && i < 6; i++ {
					out = append(out, step{Op: "req", Txn: next})
					next++
				}
				out = append(out, step{Op: "req", Txn: next, Again: a})
				next++
				continue
			}
			switch op {
			case 12:
				// the gateway's metrics collection reads the quota gauges
				out = append(out, step{Op: "metrics"})
			case 0, 1, 2, 3:
				st := step{Op: "req", Txn: next}
				if next > 1 && rapid.IntRange(0, 4).Draw(t, "again") == 0 {
					st.Again = rapid.IntRange(1, next-1).Draw(t, "again-of")
				}
				out = append(out, st)
				next++
			case 4:
				out = append(out, step{Op: "early", Txn: next})
				next++
			case 5, 6:
				if next > 1 {
					rt := rapid.IntRange(1, next).Draw(t, "rtxn")
					out = append(out, step{Op: "resp", Txn: rt}) // may be unknown (== next) or a duplicate
					if c.RespFails && rapid.IntRange(0, 2).Draw(t, "reported") > 0 {
						// the response flow fails, and the access-log plugin reports the failed transaction
						out = append(out, step{Op: "err", Txn: rt})
					}
				}
			case 7:
				if next > 1 {
					out = append(out, step{Op: "err", Txn: rapid.IntRange(1, next).Draw(t, "etxn")})
				}
			case 8, 9, 10:
				out = append(out, step{Op: "adv", D: rapid.SampledFrom([]time.Duration{
					time.Second, gc, exp, exp + 10*time.Millisecond, exp + 11*time.Millisecond, exp - time.Millisecond, exp + gc, 500 * time.Millisecond, 9 * time.Millisecond, 10 * time.Millisecond,
				}).Draw(t, "d")})
			case 11:
				nb := rapid.IntRange(2, 8).Draw(t, "n")
				out = append(out, step{Op: "burst", Txn: next, N: nb})
				next += nb
			}
		}
		return out
	})
}

// ---- reference model ----------------------------------------------------------

type slot struct {
	expiry time.Time // admit + expiry + 10ms: removed by the first GC pass at or after this instant
	// maybe: the transaction's response was handled but its flow failed before the quota's end flow: the slot may
	// have been given back or not (the statement names the response, the proxy's failure report and the expiry)
	maybe bool
}

type qmodel struct {
	max   int64
	exp   time.Duration
	slots map[int]slot
}

func (q *qmodel) live(now time.Time) (sure, grey int64) {
	for _, s := range q.slots {
		if now.Before(s.expiry) && !s.maybe {
			sure++
		} else {
			grey++ // expired but not yet collected: the implementation still counts it until the next GC pass
		}
	}
	return
}

type model struct {
	chain []*qmodel // child first
}

// verdicts the reference accepts for a sequential request at instant now
func (m *model) acceptable(now time.Time) (mayAdmit, mayRefuse bool) {
	mayAdmit, mayRefuse = true, false
	for _, q := range m.chain {
		sure, grey := q.live(now)
		if sure >= q.max {
			mayAdmit = false
		}
		if sure+grey >= q.max {
			mayRefuse = true
		}
	}
	return
}

func (m *model) admit(id int, now time.Time) {
	for _, q := range m.chain {
		q.slots[id] = slot{expiry: now.Add(q.exp + 10*time.Millisecond)}
	}
}

func (m *model) release(id int) bool {
	had := false
	for _, q := range m.chain {
		if _, ok := q.slots[id]; ok {
			had = true
		}
		delete(q.slots, id)
	}
	return had
}

// gc models one collector pass of quota qi at instant now
func (m *model) gc(qi int, now time.Time) int {
	n := 0
	q := m.chain[qi]
	for id, s := range q.slots {
		if !now.Before(s.expiry) {
			delete(q.slots, id)
			n++
		}
	}
	return n
}

var scratch string

func TestMain(m *testing.M) {
	engine.Setup()
	base := os.Getenv("VERIF_SCRATCH")
	if base == "" {
		base = os.TempDir()
	}
	d, err := os.MkdirTemp(base, "c02-")
	if err != nil {
		fmt.Println("VERIF-INFRA: cannot create scratch dir:", err)
		os.Exit(2)
	}
	scratch = d
	code := m.Run()
	os.RemoveAll(d)
	os.Exit(code)
}

func txn(id int, early bool, now time.Time) engine.Txn {
	h := map[string]string{"host": "h.com"}
	if early {
		h["x-early"] = "1"
	}
	tx := engine.Txn{ID: txName(id), Method: "GET", URL: "h.com/c", Path: "/c", Headers: h, Time: now, Status: 200}
	if seqStyle == "all" || (seqStyle == "odd" && id%2 == 1) {
		tx.Seq = "first-attempt-of-" + tx.ID // a retried attempt: the sequence id is the id of the first attempt
	}
	return tx
}

type infraErr struct{ msg string }

func (e infraErr) Error() string { return "VERIF-INFRA: " + e.msg }

// clock and number of collectors of the case that ran last (cases run one after the other)
var (
	lastClk    *vclock.Clock
	lastNQ     int
	lastStream *streams.Stream
)

func runHistory(h hist) (nontrivial bool, classes map[string]int, err error) {
	nt, cl, err := runHistoryInner(h)
	if err != nil && cl["collector-not-armed"] > 0 {
		if _, infra := err.(infraErr); !infra {
			// The collector passes of this case were not awaited. Confirm without any hand-shake: long after
			// every expiry time (collectors that armed late fire on the way) a new transaction must be admitted.
			for i := 0; i < 3; i++ {
				if _, e := lastClk.AdvanceSettle(time.Hour, "runGC"); e != nil {
					return nt, cl, infraErr{e.Error()}
				}
			}
			res := engine.RunRequest(lastStream, txn(900000, false, lastClk.Now()))
			if res.Err == nil && res.Early == nil {
				return nt, cl, infraErr{"collectors armed later than the hand-shake bound; case not judged: " + err.Error()}
			}
			return nt, cl, fmt.Errorf("%v; no expiry collector armed a timer for this quota, and three hours after every expiry time a new transaction is still refused: the slots are never given back", err)
		}
	}
	return nt, cl, err
}

func runHistoryInner(h hist) (nontrivial bool, classes map[string]int, err error) {
	loglevel.With(h.Config.LogLevel, func() { nontrivial, classes, err = runHistoryAtLevel(h) })
	if classes != nil {
		classes["log level "+h.Config.LogLevel]++
	}
	return
}

func runHistoryAtLevel(h hist) (nontrivial bool, classes map[string]int, err error) {
	classes = map[string]int{}
	start := time.Unix(1_700_000_000, 0)
	clk := vclock.New(start)
	lastClk, lastNQ = clk, 1
	engine.SetClock(clk)
	engine.SetCluster(h.Config.Cluster)
	defer engine.SetCluster("none")
	idStyle, idAlias, seqStyle = h.Config.IDs, map[int]int{}, h.Config.Attempts
	defer func() { idStyle, idAlias, seqStyle = "", map[int]int{}, "" }()
	metrics := engine.NewMetrics()
	defer metrics.Close()
	dir, e := engine.NewDir(scratch)
	if e != nil {
		return false, classes, infraErr{e.Error()}
	}
	defer dir.Remove()
	if e := dir.WriteQuota("q.yaml", h.Config.quotaYAML()); e != nil {
		return false, classes, infraErr{e.Error()}
	}
	if e := dir.WriteFlow("f.yaml", h.Config.flowYAML()); e != nil {
		return false, classes, infraErr{e.Error()}
	}
	s, e := dir.Load()
	if e != nil {
		return false, classes, infraErr{fmt.Sprintf("generated configuration was rejected: %v\n%s", e, h.Config.quotaYAML())}
	}
	nq := 1
	m := &model{chain: []*qmodel{{max: h.Config.Max, exp: effExp(h.Config.ExpireSec), slots: map[int]slot{}}}}
	gcEvery := []time.Duration{effGC(h.Config.GCSec)}
	if h.Config.Parent && !h.Config.Mixed {
		nq = 2
		m.chain = append(m.chain, &qmodel{max: h.Config.PMax, exp: effExp(h.Config.PExpire), slots: map[int]slot{}})
		gcEvery = append(gcEvery, effGC(h.Config.PGC))
	}
	// every concurrent strategy starts one collector goroutine; wait until each has armed its first timer
	// (a quota whose collector never arms a timer is not an infrastructure problem: the history goes on and
	// the first slot that is not given back at its expiry is reported as the violation it is)
	nWait := nq
	if strings.HasPrefix(h.Config.Second, "conc-") {
		nWait++ // the second concurrency quota has a collector of its own
	}
	lastNQ, lastStream = nq, s
	if e := clk.WaitRegistrations("runGC", nWait); e != nil {
		classes["collector-not-armed"]++
	}
	// collector timers: identify which quota each belongs to by its period (child timer registered per strategy)
	nextGC := make([]time.Time, nq)
	for i := range nextGC {
		nextGC[i] = start.Add(gcEvery[i])
	}
	admitted := map[int]bool{}
	ended := map[int]bool{}
	respFailed := map[int]bool{}
	if h.Config.RespFails {
		verifhook.SetFault(func(point, arg string) error {
			if point == "proc.execute" && strings.HasPrefix(arg, "cflow/RespFlt/") {
				return fmt.Errorf("verif: injected failure of a response-flow processor")
			}
			return nil
		})
		defer verifhook.SetFault(nil)
	}
	refusedWhileFull, admittedAfterRelease := false, false
	everFull, releasedSinceFull := false, false

	advance := func(d time.Duration) error {
		target := clk.Now().Add(d)
		for {
			// next collector pass not after target
			qi, at := -1, time.Time{}
			for i := range nextGC {
				if !nextGC[i].After(target) && (qi < 0 || nextGC[i].Before(at)) {
					qi, at = i, nextGC[i]
				}
			}
			if qi < 0 {
				break
			}
			if _, e := clk.AdvanceSettle(at.Sub(clk.Now()), "runGC"); e != nil {
				return infraErr{e.Error()}
			}
			// all collectors due at this instant have run (AdvanceSettle fires every due timer and awaits re-arm)
			for i := range nextGC {
				if nextGC[i].Equal(at) {
					if m.gc(i, at) > 0 {
						classes["release:expiry"]++
						releasedSinceFull = true
					}
					nextGC[i] = at.Add(gcEvery[i])
				}
			}
		}
		if _, e := clk.AdvanceSettle(target.Sub(clk.Now()), "runGC"); e != nil {
			return infraErr{e.Error()}
		}
		return nil
	}

	checkBound := func(si int) error {
		now := clk.Now()
		// soundness from observed verdicts only: admitted, not ended, not past expiry
		for qi, q := range m.chain {
			n := int64(0)
			for id := range admitted {
				if ended[id] {
					continue
				}
				if sl, ok := q.slots[id]; ok && now.Before(sl.expiry) {
					n++
				}
			}
			if n > q.max {
				return fmt.Errorf("step %d: %d admitted transactions in flight under quota #%d, maximum %d", si, n, qi, q.max)
			}
		}
		return nil
	}

	doRequest := func(si, id int, early bool, again int) error {
		now := clk.Now()
		if holder := idHolder(again); again > 0 && again != id && admitted[holder] {
			// the id is free again only if the transaction that carries it now has ended
			gone := true
			for _, q := range m.chain {
				if _, ok := q.slots[holder]; ok {
					gone = false
				}
			}
			if gone {
				root := again
				if a, ok := idAlias[root]; ok {
					root = a
				}
				idAlias[id] = root
				classes["request with the id of an ended transaction"]++
			}
		}
		mayAdmit, mayRefuse := m.acceptable(now)
		res := engine.RunRequest(s, txn(id, early, now))
		if res.Err != nil {
			return fmt.Errorf("step %d: ExecuteFlow error: %v", si, res.Err)
		}
		status := 0
		if res.Early != nil {
			status = res.Early.Status
		}
		ok := status != 429
		if early && ok && status != 200 {
			return fmt.Errorf("step %d: request with x-early was neither refused nor answered early (status %d)", si, status)
		}
		if ok && !mayAdmit {
			return fmt.Errorf("step %d: t%d admitted although the quota chain is full with unexpired in-flight transactions (%s)", si, id, m.describe(now))
		}
		if !ok && !mayRefuse {
			return fmt.Errorf("step %d: t%d refused although a slot is free on every quota of the chain (%s)", si, id, m.describe(now))
		}
		if !ok {
			sure := true
			for _, q := range m.chain {
				if a, _ := q.live(now); a >= q.max {
					sure = false
				}
			}
			_ = sure
			refusedWhileFull = true
			everFull, releasedSinceFull = true, false
			classes["refused"]++
			return nil
		}
		if everFull && releasedSinceFull {
			admittedAfterRelease = true
		}
		admitted[id] = true
		m.admit(id, now)
		if early {
			// answered by the gateway itself: the slot must be given back at once
			ended[id] = true
			m.release(id)
			classes["release:early"]++
			if seqStyle == "all" || (seqStyle == "odd" && id%2 == 1) {
				classes["release:early of a retried attempt (id != sequence id)"]++
			}
			releasedSinceFull = true
		}
		return nil
	}

	for si, st := range h.Steps {
		if st.Op == "resp" || st.Op == "err" {
			// an id that came again belongs to the transaction that carries it now
			st.Txn = idHolder(st.Txn)
		}
		switch st.Op {
		case "metrics":
			classes["metrics-read"]++
			if e := metrics.Read(); e != nil {
				return false, classes, infraErr{"metrics collection failed: " + e.Error()}
			}
		case "req":
			if e := doRequest(si, st.Txn, false, st.Again); e != nil {
				return false, classes, e
			}
		case "early":
			if e := doRequest(si, st.Txn, true, 0); e != nil {
				return false, classes, e
			}
		case "resp":
			res := engine.RunResponse(s, txn(st.Txn, false, clk.Now()))
			if h.Config.RespFails {
				if res.Err == nil {
					return false, classes, fmt.Errorf("VERIF-INFRA: step %d: the injected failure of the response flow did not surface", si)
				}
				// the response flow failed: the slot is in doubt until the proxy's report or the expiry
				classes["response-flow-failed"]++
				for _, q := range m.chain {
					if sl, ok := q.slots[st.Txn]; ok {
						sl.maybe = true
						q.slots[st.Txn] = sl
					}
				}
				respFailed[st.Txn] = true
				continue
			}
			if res.Err != nil {
				return false, classes, fmt.Errorf("step %d: response ExecuteFlow error: %v", si, res.Err)
			}
			if ended[st.Txn] || !admitted[st.Txn] {
				classes["dup-or-unknown-end"]++
			}
			if m.release(st.Txn) {
				classes["release:response"]++
				releasedSinceFull = true
			}
			if admitted[st.Txn] {
				ended[st.Txn] = true
			}
		case "err":
			s.OnError(txName(st.Txn))
			if respFailed[st.Txn] {
				classes["proxy reports a transaction whose response flow failed"]++
			}
			if ended[st.Txn] || !admitted[st.Txn] {
				classes["dup-or-unknown-end"]++
			}
			if m.release(st.Txn) {
				classes["release:error"]++
				releasedSinceFull = true
			}
			if admitted[st.Txn] {
				ended[st.Txn] = true
			}
		case "adv":
			if e := advance(st.D); e != nil {
				return false, classes, e
			}
		case "burst":
			now := clk.Now()
			capacity := int64(1 << 40)
			for _, q := range m.chain {
				sure, _ := q.live(now)
				if c := q.max - sure; c < capacity {
					capacity = c
				}
			}
			var wg sync.WaitGroup
			var mu sync.Mutex
			okIDs := []int{}
			var ferr error
			gate := make(chan struct{})
			for k := 0; k < st.N; k++ {
				id := st.Txn + k
				wg.Add(1)
				go func() {
					defer wg.Done()
					<-gate
					res := engine.RunRequest(s, txn(id, false, now))
					mu.Lock()
					defer mu.Unlock()
					if res.Err != nil {
						ferr = res.Err
						return
					}
					if res.Early == nil {
						okIDs = append(okIDs, id)
					}
				}()
			}
			close(gate)
			wg.Wait()
			if ferr != nil {
				return false, classes, fmt.Errorf("step %d: burst ExecuteFlow error: %v", si, ferr)
			}
			if int64(len(okIDs)) > capacity {
				return false, classes, fmt.Errorf("step %d: burst of %d admitted %d although only %d slots were free (%s)", si, st.N, len(okIDs), capacity, m.describe(now))
			}
			sort.Ints(okIDs)
			for _, id := range okIDs {
				admitted[id] = true
				m.admit(id, now)
			}
			if int64(st.N) > capacity {
				classes["burst>capacity"]++
				everFull, releasedSinceFull = true, false
				refusedWhileFull = true
			}
		}
		if e := checkBound(si); e != nil {
			return false, classes, e
		}
	}
	// final probe: end everything, let every collector run once, then a fresh request must be admitted
	for id := range admitted {
		if !ended[id] {
			res := engine.RunResponse(s, txn(id, false, clk.Now()))
			if h.Config.RespFails {
				// the response flow fails; the proxy reports the failed transaction
				s.OnError(txName(id))
			} else if res.Err != nil {
				return false, classes, fmt.Errorf("final: response ExecuteFlow error: %v", res.Err)
			}
			m.release(id)
			ended[id] = true
		}
	}
	maxGC := gcEvery[0]
	for _, g := range gcEvery {
		if g > maxGC {
			maxGC = g
		}
	}
	if e := advance(maxGC); e != nil {
		return false, classes, e
	}
	res := engine.RunRequest(s, txn(100000, false, clk.Now()))
	if res.Err != nil {
		return false, classes, fmt.Errorf("final probe: ExecuteFlow error: %v", res.Err)
	}
	if res.Early != nil {
		return false, classes, fmt.Errorf("final probe refused (status %d): the quota stays exhausted although every transaction has ended and a collector pass has run", res.Early.Status)
	}
	return refusedWhileFull && admittedAfterRelease, classes, nil
}

func (m *model) describe(now time.Time) string {
	parts := []string{}
	for i, q := range m.chain {
		sure, grey := q.live(now)
		parts = append(parts, fmt.Sprintf("quota#%d max=%d unexpired=%d expired-uncollected=%d", i, q.max, sure, grey))
	}
	return strings.Join(parts, "; ")
}

func TestConcurrentQuotaHistories(t *testing.T) {
	r := ev.New(t, "C02")
	rapid.Check(t, func(t *rapid.T) {
		cfg := genConfig().Draw(t, "config")
		h := hist{Config: cfg, Steps: genSteps(cfg).Draw(t, "steps")}
		r.Case()
		if cfg.Parent {
			r.Class("with-parent")
		}
		if cfg.Mixed {
			r.Class("fixed-window internal limit under the concurrency quota")
		}
		nt, classes, err := runHistory(h)
		for c, n := range classes {
			r.ClassN(c, int64(n))
		}
		if err != nil {
			if _, infra := err.(infraErr); infra {
				fmt.Println(err.Error())
				t.Fatalf("%v", err)
			}
			t.Fatalf("%s", r.Fail(h, "%v", err))
		}
		if nt {
			r.NonTrivial(ev.JSON(h), func() any { return h })
		}
	})
}

// Plain regression checks (bypass rapid) for the two defects this check found
// on the pinned tree and that were repaired by fix: commits in /repo.
func TestRegressionFixedDefects(t *testing.T) {
	r := ev.New(t, "C02")
	adv := func(d time.Duration) step { return step{Op: "adv", D: d} }
	cases := []hist{
		// collector skipped the member following every removed one (SMembers aliasing)
		{Config: config{Max: 3, ExpireSec: 1, GCSec: 1}, Steps: []step{{Op: "req", Txn: 1}, {Op: "req", Txn: 2}, adv(time.Second), {Op: "req", Txn: 3}, {Op: "req", Txn: 4}, adv(time.Second), {Op: "req", Txn: 5}, {Op: "req", Txn: 6}}},
		// child's slot already collected: the response never released the parent's slot
		{Config: config{Max: 1, ExpireSec: 1, GCSec: 1, Parent: true, PMax: 1, PExpire: 2, PGC: 1}, Steps: []step{{Op: "req", Txn: 1}, adv(2 * time.Second), {Op: "resp", Txn: 1}, {Op: "req", Txn: 2}}},
		// two concurrency quotas on one filter: the response released only the last one of the shared system flow (60d05fa)
		{Config: config{Max: 1, Second: "conc-after"}, Steps: []step{{Op: "req", Txn: 1}, {Op: "resp", Txn: 1}, {Op: "req", Txn: 2}, {Op: "resp", Txn: 2}, {Op: "req", Txn: 3}}},
		{Config: config{Max: 1, Second: "conc-before"}, Steps: []step{{Op: "req", Txn: 1}, {Op: "resp", Txn: 1}, {Op: "req", Txn: 2}}},
		// a transaction the proxy reports as failed under a fixed-window internal limit of the concurrency quota
		{Config: config{Max: 1, Parent: true, PMax: 1, Mixed: true}, Steps: []step{{Op: "req", Txn: 1}, {Op: "err", Txn: 1}, {Op: "req", Txn: 2}}},
		// a request id that contains the separator of the set members ("order-1::retry"): never collected after its expiry (4be2760)
		{Config: config{Max: 1, IDs: "nested"}, Steps: []step{{Op: "req", Txn: 2}, adv(30 * time.Second), adv(60 * time.Second), {Op: "req", Txn: 3}}},
		{Config: config{Max: 2, ExpireSec: 2, GCSec: 1, IDs: "free"}, Steps: []step{{Op: "req", Txn: 1}, {Op: "req", Txn: 2}, adv(3 * time.Second), {Op: "req", Txn: 3}, {Op: "req", Txn: 4}}},
		// a retried attempt (its sequence id is not its id) that the gateway answers itself gives its slot back (seeded change C02-14)
		{Config: config{Max: 1, Attempts: "all"}, Steps: []step{{Op: "early", Txn: 1}, {Op: "req", Txn: 2}}},
	}
	for _, h := range cases {
		r.Case()
		r.NonTrivial(ev.JSON(h), func() any { return h })
		if _, _, err := runHistory(h); err != nil {
			if _, infra := err.(infraErr); infra {
				fmt.Println(err.Error())
				t.Fatalf("%v", err)
			}
			t.Fatalf("%s", r.Fail(h, "%v", err))
		}
	}
}

// TestConcurrentBursts: rounds of many simultaneous arrivals at a quota that is empty or one short of full;
// the bound is judged from the observed verdicts (no request of a round has ended when the round is counted).
func TestConcurrentBursts(t *testing.T) {
	r := ev.New(t, "C02")
	rapid.Check(t, func(t *rapid.T) {
		cfg := config{Max: rapid.Int64Range(1, 4).Draw(t, "max"), ExpireSec: 60, GCSec: 30}
		if rapid.IntRange(0, 2).Draw(t, "parent") == 0 {
			cfg.Parent, cfg.PMax, cfg.PExpire, cfg.PGC = true, rapid.Int64Range(1, 4).Draw(t, "pmax"), 60, 30
		}
		rounds := rapid.IntRange(5, 25).Draw(t, "rounds")
		width := rapid.IntRange(4, 16).Draw(t, "width")
		prefill := rapid.IntRange(0, 1).Draw(t, "prefill")
		c := map[string]any{"config": cfg, "rounds": rounds, "width": width, "prefill_to_one_short": prefill == 1}
		r.Case()
		clk := vclock.New(time.Unix(1_700_000_000, 0))
		engine.SetClock(clk)
		dir, e := engine.NewDir(scratch)
		if e != nil {
			fmt.Println("VERIF-INFRA:", e)
			t.Fatalf("%v", e)
		}
		defer dir.Remove()
		_ = dir.WriteQuota("q.yaml", cfg.quotaYAML())
		_ = dir.WriteFlow("f.yaml", flowYAML)
		s, e := dir.Load()
		if e != nil {
			fmt.Println("VERIF-INFRA: configuration rejected:", e)
			t.Fatalf("%v", e)
		}
		limit := cfg.Max
		if cfg.Parent && cfg.PMax < limit {
			limit = cfg.PMax
		}
		id := 0
		for round := 0; round < rounds; round++ {
			held := []int{}
			if prefill == 1 {
				for k := int64(0); k < limit-1; k++ {
					id++
					if res := engine.RunRequest(s, txn(id, false, clk.Now())); res.Err == nil && res.Early == nil {
						held = append(held, id)
					}
				}
			}
			var wg sync.WaitGroup
			var mu sync.Mutex
			gate := make(chan struct{})
			for k := 0; k < width; k++ {
				id++
				me := id
				wg.Add(1)
				go func() {
					defer wg.Done()
					<-gate
					res := engine.RunRequest(s, txn(me, false, clk.Now()))
					if res.Err == nil && res.Early == nil {
						mu.Lock()
						held = append(held, me)
						mu.Unlock()
					}
				}()
			}
			close(gate)
			wg.Wait()
			if int64(len(held)) > limit {
				t.Fatalf("%s", r.Fail(c, "round %d: %d transactions were admitted and are all still in flight, the quota chain allows %d", round, len(held), limit))
			}
			if int64(len(held)) == limit {
				r.Class("round filled the quota exactly")
			}
			for _, h := range held {
				engine.RunResponse(s, txn(h, false, clk.Now()))
			}
		}
		r.NonTrivial(ev.JSON(c), func() any { return c })
	})
}
