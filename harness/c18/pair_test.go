package c18

// Unit TestPairInterleavedAtYieldPoints: the statement itself, on the smallest scale, with the schedule owned by the
// harness. Two transactions A and B of one quota (a concurrency quota or a fixed window, with 0..max slots taken
// before) are handled "at the same time" in a chosen interleaving: A is stopped at its k-th yield point - the
// boundaries of the operations of the shared state (hook 82f82ff) and the point between the Limiter's count and its
// verdict (b0b1961) - B is handled from start to end, then A goes on. A is a request; B is a request or the response
// of a transaction admitted before (which gives a slot back). The outcome - the verdicts of A and B and what is
// left of the quota afterwards (how many of max+1 further requests are admitted) - must be the outcome of one of
// the two one-at-a-time orders, A then B or B then A. Those are not modelled: the same gateway code handles the same
// transactions one after the other on a fresh configuration, and the interleaved outcome must be among them.
// No data race is needed for a difference (each operation may be atomic on its own), so this unit finds what the
// race detector cannot see; the detector watches all the same.

import (
	"bytes"
	"fmt"
	"runtime"
	"strconv"
	"strings"
	"sync"
	"sync/atomic"
	"testing"
	"time"

	"lunar/engine/streams"
	"lunar/toolkit-core/verifhook"

	"pgregory.net/rapid"

	"verif/harness/internal/engine"
	"verif/harness/internal/ev"
	"verif/harness/internal/loglevel"
	"verif/harness/internal/vclock"
)

func goid() int64 {
	b := make([]byte, 64)
	b = b[:runtime.Stack(b, false)]
	b = bytes.TrimPrefix(b, []byte("goroutine "))
	if i := bytes.IndexByte(b, ' '); i > 0 {
		n, _ := strconv.ParseInt(string(b[:i]), 10, 64)
		return n
	}
	return -1
}

type pairCase struct {
	Quota  string `json:"quota"` // concurrent | fixed
	Max    int    `json:"max"`
	Before int    `json:"admitted_before"`
	BKind  string `json:"b"` // req | resp (the response of the first transaction admitted before)
	HoldK  int    `json:"a_is_stopped_at_yield_point"`
}

var pairSerial atomic.Int64

func pairQuota(id, kind string, max int) string {
	if kind == "concurrent" {
		return fmt.Sprintf("quotas:\n  - id: %s\n    filter:\n      url: \"h.com/*\"\n    strategy:\n      concurrent:\n        max_request_count: %d\n        request_expiration_sec: 3600\n        gc_interval_sec: 3600\n", id, max)
	}
	return fmt.Sprintf("quotas:\n  - id: %s\n    filter:\n      url: \"h.com/*\"\n    strategy:\n      fixed_window:\n        max: %d\n        interval: 1\n        interval_unit: hour\n", id, max)
}

func pairFlow(quotaID string) string {
	return `name: pflow
filter:
  url: "h.com/c"
processors:
  Lim:
    processor: Limiter
    parameters:
      - key: quota_id
        value: ` + quotaID + `
  Gen429:
    processor: GenerateResponse
    parameters:
      - key: status
        value: 429
      - key: body
        value: Too Many Requests
flow:
  request:
    - from:
        stream:
          name: globalStream
          at: start
      to:
        processor:
          name: Lim
    - from:
        processor:
          name: Lim
          condition: above_limit
      to:
        processor:
          name: Gen429
    - from:
        processor:
          name: Lim
          condition: below_limit
      to:
        stream:
          name: globalStream
          at: end
  response:
    - from:
        processor:
          name: Gen429
      to:
        stream:
          name: globalStream
          at: end
    - from:
        stream:
          name: globalStream
          at: start
      to:
        stream:
          name: globalStream
          at: end
`
}

type pairOutcome struct {
	A, B string // admitted | refused | done (a response) | error: ...
	Free int    // how many of max+1 further requests are admitted afterwards
	Held bool   // A was really stopped while B ran
	// Blocked: B could not go on while A was stopped (A was inside a region B has to wait for)
	Blocked bool
}

func (o pairOutcome) key() string { return fmt.Sprintf("A=%s B=%s free=%d", o.A, o.B, o.Free) }

type pairHold struct {
	g       int64
	k, seen int
	stopped bool
	reached chan struct{}
	release chan struct{}
}

var (
	pairMu  sync.Mutex
	pairCur *pairHold
)

func pairYield(point, _ string) {
	if !strings.HasPrefix(point, "state.") && point != "limiter.between-inc-and-allowed" {
		return
	}
	pairMu.Lock()
	h := pairCur
	if h == nil || h.stopped || h.g != goid() {
		pairMu.Unlock()
		return
	}
	h.seen++
	stop := h.seen == h.k
	if stop {
		h.stopped = true
	}
	pairMu.Unlock()
	if stop {
		close(h.reached)
		<-h.release
	}
}

// runPair handles the case on a fresh configuration in the given order: "AB", "BA", or "interleaved".
func runPair(c pairCase, order string) (o pairOutcome, infra string) {
	n := pairSerial.Add(1)
	clk := vclock.New(time.Unix(1_700_000_000, 0))
	engine.SetClock(clk)
	dir, e := engine.NewDir(scratch)
	if e != nil {
		return o, e.Error()
	}
	defer dir.Remove()
	qid := fmt.Sprintf("PQ%d", n)
	_ = dir.WriteQuota("q.yaml", pairQuota(qid, c.Quota, c.Max))
	_ = dir.WriteFlow("f.yaml", pairFlow(qid))
	s, e := dir.Load()
	if e != nil {
		return o, "generated configuration was rejected: " + e.Error()
	}
	defer clk.Advance(10000 * time.Hour) // collector goroutines of this configuration run out
	txn := func(name string) engine.Txn {
		return engine.Txn{ID: fmt.Sprintf("p%d-%s", n, name), Method: "GET", URL: "h.com/c", Path: "/c", Headers: map[string]string{"host": "h.com"}, Time: clk.Now(), Status: 200}
	}
	request := func(s *streams.Stream, name string) string {
		res := engine.RunRequest(s, txn(name))
		switch {
		case res.Err != nil:
			return "error: " + res.Err.Error()
		case res.Early != nil:
			return "refused"
		}
		return "admitted"
	}
	for i := 0; i < c.Before; i++ {
		if v := request(s, fmt.Sprintf("pre%d", i)); v != "admitted" {
			return o, fmt.Sprintf("transaction %d of %d before the pair was %s (max %d)", i, c.Before, v, c.Max)
		}
	}
	doA := func() string { return request(s, "A") }
	doB := func() string {
		if c.BKind == "resp" {
			if res := engine.RunResponse(s, txn("pre0")); res.Err != nil {
				return "error: " + res.Err.Error()
			}
			return "done"
		}
		return request(s, "B")
	}
	switch order {
	case "AB":
		o.A = doA()
		o.B = doB()
	case "BA":
		o.B = doB()
		o.A = doA()
	default:
		h := &pairHold{k: c.HoldK, reached: make(chan struct{}), release: make(chan struct{})}
		done := make(chan string, 1)
		ready := make(chan struct{})
		go func() {
			defer func() {
				if p := recover(); p != nil {
					done <- fmt.Sprintf("error: panic: %v", p)
				}
			}()
			pairMu.Lock()
			h.g = goid()
			pairCur = h
			pairMu.Unlock()
			close(ready)
			done <- doA()
		}()
		<-ready
		select {
		case v := <-done: // A has fewer yield points than k: it ran to its end, the order is A then B
			o.A = v
			o.B = doB()
		case <-h.reached:
			o.Held = true
			bDone := make(chan string, 1)
			go func() { bDone <- doB() }()
			select {
			case o.B = <-bDone:
				close(h.release)
			case <-time.After(250 * time.Millisecond):
				// B waits for something A holds (a lock around the operation A is stopped in): let A go on
				close(h.release)
				o.B = <-bDone
				o.Held = false
				o.Blocked = true
			}
			select {
			case o.A = <-done:
			case <-time.After(20 * time.Second):
				return o, "A did not return after it was let go on"
			}
		case <-time.After(20 * time.Second):
			return o, "A neither returned nor reached its yield point"
		}
		pairMu.Lock()
		pairCur = nil
		pairMu.Unlock()
	}
	for i := 0; i <= c.Max; i++ {
		if request(s, fmt.Sprintf("probe%d", i)) == "admitted" {
			o.Free++
		}
	}
	return o, ""
}

func TestPairInterleavedAtYieldPoints(t *testing.T) {
	if !verifhook.Enabled {
		fmt.Println("VERIF-INFRA: harness built without the verif tag")
		t.Fatalf("no hooks")
	}
	r := ev.New(t, "C18")
	verifhook.SetYield(pairYield)
	defer verifhook.SetYield(nil)
	rapid.Check(t, func(t *rapid.T) {
		c := pairCase{Quota: rapid.SampledFrom([]string{"concurrent", "concurrent", "fixed"}).Draw(t, "quota"), Max: rapid.IntRange(1, 3).Draw(t, "max")}
		// mostly one slot left, or none
		c.Before = c.Max - rapid.SampledFrom([]int{1, 1, 1, 0, 2}).Draw(t, "left")
		if c.Before < 0 {
			c.Before = 0
		}
		c.BKind = "req"
		if c.Before > 0 && rapid.IntRange(0, 2).Draw(t, "b-resp") == 0 {
			c.BKind = "resp"
		}
		c.HoldK = rapid.IntRange(1, 8).Draw(t, "k")
		level := loglevel.Gen().Draw(t, "log level")
		r.Class("log level " + level)
		defer loglevel.SetLevelOnly(level)()
		r.Case()
		fail := func(format string, a ...any) {
			functionalTestFailure.Store(true)
			t.Fatalf("%s", r.Fail(c, format, a...))
		}
		got, infra := runPair(c, "interleaved")
		if infra != "" {
			fmt.Println("VERIF-INFRA:", infra)
			t.Fatalf("infrastructure")
		}
		ab, infra1 := runPair(c, "AB")
		ba, infra2 := runPair(c, "BA")
		if infra1 != "" || infra2 != "" {
			fmt.Println("VERIF-INFRA:", infra1, infra2)
			t.Fatalf("infrastructure")
		}
		for _, o := range []pairOutcome{got, ab, ba} {
			if strings.HasPrefix(o.A, "error") || strings.HasPrefix(o.B, "error") {
				fail("a transaction failed: %s", o.key())
			}
		}
		if got.key() != ab.key() && got.key() != ba.key() {
			fail("A was stopped at its yield point %d while B was handled, and the outcome is [%s]; handled one at a time the same transactions give [%s] (A then B) or [%s] (B then A) - no one-at-a-time order explains the interleaved outcome",
				c.HoldK, got.key(), ab.key(), ba.key())
		}
		if got.Held {
			r.Class("A stopped inside its handling while B ran")
			if ab.key() != ba.key() {
				r.Class("the two one-at-a-time orders differ")
				r.NonTrivial(ev.JSON(c), func() any { return map[string]any{"case": c, "interleaved": got.key(), "A then B": ab.key(), "B then A": ba.key()} })
			}
		} else if got.Blocked {
			r.Class("B had to wait for A (A was stopped inside a region that excludes B)")
		} else {
			r.Class("A has fewer yield points than k (ran to its end first)")
		}
	})
}
