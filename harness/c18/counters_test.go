package c18

// Unit TestFlowCountersUnderLoad: state the engine keeps per flow and that every transaction updates - the flow
// invocation counters behind the flow_invocations metric - must end, after transactions handled at the same time,
// where every one-at-a-time order of the same transactions leaves it: exactly one invocation per transaction that
// ran the flow. A read-modify-write that is not atomic loses updates without being a data race (each access may
// well be synchronised on its own), so the race detector says nothing; the count does. 2-16 goroutines send
// 50-400 transactions each to two flows with URLs of their own, while another goroutine keeps reading the counters
// as the metrics collection does.

import (
	"fmt"
	"sync"
	"sync/atomic"
	"testing"
	"time"

	"pgregory.net/rapid"

	"verif/harness/internal/engine"
	"verif/harness/internal/ev"
	"verif/harness/internal/loglevel"
	"verif/harness/internal/vclock"
)

func countedFlow(i int) string {
	return fmt.Sprintf(`name: counted%d
filter:
  url: "h.com/k%d"
processors:
  Flt:
    processor: Filter
    parameters:
      - key: header
        value: "x-never=1"
flow:
  request:
    - from:
        stream:
          name: globalStream
          at: start
      to:
        processor:
          name: Flt
    - from:
        processor:
          name: Flt
          condition: hit
      to:
        stream:
          name: globalStream
          at: end
    - from:
        processor:
          name: Flt
          condition: miss
      to:
        stream:
          name: globalStream
          at: end
  response:
    - from:
        stream:
          name: globalStream
          at: start
      to:
        stream:
          name: globalStream
          at: end
`, i, i)
}

type counterLoad struct {
	Goroutines int `json:"goroutines"`
	PerG       int `json:"transactions_per_goroutine"`
}

func TestFlowCountersUnderLoad(t *testing.T) {
	r := ev.New(t, "C18")
	rapid.Check(t, func(t *rapid.T) {
		w := counterLoad{Goroutines: rapid.IntRange(2, 16).Draw(t, "goroutines"), PerG: rapid.SampledFrom([]int{50, 100, 200, 400}).Draw(t, "per")}
		level := loglevel.Gen().Draw(t, "log level")
		r.Class("log level " + level)
		defer loglevel.SetLevelOnly(level)()
		r.Case()
		clk := vclock.New(time.Unix(1_700_000_000, 0))
		engine.SetClock(clk)
		dir, e := engine.NewDir(scratch)
		if e != nil {
			fmt.Println("VERIF-INFRA:", e)
			t.Fatalf("infrastructure")
		}
		defer dir.Remove()
		_ = dir.WriteFlow("k1.yaml", countedFlow(1))
		_ = dir.WriteFlow("k2.yaml", countedFlow(2))
		s, e := dir.Load()
		if e != nil {
			fmt.Println("VERIF-INFRA: configuration rejected:", e)
			t.Fatalf("infrastructure")
		}
		var wg sync.WaitGroup
		gate := make(chan struct{})
		stop := make(chan struct{})
		var sent [3]atomic.Int64
		var firstErr atomic.Value
		for g := 0; g < w.Goroutines; g++ {
			g := g
			wg.Add(1)
			go func() {
				defer wg.Done()
				<-gate
				for i := 0; i < w.PerG; i++ {
					k := 1 + (g+i)%2
					res := engine.RunRequest(s, engine.Txn{ID: fmt.Sprintf("g%d-%d", g, i), Method: "GET", URL: fmt.Sprintf("h.com/k%d", k), Path: fmt.Sprintf("/k%d", k), Headers: map[string]string{"host": "h.com"}})
					if res.Err != nil {
						firstErr.CompareAndSwap(nil, res.Err.Error())
						return
					}
					sent[k].Add(1)
				}
			}()
		}
		var reads atomic.Int64
		readerDone := make(chan struct{})
		go func() {
			defer close(readerDone)
			for {
				select {
				case <-stop:
					return
				default:
					_ = s.GetFlowInvocations()
					reads.Add(1)
					time.Sleep(50 * time.Microsecond)
				}
			}
		}()
		close(gate)
		wg.Wait()
		close(stop)
		<-readerDone
		if msg := firstErr.Load(); msg != nil {
			functionalTestFailure.Store(true)
			t.Fatalf("%s", r.Fail(w, "a transaction failed: %v", msg))
		}
		got := s.GetFlowInvocations()
		for k := 1; k <= 2; k++ {
			name := fmt.Sprintf("counted%d", k)
			if got[name] != sent[k].Load() {
				functionalTestFailure.Store(true)
				t.Fatalf("%s", r.Fail(w, "flow %s was run by %d transactions, its invocation counter says %d: in every one-at-a-time order it ends at %d", name, sent[k].Load(), got[name], sent[k].Load()))
			}
		}
		r.ClassN("transactions", sent[1].Load()+sent[2].Load())
		r.ClassN("counter reads while transactions ran", reads.Load())
		r.NonTrivial(ev.JSON(w), func() any { return w })
	})
}
