// C18 — concurrent transactions do not corrupt or share engine state.
//
// The package is built with -race. Workloads run many transactions at the same
// time (plus metric readers and a concurrent re-load of the configuration);
// TestMain collects the race detector's reports (GORACE log_path), reduces each
// to a normalised signature (the innermost lunar function of either access) and
// attributes it to a listed known finding or reports it as a violation.
package c18

import (
	"encoding/json"
	"fmt"
	"io"
	"net/http"
	"os"
	"path/filepath"
	"regexp"
	"runtime"
	"sort"
	"strings"
	"sync"
	"sync/atomic"
	"testing"
	"time"

	"lunar/engine/config"
	sharedConfig "lunar/shared-model/config"

	"pgregory.net/rapid"

	"verif/harness/internal/engine"
	"verif/harness/internal/ev"
	"verif/harness/internal/loglevel"
	"verif/harness/internal/vclock"
)

var scratch string

const statsName = "TestWorkloads"

func TestMain(m *testing.M) {
	engine.Setup()
	loglevel.Discard() // the logger variable is written once, here: cases only move the (atomic) global level
	base := os.Getenv("VERIF_SCRATCH")
	if base == "" {
		base = os.TempDir()
	}
	d, err := os.MkdirTemp(base, "c18-")
	if err != nil {
		fmt.Println("VERIF-INFRA: cannot create scratch dir:", err)
		os.Exit(2)
	}
	scratch = d
	code := m.Run()
	os.RemoveAll(d)
	code = judgeRaces(code)
	os.Exit(code)
}

// ---- race report handling ---------------------------------------------------------------

type report struct {
	Signature string `json:"signature"`
	Text      string `json:"text"`
}

var funcSuffix = regexp.MustCompile(`\.func\d+(\.\d+)*`)
var typeArgs = regexp.MustCompile(`\[[^\]]*\]`)

// normalise drops argument lists, closure numbering and generic instantiations,
// so that a signature survives unrelated edits and is the same for every type argument.
func normalise(fn string) string {
	fn = strings.TrimSuffix(strings.TrimSpace(fn), "()")
	fn = funcSuffix.ReplaceAllString(fn, ".func")
	fn = typeArgs.ReplaceAllString(fn, "")
	return fn
}

// parseReports splits a race log into reports and computes their signatures.
func parseReports(text string) []report {
	out := []report{}
	for _, chunk := range strings.Split(text, "==================") {
		if !strings.Contains(chunk, "WARNING: DATA RACE") {
			continue
		}
		// stacks are separated by blank lines; the first two are the conflicting accesses
		sig := []string{}
		for _, block := range strings.Split(chunk, "\n\n") {
			head := strings.TrimSpace(block)
			if !(strings.HasPrefix(head, "WARNING: DATA RACE") || strings.HasPrefix(head, "Previous ") || strings.HasPrefix(head, "Read at") || strings.HasPrefix(head, "Write at")) {
				continue
			}
			first := ""
			for _, line := range strings.Split(block, "\n") {
				l := strings.TrimSpace(line)
				if strings.HasPrefix(l, "lunar/") {
					first = normalise(l)
					break
				}
			}
			if first == "" {
				first = "(no lunar frame)"
			}
			sig = append(sig, first)
			if len(sig) == 2 {
				break
			}
		}
		sort.Strings(sig)
		out = append(out, report{Signature: strings.Join(sig, " <-> "), Text: strings.TrimSpace(chunk)})
	}
	return out
}

type knownEntry struct {
	ID         string   `json:"id"`
	Property   string   `json:"property"`
	Status     string   `json:"status"`
	Signatures []string `json:"signatures"`
}

func loadKnown() map[string]string {
	path := os.Getenv("VERIF_KNOWN")
	if path == "" {
		path = "/verif/known_findings.json"
	}
	sigs := map[string]string{}
	b, err := os.ReadFile(path)
	if err != nil {
		return sigs
	}
	var kf struct {
		Findings []knownEntry `json:"findings"`
	}
	if json.Unmarshal(b, &kf) != nil {
		return sigs
	}
	for _, f := range kf.Findings {
		if f.Property == "C18" && f.Status == "open" {
			for _, s := range f.Signatures {
				sigs[s] = f.ID
			}
		}
	}
	return sigs
}

// judgeRaces reads the race logs, attributes every report and rewrites the stats
// file of the workload test accordingly. It returns the process exit code.
func judgeRaces(code int) int {
	logPrefix := ""
	for _, kv := range strings.Fields(os.Getenv("GORACE")) {
		if strings.HasPrefix(kv, "log_path=") {
			logPrefix = strings.TrimPrefix(kv, "log_path=")
		}
	}
	text := ""
	if logPrefix != "" {
		files, _ := filepath.Glob(logPrefix + ".*")
		for _, f := range files {
			b, _ := os.ReadFile(f)
			text += string(b)
		}
	}
	reports := parseReports(text)
	known := loadKnown()
	statsDir := os.Getenv("VERIF_STATS")
	var st ev.Stats
	path := filepath.Join(statsDir, statsName+".json")
	if statsDir != "" {
		// one unit (= one test function) runs per process: take its statistics file
		if files, _ := filepath.Glob(filepath.Join(statsDir, "*.json")); len(files) > 0 {
			path = files[0]
		}
		if b, err := os.ReadFile(path); err == nil {
			_ = json.Unmarshal(b, &st)
		}
	}
	if st.Known == nil {
		st.Known = map[string]*ev.KnownHit{}
	}
	if st.Classes == nil {
		st.Classes = map[string]int64{}
	}
	var unknown []report
	seen := map[string]bool{}
	for _, r := range reports {
		st.Classes["race-reports"]++
		if id, ok := known[r.Signature]; ok {
			h := st.Known[id]
			if h == nil {
				h = &ev.KnownHit{Witness: map[string]any{"signature": r.Signature}}
				st.Known[id] = h
			}
			h.Count++
			continue
		}
		if !seen[r.Signature] {
			seen[r.Signature] = true
			unknown = append(unknown, r)
		}
	}
	functionalFailure := st.Failure != nil
	if len(unknown) > 0 && !functionalFailure {
		sigs := []string{}
		for _, u := range unknown {
			sigs = append(sigs, u.Signature)
		}
		st.Failure = &ev.Failure{Msg: fmt.Sprintf("%d data race(s) on engine state not listed as known findings: %s", len(unknown), strings.Join(sigs, " | ")), Case: unknown}
		for _, u := range unknown {
			fmt.Println("UNLISTED DATA RACE:", u.Signature)
		}
	}
	if statsDir != "" && (st.Test != "" || len(reports) > 0) {
		if st.Test == "" {
			st.Test, st.Property = statsName, "C18"
		}
		b, _ := json.Marshal(&st)
		_ = os.WriteFile(path, b, 0o644)
	} else if statsDir == "" {
		for _, r := range reports {
			fmt.Println("race signature:", r.Signature, "known:", known[r.Signature])
		}
	}
	if st.Failure != nil {
		return 1
	}
	if st.Test == "" && code != 0 {
		return code // the test did not even get to write its statistics
	}
	// a non-zero code that only stems from "race detected during execution of test" for listed races is not a violation
	if code != 0 && !functionalTestFailure.Load() {
		return 0
	}
	return code
}

var functionalTestFailure atomic.Bool

// ---- workloads ------------------------------------------------------------------------------

const quotaFlow = `name: qflow
filter:
  url: "h.com/q"
processors:
  Lim:
    processor: Limiter
    parameters:
      - key: quota_id
        value: WQ
  Gen429:
    processor: GenerateResponse
    parameters:
      - key: status
        value: 429
      - key: body
        value: limited
flow:
  request:
    - from:
        stream:
          name: globalStream
          at: start
      to:
        processor:
          name: Lim
    - from:
        processor:
          name: Lim
          condition: above_limit
      to:
        processor:
          name: Gen429
    - from:
        processor:
          name: Lim
          condition: below_limit
      to:
        stream:
          name: globalStream
          at: end
  response:
    - from:
        processor:
          name: Gen429
      to:
        stream:
          name: globalStream
          at: end
    - from:
        stream:
          name: globalStream
          at: start
      to:
        stream:
          name: globalStream
          at: end
`

const branchFlow = `name: bflow
filter:
  url: "h.com/b"
processors:
  F0:
    processor: Filter
    parameters:
      - key: header
        value: "x-a=1"
  F1:
    processor: Filter
    parameters:
      - key: header
        value: "x-b=1"
  GenA:
    processor: GenerateResponse
    parameters:
      - key: status
        value: 418
      - key: body
        value: A
  GenB:
    processor: GenerateResponse
    parameters:
      - key: status
        value: 419
      - key: body
        value: B
  R0:
    processor: Filter
    parameters:
      - key: header
        value: "x-r=1"
flow:
  request:
    - from:
        stream:
          name: globalStream
          at: start
      to:
        processor:
          name: F0
    - from:
        processor:
          name: F0
          condition: hit
      to:
        processor:
          name: GenA
    - from:
        processor:
          name: F0
          condition: miss
      to:
        processor:
          name: F1
    - from:
        processor:
          name: F1
          condition: hit
      to:
        processor:
          name: GenB
    - from:
        processor:
          name: F1
          condition: miss
      to:
        stream:
          name: globalStream
          at: end
  response:
    - from:
        stream:
          name: globalStream
          at: start
      to:
        processor:
          name: R0
    - from:
        processor:
          name: R0
          condition: hit
      to:
        stream:
          name: globalStream
          at: end
    - from:
        processor:
          name: R0
          condition: miss
      to:
        stream:
          name: globalStream
          at: end
    - from:
        processor:
          name: GenA
      to:
        stream:
          name: globalStream
          at: end
    - from:
        processor:
          name: GenB
      to:
        stream:
          name: globalStream
          at: end
`

// three pass-through flows on the wildcard pattern (one filter node holding several flows) ...
func wildFlow(i int) string {
	return fmt.Sprintf(`name: w%d
filter:
  url: "h.com/*"
processors:
  P:
    processor: Filter
    parameters:
      - key: header
        value: "x-never=1"
flow:
  request:
    - from:
        stream:
          name: globalStream
          at: start
      to:
        processor:
          name: P
    - from:
        processor:
          name: P
          condition: hit
      to:
        stream:
          name: globalStream
          at: end
    - from:
        processor:
          name: P
          condition: miss
      to:
        stream:
          name: globalStream
          at: end
  response:
    - from:
        stream:
          name: globalStream
          at: start
      to:
        stream:
          name: globalStream
          at: end
`, i)
}

// ... and one answering flow per specific URL h.com/s<i>, whose body names it
func specificFlow(i int) string {
	return fmt.Sprintf(`name: s%d
filter:
  url: "h.com/s%d"
processors:
  Flt:
    processor: Filter
    parameters:
      - key: header
        value: "x-never=1"
  Gen:
    processor: GenerateResponse
    parameters:
      - key: status
        value: 418
      - key: body
        value: "S%d"
flow:
  request:
    - from:
        stream:
          name: globalStream
          at: start
      to:
        processor:
          name: Flt
    - from:
        processor:
          name: Flt
          condition: miss
      to:
        processor:
          name: Gen
    - from:
        processor:
          name: Flt
          condition: hit
      to:
        stream:
          name: globalStream
          at: end
  response:
    - from:
        processor:
          name: Gen
      to:
        stream:
          name: globalStream
          at: end
    - from:
        stream:
          name: globalStream
          at: start
      to:
        stream:
          name: globalStream
          at: end
`, i, i, i)
}

func quotaYAML(kind string, max int) string {
	if kind == "fixed-tree" {
		// a provider-wide quota with two internal limits: L1 is consulted by the Limiter of the quota flow, L2 by
		// no flow at all - its requests are only counted (by the system flow the gateway builds for it)
		return fmt.Sprintf("quotas:\n  - id: WQ\n    filter:\n      url: \"h.com/*\"\n    strategy:\n      fixed_window:\n        max: 1000000\n        interval: 1\n        interval_unit: hour\n"+
			"internal_limits:\n  - id: L1\n    parent_id: WQ\n    strategy:\n      fixed_window:\n        max: %d\n        interval: 1\n        interval_unit: hour\n"+
			"  - id: L2\n    parent_id: WQ\n    strategy:\n      fixed_window:\n        max: 1000000\n        interval: 1\n        interval_unit: hour\n", max)
	}
	if kind == "concurrent" {
		return fmt.Sprintf("quotas:\n  - id: WQ\n    filter:\n      url: \"h.com/*\"\n    strategy:\n      concurrent:\n        max_request_count: %d\n        request_expiration_sec: 60\n        gc_interval_sec: 30\n", max)
	}
	return fmt.Sprintf("quotas:\n  - id: WQ\n    filter:\n      url: \"h.com/*\"\n    strategy:\n      fixed_window:\n        max: %d\n        interval: 1\n        interval_unit: hour\n", max)
}

type workload struct {
	Quota      string `json:"quota"` // fixed | concurrent
	Max        int    `json:"max"`
	Goroutines int    `json:"goroutines"`
	PerG       int    `json:"transactions_per_goroutine"`
	Metrics    bool   `json:"metric_reader"`
	Reload     bool   `json:"concurrent_reload"`
}

type infraErr struct{ msg string }

func (e infraErr) Error() string { return "VERIF-INFRA: " + e.msg }

func branchExpect(a, b bool) string {
	if a {
		return "A"
	}
	if b {
		return "B"
	}
	return ""
}

func runWorkload(w workload) (overlap bool, err error) {
	clk := vclock.New(time.Unix(1_700_000_000, 0))
	engine.SetClock(clk)
	dir, e := engine.NewDir(scratch)
	if e != nil {
		return false, infraErr{e.Error()}
	}
	defer dir.Remove()
	_ = dir.WriteQuota("q.yaml", quotaYAML(w.Quota, w.Max))
	if w.Quota == "fixed-tree" {
		_ = dir.WriteFlow("q.yaml", strings.Replace(quotaFlow, "value: WQ", "value: L1", 1))
	} else {
		_ = dir.WriteFlow("q.yaml", quotaFlow)
	}
	_ = dir.WriteFlow("b.yaml", branchFlow)
	for i := 1; i <= 3; i++ {
		_ = dir.WriteFlow(fmt.Sprintf("w%d.yaml", i), wildFlow(i))
	}
	for i := 1; i <= 4; i++ {
		_ = dir.WriteFlow(fmt.Sprintf("s%d.yaml", i), specificFlow(i))
	}
	s, e := dir.Load()
	if e != nil {
		return false, infraErr{"configuration rejected: " + e.Error()}
	}
	var wg sync.WaitGroup
	gate := make(chan struct{})
	stop := make(chan struct{})
	var admitted, refused, wrong atomic.Int64
	var inFlight, maxInFlight atomic.Int64
	var firstErr atomic.Value
	for g := 0; g < w.Goroutines; g++ {
		g := g
		wg.Add(1)
		go func() {
			defer wg.Done()
			<-gate
			for i := 0; i < w.PerG; i++ {
				n := inFlight.Add(1)
				for {
					m := maxInFlight.Load()
					if n <= m || maxInFlight.CompareAndSwap(m, n) {
						break
					}
				}
				id := fmt.Sprintf("g%d-%d", g, i)
				if (g+i)%3 == 2 {
					// a specific-URL flow next to the wildcard flows: the answer must be this URL's own
					k := 1 + (g+2*i)%4
					res := engine.RunRequest(s, engine.Txn{ID: id, Method: "GET", URL: fmt.Sprintf("h.com/s%d", k), Path: fmt.Sprintf("/s%d", k), Headers: map[string]string{"host": "h.com"}})
					if res.Err != nil {
						firstErr.CompareAndSwap(nil, res.Err.Error())
					} else if res.Early == nil || res.Early.Body != fmt.Sprintf("S%d", k) {
						wrong.Add(1)
					}
				} else if (g+i)%2 == 0 {
					// quota flow
					res := engine.RunRequest(s, engine.Txn{ID: id, Method: "GET", URL: "h.com/q", Path: "/q", Headers: map[string]string{"host": "h.com"}})
					if res.Err != nil {
						firstErr.CompareAndSwap(nil, res.Err.Error())
					} else if res.Early != nil {
						refused.Add(1)
					} else {
						admitted.Add(1)
						if w.Quota == "concurrent" {
							r2 := engine.RunResponse(s, engine.Txn{ID: id, Method: "GET", URL: "h.com/q", Headers: map[string]string{}, Status: 200})
							if r2.Err != nil {
								firstErr.CompareAndSwap(nil, r2.Err.Error())
							}
						}
					}
				} else {
					// branching flow: the actions must be a function of this transaction's headers alone
					a, b := g%2 == 0, i%3 == 0
					h := map[string]string{"host": "h.com"}
					if a {
						h["x-a"] = "1"
					}
					if b {
						h["x-b"] = "1"
					}
					res := engine.RunRequest(s, engine.Txn{ID: id, Method: "GET", URL: "h.com/b", Path: "/b", Headers: h})
					got := ""
					if res.Err != nil {
						firstErr.CompareAndSwap(nil, res.Err.Error())
					} else if res.Early != nil {
						got = res.Early.Body
					}
					if got != branchExpect(a, b) {
						wrong.Add(1)
					}
					if got == "" {
						r2 := engine.RunResponse(s, engine.Txn{ID: id, Method: "GET", URL: "h.com/b", Headers: map[string]string{"x-r": "1"}, Status: 200})
						if r2.Err != nil {
							firstErr.CompareAndSwap(nil, r2.Err.Error())
						}
					}
				}
				inFlight.Add(-1)
			}
		}()
	}
	var bg sync.WaitGroup
	if w.Metrics {
		bg.Add(1)
		go func() {
			defer bg.Done()
			<-gate
			for {
				select {
				case <-stop:
					return
				default:
				}
				_ = s.GetFlowInvocations()
				_ = s.GetActiveFlows()
				_ = s.GetRequestsThroughFlows()
				_ = s.GetAvgFlowExecutionTime()
				_ = s.GetAvgProcessorExecutionTime()
			}
		}()
	}
	if w.Reload {
		bg.Add(1)
		go func() {
			defer bg.Done()
			<-gate
			for k := 0; k < 2; k++ {
				select {
				case <-stop:
					return
				default:
				}
				if _, err := dir.Load(); err != nil {
					firstErr.CompareAndSwap(nil, "reload: "+err.Error())
				}
			}
		}()
	}
	close(gate)
	wg.Wait()
	close(stop)
	bg.Wait()
	if v := firstErr.Load(); v != nil {
		return maxInFlight.Load() >= 2, fmt.Errorf("ExecuteFlow error under concurrency: %v", v)
	}
	if wrong.Load() > 0 {
		return maxInFlight.Load() >= 2, fmt.Errorf("%d transactions received actions that do not follow from their own headers (state shared between concurrent transactions)", wrong.Load())
	}
	quotaTxns := int64(0)
	for g := 0; g < w.Goroutines; g++ {
		for i := 0; i < w.PerG; i++ {
			if (g+i)%3 != 2 && (g+i)%2 == 0 {
				quotaTxns++
			}
		}
	}
	if w.Quota == "fixed" || w.Quota == "fixed-tree" {
		want := quotaTxns
		if int64(w.Max) < want {
			want = int64(w.Max)
		}
		if admitted.Load() != want {
			return maxInFlight.Load() >= 2, fmt.Errorf("fixed-window quota max=%d, %d concurrent requests at one instant: %d admitted, every serial order admits %d", w.Max, quotaTxns, admitted.Load(), want)
		}
	} else {
		if admitted.Load()+refused.Load() != quotaTxns {
			return maxInFlight.Load() >= 2, fmt.Errorf("lost verdicts: %d+%d != %d", admitted.Load(), refused.Load(), quotaTxns)
		}
		// every admitted transaction got its response: the quota must be free again
		res := engine.RunRequest(s, engine.Txn{ID: "final", Method: "GET", URL: "h.com/q", Path: "/q", Headers: map[string]string{"host": "h.com"}})
		if res.Err != nil || res.Early != nil {
			return maxInFlight.Load() >= 2, fmt.Errorf("concurrency quota max=%d is exhausted after all %d transactions ended (err=%v)", w.Max, quotaTxns, res.Err)
		}
	}
	return maxInFlight.Load() >= 2, nil
}

func TestWorkloads(t *testing.T) {
	r := ev.New(t, "C18")
	rapid.Check(t, func(t *rapid.T) {
		w := workload{
			Quota:      rapid.SampledFrom([]string{"fixed", "concurrent"}).Draw(t, "quota"),
			Max:        rapid.IntRange(1, 12).Draw(t, "max"),
			Goroutines: rapid.IntRange(2, 16).Draw(t, "goroutines"),
			PerG:       rapid.IntRange(1, 12).Draw(t, "per"),
			Metrics:    rapid.Bool().Draw(t, "metrics"),
			Reload:     rapid.Bool().Draw(t, "reload"),
		}
		level := loglevel.Gen().Draw(t, "log level")
		r.Class("log level " + level)
		defer loglevel.SetLevelOnly(level)()
		r.Case()
		r.Class("quota=" + w.Quota)
		overlap, err := runWorkload(w)
		if err != nil {
			if _, infra := err.(infraErr); infra {
				fmt.Println(err.Error())
				t.Fatalf("%v", err)
			}
			functionalTestFailure.Store(true)
			t.Fatalf("%s", r.Fail(w, "%v", err))
		}
		if overlap {
			r.NonTrivial(ev.JSON(w), func() any { return w })
		}
	})
}

// TestLongWorkloads: the same workloads with thousands of transactions inside one quota window (the other unit
// stops at 192), on a quota tree whose second internal limit is only counted: state that a quota keeps per
// transaction is then shared by thousands of transactions, and clearing any of it while its transaction is still
// between two steps of the Limiter shows as a refusal no serial order gives.
func TestLongWorkloads(t *testing.T) {
	r := ev.New(t, "C18")
	rapid.Check(t, func(t *rapid.T) {
		w := workload{
			Quota:      rapid.SampledFrom([]string{"fixed-tree", "fixed-tree", "fixed", "concurrent"}).Draw(t, "quota"),
			Max:        rapid.SampledFrom([]int{5, 1000, 100000}).Draw(t, "max"),
			Goroutines: rapid.IntRange(8, 16).Draw(t, "goroutines"),
			PerG:       rapid.IntRange(150, 400).Draw(t, "per"),
			Metrics:    rapid.Bool().Draw(t, "metrics"),
			Reload:     false,
		}
		r.Case()
		r.Class("quota=" + w.Quota)
		overlap, err := runWorkload(w)
		if err != nil {
			if _, infra := err.(infraErr); infra {
				fmt.Println(err.Error())
				t.Fatalf("%v", err)
			}
			functionalTestFailure.Store(true)
			t.Fatalf("%s", r.Fail(w, "%v", err))
		}
		if overlap {
			r.NonTrivial(ev.JSON(w), func() any { return w })
		}
	})
}

// ---- policy-mode workload: lookups, reloads and the vacuum at the same time --------------------

type okTransport struct{}

func (okTransport) RoundTrip(req *http.Request) (*http.Response, error) {
	return &http.Response{StatusCode: 200, Status: "200 OK", Body: io.NopCloser(strings.NewReader("ok")), Header: http.Header{}, Request: req}, nil
}

type policyWorkload struct {
	Workers int `json:"workers"`
	Lookups int `json:"lookups_per_worker"`
	Reloads int `json:"reloads"`
	Ticks   int `json:"vacuum_ticks"`
}

func markerOf(p *config.PoliciesData) string {
	if p == nil || len(p.Config.Global.Remedies) == 0 {
		return "?"
	}
	return p.Config.Global.Remedies[0].Name
}

func TestPolicyAccessorWorkload(t *testing.T) {
	r := ev.New(t, "C18")
	prev := http.DefaultTransport
	http.DefaultTransport = okTransport{}
	defer func() { http.DefaultTransport = prev }()
	rapid.Check(t, func(t *rapid.T) {
		w := policyWorkload{
			Workers: rapid.IntRange(2, 8).Draw(t, "workers"),
			Lookups: rapid.IntRange(5, 60).Draw(t, "lookups"),
			Reloads: rapid.IntRange(0, 4).Draw(t, "reloads"),
			Ticks:   rapid.IntRange(1, 14).Draw(t, "ticks"),
		}
		r.Case()
		clk := vclock.New(time.Unix(1_700_000_000, 0))
		engine.SetClock(clk)
		mk := func(marker string) *config.PoliciesData {
			cfg := &sharedConfig.PoliciesConfig{}
			cfg.Global.Remedies = []sharedConfig.Remedy{{Name: marker, Enabled: false, Config: sharedConfig.RemedyConfig{FixedResponse: &sharedConfig.FixedResponseConfig{StatusCode: 200}}}}
			pd, err := config.BuildPolicyData(cfg, false)
			if err != nil {
				fmt.Println("VERIF-INFRA: cannot build policy data:", err)
				t.Fatalf("%v", err)
			}
			return pd
		}
		acc := config.NewTxnPoliciesAccessor(mk("v0"))
		var wg sync.WaitGroup
		gate := make(chan struct{})
		stop := make(chan struct{})
		var nilSeen atomic.Int64
		var moved atomic.Value // first "a transaction's later look-up gave other policies" message
		var relooked atomic.Int64
		for g := 0; g < w.Workers; g++ {
			g := g
			wg.Add(1)
			go func() {
				defer wg.Done()
				<-gate
				type open struct {
					id config.TxnID
					p  *config.PoliciesData
					t0 time.Time
				}
				pending := []open{}
				for i := 0; ; i++ {
					if i >= w.Lookups {
						select {
						case <-stop:
							return
						default:
						}
					}
					id := config.TxnID(fmt.Sprintf("w%d-%d", g, i))
					t0 := clk.Now()
					a := acc.GetTxnPoliciesData(id)
					b := acc.GetTxnPoliciesData(id)
					if a == nil || b == nil {
						nilSeen.Add(1)
					}
					pending = append(pending, open{id, a, t0})
					// the response of an earlier transaction of this worker: while its request is less than the
					// 30 s retention ago (measured generously: clock read after the look-up), it is handled with
					// the policies its request was handled with
					o := pending[(i*7)%len(pending)]
					c := acc.GetTxnPoliciesData(o.id)
					if age := clk.Now().Sub(o.t0); age < 30*time.Second {
						relooked.Add(1)
						if c != o.p {
							moved.CompareAndSwap(nil, fmt.Sprintf("transaction %s: its later look-up, at most %v after its first one, gave other policies (%s instead of %s)", o.id, age, markerOf(c), markerOf(o.p)))
						}
					}
					if len(pending) > 256 {
						pending = pending[128:]
					}
					if i%8 == 7 {
						runtime.Gosched()
					}
				}
			}()
		}
		close(gate)
		// the swaps are spread over the ticks (a swap, then 5 s pass, ...), while the look-ups go on
		done := 0
		for k := 0; k < w.Ticks; k++ {
			if done < w.Reloads && (w.Ticks-k <= w.Reloads-done || k%2 == 0) {
				done++
				if err := acc.UpdatePoliciesData(mk(fmt.Sprintf("v%d", done)), false); err != nil {
					nilSeen.Add(1)
				}
			}
			clk.Advance(5 * time.Second) // fires the vacuum's Sleep timers while lookups are running
			time.Sleep(200 * time.Microsecond)
		}
		for done < w.Reloads {
			done++
			if err := acc.UpdatePoliciesData(mk(fmt.Sprintf("v%d", done)), false); err != nil {
				nilSeen.Add(1)
			}
		}
		close(stop)
		wg.Wait()
		clk.Advance(40 * time.Second)
		if nilSeen.Load() > 0 {
			functionalTestFailure.Store(true)
			t.Fatalf("%s", r.Fail(w, "%d lookups/reloads failed or returned no policies under concurrency", nilSeen.Load()))
		}
		if m := moved.Load(); m != nil {
			functionalTestFailure.Store(true)
			t.Fatalf("%s", r.Fail(w, "%v", m))
		}
		r.ClassN("later look-ups inside the retention", relooked.Load())
		r.NonTrivial(ev.JSON(w), func() any { return w })
	})
}
