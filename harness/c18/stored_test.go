package c18

// Unit TestStoredRequestsOfOverlappingTransactions: the request of a transaction that is kept for its response
// side (full-request messages: routing.processRequest stores the request when the request side is done,
// processResponse loads it again and discards it) belongs to that transaction alone. 2-6 transactions of a flow
// whose response path exports every transaction (HARCollector, which reads the stored request) send their request
// and response sides in a generated interleaving - the requests of several transactions are stored while none of
// them has been answered yet; bodies and URLs of equal and of different lengths. Every response side must export
// exactly one record, and the request in it - URL and body - is the transaction's own. No concurrency is needed:
// the sides run one after the other (the race detector watches all the same).

import (
	"bytes"
	"encoding/json"
	"fmt"
	"strings"
	"sync"
	"testing"
	"time"

	"lunar/engine/formats/har"
	lunarmessages "lunar/engine/messages"
	streamtypes "lunar/engine/streams/types"
	contextmanager "lunar/toolkit-core/context-manager"

	"pgregory.net/rapid"

	"verif/harness/internal/engine"
	"verif/harness/internal/ev"
	"verif/harness/internal/loglevel"
)

const storedFlow = `name: harflow
filter:
  url: h.com/*
processors:
  Collector:
    processor: HARCollector
    parameters:
      - key: exporter_id
        value: har_exporter
flow:
  request:
    - from:
        stream:
          name: globalStream
          at: start
      to:
        stream:
          name: globalStream
          at: end
  response:
    - from:
        stream:
          name: globalStream
          at: start
      to:
        processor:
          name: Collector
    - from:
        processor:
          name: Collector
      to:
        stream:
          name: globalStream
          at: end
`

type exportCapture struct {
	mu   sync.Mutex
	recs [][]byte
}

func (c *exportCapture) Write(b []byte) (int, error) {
	c.mu.Lock()
	c.recs = append(c.recs, append([]byte(nil), b...))
	c.mu.Unlock()
	return len(b), nil
}
func (c *exportCapture) Close() error { return nil }
func (c *exportCapture) take() [][]byte {
	c.mu.Lock()
	defer c.mu.Unlock()
	out := c.recs
	c.recs = nil
	return out
}

type storedTxn struct {
	Path string `json:"path"`
	Body string `json:"body"`
}

type storedCase struct {
	Txns []storedTxn `json:"transactions"`
	// Order: +i = request side of transaction i-1, -i = its response side
	Order []int `json:"order"`
}

var storedBodies = []string{`{"k":"aaaa"}`, `{"k":"bbbb"}`, `{"k":"cc"}`, `{"key":"a much longer body than the others, to be sure"}`, `{}`, `{"k":"dddd"}`}
var storedPaths = []string{"/a", "/b", "/c", "/items/1", "/items/2", "/a"}

func TestStoredRequestsOfOverlappingTransactions(t *testing.T) {
	r := ev.New(t, "C18")
	cap := &exportCapture{}
	contextmanager.Get().WithFileExporter(cap)
	dir, err := engine.NewDir(scratch)
	if err != nil {
		fmt.Println("VERIF-INFRA:", err)
		t.Fatalf("infrastructure")
	}
	defer dir.Remove()
	_ = dir.WriteFlow("har.yaml", storedFlow)
	s, lerr := dir.Load()
	if lerr != nil {
		fmt.Println("VERIF-INFRA: the HARCollector flow was rejected:", lerr)
		t.Fatalf("infrastructure")
	}
	serial := 0
	rapid.Check(t, func(t *rapid.T) {
		n := rapid.IntRange(2, 6).Draw(t, "n")
		c := storedCase{}
		for i := 0; i < n; i++ {
			c.Txns = append(c.Txns, storedTxn{Path: rapid.SampledFrom(storedPaths).Draw(t, "path"), Body: rapid.SampledFrom(storedBodies).Draw(t, "body")})
		}
		// an interleaving in which every transaction's request side comes before its response side
		pendingReq, open := []int{}, []int{}
		for i := 0; i < n; i++ {
			pendingReq = append(pendingReq, i)
		}
		for len(pendingReq) > 0 || len(open) > 0 {
			if len(pendingReq) > 0 && (len(open) == 0 || rapid.IntRange(0, 2).Draw(t, "next") > 0) {
				i := pendingReq[0]
				pendingReq = pendingReq[1:]
				open = append(open, i)
				c.Order = append(c.Order, i+1)
			} else {
				k := rapid.IntRange(0, len(open)-1).Draw(t, "answer")
				c.Order = append(c.Order, -(open[k] + 1))
				open = append(open[:k], open[k+1:]...)
			}
		}
		level := loglevel.Gen().Draw(t, "log level")
		r.Class("log level " + level)
		defer loglevel.SetLevelOnly(level)()
		r.Case()
		serial++
		overlap, inFlight := false, 0
		now := time.Now()
		cap.take()
		for step, o := range c.Order {
			i := o
			if i < 0 {
				i = -i
			}
			i--
			tx := c.Txns[i]
			id := fmt.Sprintf("s%d-t%d", serial, i)
			if o > 0 {
				inFlight++
				overlap = overlap || inFlight >= 2
				req := streamtypes.NewRequestAPIStream(lunarmessages.OnRequest{LunarName: lunarmessages.LunarFullRequest, ID: id, SequenceID: id, Method: "POST",
					Scheme: "https", URL: "h.com" + tx.Path, Path: tx.Path, Headers: map[string]string{"host": "h.com", "content-type": "application/json"},
					RawBody: []byte(tx.Body), Time: now}, engine.SharedState)
				_ = engine.Run(s, req)
				req.StoreRequest()
				continue
			}
			inFlight--
			resp := streamtypes.NewResponseAPIStream(lunarmessages.OnResponse{LunarName: lunarmessages.LunarFullResponse, ID: id, SequenceID: id, Method: "POST",
				URL: "h.com" + tx.Path, Status: 200, Headers: map[string]string{"content-type": "application/json"}, RawBody: []byte(`{"ok":true}`), Time: now}, engine.SharedState)
			res := engine.Run(s, resp)
			resp.DiscardRequest()
			recs := cap.take()
			fail := func(format string, a ...any) {
				functionalTestFailure.Store(true)
				t.Fatalf("%s", r.Fail(c, "step %d (response side of transaction %d, %s h.com%s): %s", step, i, "POST", tx.Path, fmt.Sprintf(format, a...)))
			}
			if res.Err != nil {
				fail("the flow failed: %v", res.Err)
			}
			if len(recs) != 1 {
				fail("%d records were exported for one transaction", len(recs))
			}
			rec := recs[0]
			if k := bytes.IndexByte(rec, ' '); k >= 0 {
				rec = rec[k+1:]
			}
			var h har.HAR
			if err := json.Unmarshal(rec, &h); err != nil || len(h.Log.Entries) != 1 {
				fail("the exported record is not a HAR document with one entry: %v: %.200q", err, rec)
			}
			rq := h.Log.Entries[0].Request
			body, _ := rq.Body.(string)
			if !strings.Contains(rq.URL, "h.com"+tx.Path) || body != tx.Body {
				fail("the exported record carries the request %q with body %q; this transaction sent %q with body %q - the request kept for it was replaced while it was in flight",
					rq.URL, body, "h.com"+tx.Path, tx.Body)
			}
		}
		if overlap {
			r.Class("two or more stored requests at the same time")
			r.NonTrivial(ev.JSON(c), func() any { return c })
		}
	})
}
