package c18

// Unit TestVacuumKeepsEveryRegistration: toolkit-core's MapVacuum removes per-transaction state (policy version
// pins, concurrency slots) from a shared map a time-to-live after a transaction registered it, in a background
// pass - while other transactions keep registering. Generated schedules of registrations and clock advances,
// including registrations that land INSIDE a running pass (the pass reads the clock between taking its snapshot of
// the list and shortening it; the harness clock uses that call to let a "transaction" register a key right
// there). Oracle: a key is never removed before its time-to-live has passed, and once time-to-live plus two
// ticks have passed it is gone - no registration is ever lost by a pass.

import (
	"fmt"
	"runtime"
	"strings"
	"sync"
	"sync/atomic"
	"testing"
	"time"

	"lunar/toolkit-core/vacuum"

	"pgregory.net/rapid"

	"verif/harness/internal/ev"
	"verif/harness/internal/vclock"
)

// passClock forwards to the virtual clock; when the vacuum pass asks for the time and a registration is armed,
// the registration happens right there (no lock of the vacuum is held at that point).
type passClock struct {
	*vclock.Clock
	mu    sync.Mutex
	armed func()
	dead  atomic.Bool // the case is over: the background loop ends itself at its next Sleep
}

func (c *passClock) Sleep(d time.Duration) {
	if c.dead.Load() {
		runtime.Goexit()
	}
	c.Clock.Sleep(d)
	if c.dead.Load() {
		runtime.Goexit()
	}
}

func calledFromPass() bool {
	pc := make([]uintptr, 12)
	n := runtime.Callers(2, pc)
	frames := runtime.CallersFrames(pc[:n])
	for {
		f, more := frames.Next()
		if strings.HasSuffix(f.Function, ".vacuum") && strings.Contains(f.Function, "MapVacuum") {
			return true
		}
		if !more {
			return false
		}
	}
}

func (c *passClock) Now() time.Time {
	if calledFromPass() {
		c.mu.Lock()
		f := c.armed
		c.armed = nil
		c.mu.Unlock()
		if f != nil {
			f()
		}
	}
	return c.Clock.Now()
}

type vacStep struct {
	Op  string `json:"op"` // reg | reg-many (Key = how many) | adv | reg-in-pass
	Ms  int    `json:"ms,omitempty"`
	Key int    `json:"key,omitempty"`
}

func TestVacuumKeepsEveryRegistration(t *testing.T) {
	r := ev.New(t, "C18")
	rapid.Check(t, func(t *rapid.T) {
		ttlMs := rapid.SampledFrom([]int{1000, 3000}).Draw(t, "ttl")
		tickMs := rapid.SampledFrom([]int{500, 1000}).Draw(t, "tick")
		steps := rapid.SliceOfN(rapid.Custom(func(t *rapid.T) vacStep {
			switch rapid.IntRange(0, 9).Draw(t, "op") {
			case 0, 1, 2:
				return vacStep{Op: "reg"}
			case 3:
				if rapid.IntRange(0, 2).Draw(t, "many") == 0 {
					// a wave of transactions: hundreds of entries wait for the same pass
					return vacStep{Op: "reg-many", Key: rapid.SampledFrom([]int{60, 127, 128, 129, 200, 520}).Draw(t, "n")}
				}
				return vacStep{Op: "reg"}
			case 4, 5:
				return vacStep{Op: "reg-in-pass"}
			default:
				return vacStep{Op: "adv", Ms: rapid.SampledFrom([]int{1, 100, 499, 500, 501, 1000, 1001, 2999, 3000, 3001}).Draw(t, "ms")}
			}
		}), 3, 30).Draw(t, "steps")
		r.Case()
		base := vclock.New(time.Unix(1_700_000_000, 0))
		clk := &passClock{Clock: base}
		m := map[int]time.Time{} // key -> registration instant
		var mu sync.RWMutex
		vac := vacuum.NewMapVacuum("verif", clk, time.Duration(ttlMs)*time.Millisecond, time.Duration(tickMs)*time.Millisecond, m, &mu)
		next := 0
		registered := map[int]time.Time{}
		register := func() {
			// what a transaction does (e.g. concurrency.Limiter.TryTakeSlot): the map entry and its vacuum
			// registration under the map's lock
			mu.Lock()
			next++
			now := base.Now()
			m[next] = now
			vac.VacuumKey(next)
			registered[next] = now
			mu.Unlock()
		}
		var inPass atomic.Int64
		judge := func(when string) string {
			now := base.Now()
			mu.RLock()
			defer mu.RUnlock()
			for k, at := range registered {
				_, present := m[k]
				age := now.Sub(at)
				switch {
				case !present && age < time.Duration(ttlMs)*time.Millisecond:
					return fmt.Sprintf("%s: the entry of key %d was removed %v after its registration, its time-to-live is %d ms", when, k, age, ttlMs)
				case present && age > time.Duration(ttlMs+2*tickMs+1)*time.Millisecond:
					return fmt.Sprintf("%s: the entry of key %d is still in the map %v after its registration (time-to-live %d ms, pass every %d ms): its registration was lost", when, k, age, ttlMs, tickMs)
				}
			}
			return ""
		}
		fail := func(msg string) {
			t.Fatalf("%s", r.Fail(map[string]any{"ttl_ms": ttlMs, "tick_ms": tickMs, "steps": steps}, "%s", msg))
		}
		advance := func(d time.Duration) {
			if _, err := base.AdvanceSettle(d, "vacuumInBackground"); err != nil {
				fmt.Println("VERIF-INFRA:", err)
				t.Fatalf("infrastructure")
			}
		}
		started := false
		for i, st := range steps {
			switch st.Op {
			case "reg", "reg-many":
				register()
				for j := 1; j < st.Key; j++ {
					register()
				}
				if st.Key >= 128 {
					r.Class("a wave of >=128 registrations")
				}
				if !started {
					// the first registration starts the background loop: wait until it has armed its first timer
					started = true
					if err := base.WaitRegistrations("vacuumInBackground", 1); err != nil {
						fmt.Println("VERIF-INFRA:", err)
						t.Fatalf("infrastructure")
					}
				}
			case "reg-in-pass":
				if !started {
					continue // no pass can run before the first registration
				}
				clk.mu.Lock()
				clk.armed = func() { inPass.Add(1); register() }
				clk.mu.Unlock()
			case "adv":
				advance(time.Duration(st.Ms) * time.Millisecond)
			}
			if msg := judge(fmt.Sprintf("after step %d (%s)", i, st.Op)); msg != "" {
				fail(msg)
			}
		}
		// the end: nothing is registered any more; after time-to-live plus passes the map must be empty
		clk.mu.Lock()
		clk.armed = nil
		clk.mu.Unlock()
		for i := 0; i < 4; i++ {
			advance(time.Duration(ttlMs+tickMs) * time.Millisecond)
		}
		if msg := judge("at the end"); msg != "" {
			fail(msg)
		}
		if inPass.Load() > 0 {
			r.Class("a registration landed inside a running pass")
			r.NonTrivial(ev.JSON(steps), func() any { return map[string]any{"ttl_ms": ttlMs, "tick_ms": tickMs, "steps": steps} })
		}
		// end the background goroutine of this case
		clk.dead.Store(true)
		base.Advance(1000 * time.Hour)
	})
}
