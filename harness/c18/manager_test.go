package c18

// Workload 3: transactions through routing.Handler while the configuration is reloaded
// through the admin handler (POST /load_flows), as the running gateway does.

import (
	"fmt"
	"io"
	"net"
	"net/http"
	"net/http/httptest"
	"os"
	"path/filepath"
	"strings"
	"sync"
	"sync/atomic"
	"testing"
	"time"

	"lunar/engine/routing"
	"lunar/toolkit-core/clock"
	contextmanager "lunar/toolkit-core/context-manager"
	"lunar/toolkit-core/logging"

	spoe "github.com/negasus/haproxy-spoe-go/action"
	"github.com/negasus/haproxy-spoe-go/message"
	"github.com/negasus/haproxy-spoe-go/payload/kv"
	"github.com/negasus/haproxy-spoe-go/request"
	"github.com/rs/zerolog"
	"pgregory.net/rapid"

	"verif/harness/internal/engine"
	"verif/harness/internal/ev"
)

var (
	mgrOnce    sync.Once
	mgrErr     error
	mgrRoot    string
	mgrMux     *http.ServeMux
	mgrHandler routing.MessageHandler
)

func mgrFlow(name, url, marker string) string {
	return fmt.Sprintf(`name: %s
filter:
  url: "%s"
processors:
  Flt:
    processor: Filter
    parameters:
      - key: header
        value: "x-pass=1"
  Gen:
    processor: GenerateResponse
    parameters:
      - key: status
        value: 418
      - key: body
        value: "%s"
flow:
  request:
    - from:
        stream:
          name: globalStream
          at: start
      to:
        processor:
          name: Flt
    - from:
        processor:
          name: Flt
          condition: miss
      to:
        processor:
          name: Gen
    - from:
        processor:
          name: Flt
          condition: hit
      to:
        stream:
          name: globalStream
          at: end
  response:
    - from:
        processor:
          name: Gen
      to:
        stream:
          name: globalStream
          at: end
    - from:
        stream:
          name: globalStream
          at: start
      to:
        stream:
          name: globalStream
          at: end
`, name, url, marker)
}

func setupManager() {
	mgrOnce.Do(func() {
		d, err := os.MkdirTemp(scratch, "mgr-")
		if err != nil {
			mgrErr = err
			return
		}
		mgrRoot = d
		for _, sub := range []string{"flows", "quotas", "path_params", "state"} {
			os.MkdirAll(filepath.Join(d, sub), 0o755)
		}
		metrics, _ := os.ReadFile(filepath.Join(engine.Repo(), "proxy/metrics.yaml"))
		os.WriteFile(filepath.Join(d, "metrics_default.yaml"), metrics, 0o644)
		for k, v := range map[string]string{
			"LUNAR_STREAMS_ENABLED":              "true",
			"TENANT_NAME":                        "verif",
			"LUNAR_PROXY_FLOW_DIRECTORY":         filepath.Join(d, "flows"),
			"LUNAR_PROXY_QUOTAS_DIRECTORY":       filepath.Join(d, "quotas"),
			"LUNAR_FLOWS_PATH_PARAM_DIR":         filepath.Join(d, "path_params"),
			"LUNAR_PROXY_CONFIG":                 filepath.Join(d, "gateway_config.yaml"),
			"LUNAR_PROXY_METRICS_CONFIG":         filepath.Join(d, "metrics_user.yaml"),
			"LUNAR_PROXY_METRICS_CONFIG_DEFAULT": filepath.Join(d, "metrics_default.yaml"),
			"DISCOVERY_STATE_LOCATION":           filepath.Join(d, "state", "discovery.json"),
			"REMEDY_STATE_LOCATION":              filepath.Join(d, "state", "remedy.json"),
			"LUNAR_FLOWS_PATH_PARAM_CONFIG":      filepath.Join(d, "state", "path_param_conf.yaml"),
		} {
			os.Setenv(k, v)
		}
		os.WriteFile(filepath.Join(d, "flows", "f0.yaml"), []byte(mgrFlow("f0", "h.com/f0", "m0")), 0o644)
		http.DefaultTransport = okTransport{}
		if ln, err := net.Listen("tcp", "127.0.0.1:5140"); err == nil {
			go func() {
				for {
					c, err := ln.Accept()
					if err != nil {
						return
					}
					go io.Copy(io.Discard, c)
				}
			}()
		}
		mgrErr = func() (err error) {
			defer func() {
				if r := recover(); r != nil {
					err = fmt.Errorf("panic in manager setup: %v", r)
				}
			}()
			contextmanager.Get().SetClockForVerif(clock.NewRealClock())
			tw := logging.ConfigureLogger("lunar-engine", false, contextmanager.Get().GetClock())
			if os.Getenv("VERIF_LOG") == "" {
				zerolog.SetGlobalLevel(zerolog.Disabled)
			}
			data := routing.NewHandlingDataManager(10*time.Second, nil)
			if err := data.Setup(tw); err != nil {
				return err
			}
			mgrMux = http.NewServeMux()
			data.SetHandleRoutes(mgrMux)
			mgrHandler = routing.Handler(data)
			return nil
		}()
	})
}

var mgrSeq atomic.Int64

func mgrProbe(url string) (string, error) {
	id := fmt.Sprintf("m%d", mgrSeq.Add(1))
	k := kv.NewKV()
	k.Add("id", id)
	k.Add("sequence_id", id)
	k.Add("method", "GET")
	k.Add("scheme", "https")
	k.Add("url", url)
	k.Add("path", url[strings.Index(url, "/"):])
	k.Add("query", "")
	k.Add("headers", "host: h.com\r\n\r\n") // the proxy's req.hdrs dump: CRLF-terminated lines and the closing empty line
	k.Add("body", []byte(""))
	msgs := message.Messages{&message.Message{Name: "lunar-on-request", KV: k}}
	req := &request.Request{Messages: &msgs}
	mgrHandler(req)
	for _, a := range req.Actions {
		if a.Type == spoe.TypeSetVar && a.Name == "response_body" {
			if b, ok := a.Value.([]byte); ok {
				return string(b), nil
			}
		}
	}
	return "", nil
}

type mgrWorkload struct {
	Workers int `json:"workers"`
	Probes  int `json:"probes_per_worker"`
	Reloads int `json:"reloads"`
}

func TestManagerReloadWorkload(t *testing.T) {
	setupManager()
	if mgrErr != nil {
		fmt.Println("VERIF-INFRA: manager setup failed:", mgrErr)
		t.Fatalf("%v", mgrErr)
	}
	r := ev.New(t, "C18")
	rapid.Check(t, func(t *rapid.T) {
		w := mgrWorkload{Workers: rapid.IntRange(2, 8).Draw(t, "workers"), Probes: rapid.IntRange(5, 40).Draw(t, "probes"), Reloads: rapid.IntRange(1, 4).Draw(t, "reloads")}
		r.Case()
		var wg sync.WaitGroup
		gate := make(chan struct{})
		var wrong atomic.Int64
		var sample atomic.Value
		for g := 0; g < w.Workers; g++ {
			wg.Add(1)
			go func() {
				defer wg.Done()
				<-gate
				for i := 0; i < w.Probes; i++ {
					m, err := mgrProbe("h.com/f0")
					// every version of the configuration answers h.com/f0 with a marker m<k>
					if err != nil || !strings.HasPrefix(m, "m") {
						wrong.Add(1)
						sample.Store(fmt.Sprintf("%q %v", m, err))
					}
				}
			}()
		}
		close(gate)
		for k := 0; k < w.Reloads; k++ {
			os.WriteFile(filepath.Join(mgrRoot, "flows", "f0.yaml"), []byte(mgrFlow("f0", "h.com/f0", fmt.Sprintf("m%d", k+1))), 0o644)
			rr := httptest.NewRecorder()
			mgrMux.ServeHTTP(rr, httptest.NewRequest(http.MethodPost, "/load_flows", nil))
			if rr.Code != 200 {
				fmt.Println("VERIF-INFRA: reload failed:", rr.Code, rr.Body.String())
				t.Fatalf("reload failed")
			}
		}
		wg.Wait()
		if wrong.Load() > 0 {
			functionalTestFailure.Store(true)
			t.Fatalf("%s", r.Fail(w, "%d transactions handled during a reload were not answered by any version of the flow (e.g. %v)", wrong.Load(), sample.Load()))
		}
		r.NonTrivial(ev.JSON(w), func() any { return w })
	})
}
