package c18

// Unit TestLimiterHeldBetweenSteps: the Limiter asks its quota in two separately locked steps (count the request,
// then read the verdict). The free-running workloads hit the gap between the two only by luck; here the harness
// owns it: generated schedules hold chosen transactions exactly there (yield point
// "limiter.between-inc-and-allowed") while other transactions - of the same Limiter, or requests that the quota
// tree only counts - run from start to end, after a history of up to a few thousand counted transactions inside
// the same quota window whose responses are still to come (requests in flight at the provider). Oracle (serialisability): however the transactions interleave, the verdicts are those of
// some one-at-a-time order, i.e. exactly min(n, max) of the n Limiter transactions are admitted; nobody is
// refused while the limit is not reached.

import (
	"fmt"
	"strings"
	"sync"
	"testing"
	"time"

	"lunar/toolkit-core/verifhook"

	"pgregory.net/rapid"

	"verif/harness/internal/engine"
	"verif/harness/internal/ev"
	"verif/harness/internal/vclock"
)

type heldStep struct {
	Op  string `json:"op"`            // start (run until the gap, stay there) | run (start to end) | count (a counted-only request) | release
	Txn int    `json:"txn,omitempty"` // start/release: which held transaction
	N   int    `json:"n,omitempty"`   // count: how many
}

type heldCase struct {
	Quota   string     `json:"quota"` // fixed | fixed-tree
	Max     int        `json:"max"`
	Counted int        `json:"counted_before"`
	Steps   []heldStep `json:"steps"`
}

func TestLimiterHeldBetweenSteps(t *testing.T) {
	if !verifhook.Enabled {
		fmt.Println("VERIF-INFRA: harness built without the verif tag")
		t.Fatalf("no hooks")
	}
	r := ev.New(t, "C18")
	rapid.Check(t, func(t *rapid.T) {
		c := heldCase{
			Quota:   rapid.SampledFrom([]string{"fixed-tree", "fixed-tree", "fixed"}).Draw(t, "quota"),
			Max:     rapid.SampledFrom([]int{1, 2, 3, 5, 1000}).Draw(t, "max"),
			Counted: rapid.SampledFrom([]int{0, 0, 7, 300, 1021, 1022, 1023, 1024, 1500, 2047, 2100, 4200}).Draw(t, "counted"),
		}
		nHeld := 0
		open := []int{}
		n := rapid.IntRange(2, 10).Draw(t, "steps")
		for i := 0; i < n; i++ {
			switch k := rapid.IntRange(0, 9).Draw(t, "op"); {
			case k < 3 && len(open) < 4:
				c.Steps = append(c.Steps, heldStep{Op: "start", Txn: nHeld})
				open = append(open, nHeld)
				nHeld++
			case k < 6:
				c.Steps = append(c.Steps, heldStep{Op: "run"})
			case k < 7:
				c.Steps = append(c.Steps, heldStep{Op: "count", N: rapid.SampledFrom([]int{1, 2, 30, 1023, 1024}).Draw(t, "n")})
			case len(open) > 0:
				j := rapid.IntRange(0, len(open)-1).Draw(t, "which")
				c.Steps = append(c.Steps, heldStep{Op: "release", Txn: open[j]})
				open = append(open[:j], open[j+1:]...)
			default:
				c.Steps = append(c.Steps, heldStep{Op: "run"})
			}
		}
		for _, h := range open {
			c.Steps = append(c.Steps, heldStep{Op: "release", Txn: h})
		}
		r.Case()
		r.Class("quota=" + c.Quota)

		clk := vclock.New(time.Unix(1_700_000_000, 0))
		engine.SetClock(clk)
		dir, e := engine.NewDir(scratch)
		if e != nil {
			fmt.Println("VERIF-INFRA:", e)
			t.Fatalf("infrastructure")
		}
		defer dir.Remove()
		_ = dir.WriteQuota("q.yaml", quotaYAML(c.Quota, c.Max))
		if c.Quota == "fixed-tree" {
			_ = dir.WriteFlow("q.yaml", strings.Replace(quotaFlow, "value: WQ", "value: L1", 1))
		} else {
			_ = dir.WriteFlow("q.yaml", quotaFlow)
		}
		_ = dir.WriteFlow("b.yaml", branchFlow)
		s, e := dir.Load()
		if e != nil {
			fmt.Println("VERIF-INFRA: configuration rejected:", e)
			t.Fatalf("infrastructure")
		}

		var mu sync.Mutex
		hold := map[string]chan struct{}{}    // id -> closed to let the transaction go on
		reached := map[string]chan struct{}{} // id -> closed when the transaction is in the gap
		verifhook.SetYield(func(point, id string) {
			if point != "limiter.between-inc-and-allowed" {
				return
			}
			mu.Lock()
			h, at := hold[id], reached[id]
			mu.Unlock()
			if h == nil {
				return
			}
			close(at)
			<-h
		})
		defer verifhook.SetYield(nil)

		seq := 0
		// a request that the quota tree only counts (no Limiter on its way); it stays in flight: no response yet
		counted := func(k int) {
			for i := 0; i < k; i++ {
				seq++
				res := engine.RunRequest(s, engine.Txn{ID: fmt.Sprintf("c%d", seq), Method: "GET", URL: "h.com/b", Path: "/b", Headers: map[string]string{"host": "h.com"}})
				if res.Err != nil {
					t.Fatalf("%s", r.Fail(c, "a counted-only request failed: %v", res.Err))
				}
			}
		}
		limiterTxn := func(id string) (admitted bool, err error) {
			res := engine.RunRequest(s, engine.Txn{ID: id, Method: "GET", URL: "h.com/q", Path: "/q", Headers: map[string]string{"host": "h.com"}})
			return res.Early == nil, res.Err
		}
		counted(c.Counted)
		type verdict struct {
			id       string
			admitted bool
			err      error
		}
		results := make(chan verdict, 64)
		total, admitted := 0, 0
		overlapped := false
		refusedIDs := []string{}
		inGap := 0
		note := func(v verdict) {
			if v.err != nil {
				t.Fatalf("%s", r.Fail(c, "transaction %s failed: %v", v.id, v.err))
			}
			total++
			if v.admitted {
				admitted++
			} else {
				refusedIDs = append(refusedIDs, v.id)
			}
		}
		for _, st := range c.Steps {
			switch st.Op {
			case "start":
				id := fmt.Sprintf("held%d", st.Txn)
				mu.Lock()
				hold[id], reached[id] = make(chan struct{}), make(chan struct{})
				at := reached[id]
				mu.Unlock()
				go func() {
					ok, err := limiterTxn(id)
					results <- verdict{id, ok, err}
				}()
				select {
				case <-at:
					inGap++
				case <-time.After(20 * time.Second):
					fmt.Println("VERIF-INFRA: a transaction never reached the Limiter's second step")
					t.Fatalf("infrastructure")
				}
			case "run":
				seq++
				ok, err := limiterTxn(fmt.Sprintf("r%d", seq))
				note(verdict{fmt.Sprintf("r%d", seq), ok, err})
				overlapped = overlapped || inGap > 0
			case "count":
				counted(st.N)
				overlapped = overlapped || inGap > 0
			case "release":
				id := fmt.Sprintf("held%d", st.Txn)
				mu.Lock()
				h := hold[id]
				mu.Unlock()
				close(h)
				inGap--
				select {
				case v := <-results:
					note(v)
				case <-time.After(20 * time.Second):
					fmt.Println("VERIF-INFRA: a released transaction never ended")
					t.Fatalf("infrastructure")
				}
			}
		}
		want := total
		if c.Max < want {
			want = c.Max
		}
		if admitted != want {
			t.Fatalf("%s", r.Fail(c, "%d Limiter transactions on a quota of %d per hour (after %d counted-only requests in the same window): %d admitted, every one-at-a-time order admits %d (refused: %v)",
				total, c.Max, c.Counted, admitted, want, refusedIDs))
		}
		if overlapped {
			r.Class("another transaction ran while one was between the two steps")
			r.NonTrivial(ev.JSON(c), func() any { return c })
		}
	})
}
