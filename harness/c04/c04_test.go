// C04 — flow execution follows the configured processor graph.
package c04

import (
	"fmt"
	"os"
	"strings"
	"testing"

	"pgregory.net/rapid"

	"verif/harness/internal/engine"
	"verif/harness/internal/ev"
	fg "verif/harness/internal/flowgen"
)

// ---- generated case ---------------------------------------------------------------

type tcase struct {
	Flow      fg.Flow           `json:"flow"`
	Quotas    []string          `json:"quotas,omitempty"` // "fixed" | "concurrent" quotas on the same URL (system flows)
	ReqHdr    map[string]string `json:"request_headers"`
	RespHdr   map[string]string `json:"response_headers"`
	FanOut    bool              `json:"fan_out"`
	Rootless  bool              `json:"rootless_response"`
	GNoRespEd bool              `json:"answering_node_without_response_connection,omitempty"`
	// LogLevel: the gateway's log level while the flows are built and run ("" = logging off); the output is discarded
	LogLevel string `json:"log_level,omitempty"`
}

func kindOf(f fg.Flow, key string) fg.Proc {
	for _, p := range f.Procs {
		if p.Key == key {
			return p
		}
	}
	return fg.Proc{}
}

func genCase() *rapid.Generator[tcase] {
	return rapid.Custom(func(t *rapid.T) tcase {
		c := tcase{LogLevel: rapid.SampledFrom([]string{"", "", "", "error", "debug", "trace", "trace"}).Draw(t, "log-level")}
		f := fg.Flow{Name: "uflow", URL: "h.com/g"}
		if rapid.IntRange(0, 2).Draw(t, "status-filter") == 0 {
			// the flow's filter lists status codes (the provider's 200 is one of them): a request the flow answers
			// itself has no provider response, and its response path must be walked all the same
			f.FilterExtra = "  status_code: [200, 201, 418]\n"
		}
		n := rapid.IntRange(1, 5).Draw(t, "nreq")
		big := rapid.IntRange(0, 4).Draw(t, "big") == 0
		if big {
			// a larger flow: 6-10 request processors with frequent fan-out, i.e. well over a dozen connections
			n = rapid.IntRange(6, 10).Draw(t, "nreq-big")
		}
		kinds := make([]string, n)
		for i := 0; i < n; i++ {
			k := rapid.SampledFrom([]string{"T", "F", "F", "G"}).Draw(t, "kind")
			if i == 0 && k == "G" {
				k = "F" // the loader rejects a root without outgoing connection ("unconnected")
			}
			kinds[i] = k
			p := fg.Proc{Key: fmt.Sprintf("P%d", i), Kind: k}
			if k == "F" {
				p.Arg = fmt.Sprintf("x-k%d", i)
			}
			f.Procs = append(f.Procs, p)
		}
		// request direction: root -> P0; edges only forward (acyclic)
		f.Req = append(f.Req, fg.Conn{From: fg.StreamStart(), To: fg.End{Proc: "P0"}})
		reachable := map[int]bool{0: true}
		for i := 0; i < n; i++ {
			if kinds[i] == "G" || !reachable[i] {
				continue
			}
			for _, cond := range fg.Outputs(kinds[i]) {
				ntargets := 1
				if i+2 < n && (rapid.IntRange(0, 5).Draw(t, "fan") == 0 || (big && rapid.Bool().Draw(t, "fan-big"))) {
					ntargets = 2
				}
				if kinds[i] == "F" && rapid.IntRange(0, 6).Draw(t, "noedge") == 0 && cond == "miss" {
					continue // a Filter output nobody listens to: the walk ends there
				}
				seen := map[fg.End]bool{}
				for k := 0; k < ntargets; k++ {
					to := fg.StreamEnd()
					if i+1 < n && rapid.IntRange(0, 4).Draw(t, "toend") != 0 {
						j := rapid.IntRange(i+1, n-1).Draw(t, "target")
						to = fg.End{Proc: fmt.Sprintf("P%d", j)}
					}
					if seen[to] {
						continue
					}
					seen[to] = true
					if to.Proc != "" {
						var j int
						fmt.Sscanf(to.Proc, "P%d", &j)
						reachable[j] = true
					}
					f.Req = append(f.Req, fg.Conn{From: fg.End{Proc: fmt.Sprintf("P%d", i), Cond: cond}, To: to})
				}
			}
		}
		rootHasEdge := false
		for _, cn := range f.Req {
			rootHasEdge = rootHasEdge || cn.From.Proc == "P0"
		}
		if !rootHasEdge {
			f.Req = append(f.Req, fg.Conn{From: fg.End{Proc: "P0", Cond: fg.Outputs(kinds[0])[0]}, To: fg.StreamEnd()})
		}
		for i := 0; i < n; i++ {
			for _, cond := range fg.Outputs(kinds[i]) {
				k := 0
				for _, cn := range f.Req {
					if cn.From.Proc == fmt.Sprintf("P%d", i) && cn.From.Cond == cond && cn.To.Proc != "" {
						k++
					}
				}
				if k >= 2 {
					c.FanOut = true
				}
			}
		}
		// drop processors that never appear in a connection (the loader only builds referenced nodes;
		// an unreferenced declaration is harmless but keeps the case smaller)
		used := map[string]bool{}
		for _, cn := range f.Req {
			used[cn.From.Proc], used[cn.To.Proc] = true, true
		}
		// a node that is a target but has no outgoing edge at all must still be "connected": it is (target)
		// response direction
		m := rapid.IntRange(0, 3).Draw(t, "nresp")
		rk := make([]string, m)
		for i := 0; i < m; i++ {
			rk[i] = rapid.SampledFrom([]string{"F", "F", "T"}).Draw(t, "rkind")
			p := fg.Proc{Key: fmt.Sprintf("R%d", i), Kind: rk[i]}
			if rk[i] == "F" {
				p.Arg = fmt.Sprintf("x-r%d", i)
			}
			f.Procs = append(f.Procs, p)
		}
		hasRoot := m > 0 && rapid.IntRange(0, 3).Draw(t, "root") != 0
		if hasRoot {
			f.Resp = append(f.Resp, fg.Conn{From: fg.StreamStart(), To: fg.End{Proc: "R0"}})
		} else {
			f.Resp = append(f.Resp, fg.Conn{From: fg.StreamStart(), To: fg.StreamEnd()})
		}
		for i := 0; i < m; i++ {
			for _, cond := range fg.Outputs(rk[i]) {
				to := fg.StreamEnd()
				if i+1 < m && rapid.IntRange(0, 3).Draw(t, "rtoend") != 0 {
					to = fg.End{Proc: fmt.Sprintf("R%d", rapid.IntRange(i+1, m-1).Draw(t, "rtarget"))}
				}
				f.Resp = append(f.Resp, fg.Conn{From: fg.End{Proc: fmt.Sprintf("R%d", i), Cond: cond}, To: to})
			}
		}
		anyG := false
		for i := 0; i < n; i++ {
			if kinds[i] != "G" || !used[fmt.Sprintf("P%d", i)] {
				continue
			}
			anyG = true
			to := fg.StreamEnd()
			if m > 0 && rapid.IntRange(0, 2).Draw(t, "gcont") != 0 {
				to = fg.End{Proc: fmt.Sprintf("R%d", rapid.IntRange(0, m-1).Draw(t, "gtarget"))}
			}
			f.Resp = append(f.Resp, fg.Conn{From: fg.End{Proc: fmt.Sprintf("P%d", i)}, To: to})
		}
		c.Rootless = !hasRoot && anyG
		// keep only declared processors that are referenced somewhere
		for _, cn := range f.Resp {
			used[cn.From.Proc], used[cn.To.Proc] = true, true
		}
		procs := []fg.Proc{}
		for _, p := range f.Procs {
			if used[p.Key] {
				procs = append(procs, p)
			}
		}
		f.Procs = procs
		// the connections may be listed in any order (the entry connection need not come first); fan-out siblings
		// run in the order in which they are listed, which the reference interpreter follows
		if rapid.Bool().Draw(t, "shuffle") {
			f.Req = rapid.Permutation(f.Req).Draw(t, "req-order")
			f.Resp = rapid.Permutation(f.Resp).Draw(t, "resp-order")
		}
		c.Flow = f
		nq := rapid.IntRange(0, 3).Draw(t, "nquotas")
		for i := 0; i < nq; i++ {
			c.Quotas = append(c.Quotas, rapid.SampledFrom([]string{"fixed", "concurrent", "concurrent", "concurrent*", "fixed*"}).Draw(t, "qkind"))
		}
		c.ReqHdr, c.RespHdr = map[string]string{}, map[string]string{}
		for _, p := range f.Procs {
			if p.Kind == "F" && rapid.Bool().Draw(t, "h-"+p.Key) {
				c.ReqHdr[p.Arg] = "1"
			}
			if p.Kind == "F" && rapid.Bool().Draw(t, "rh-"+p.Key) {
				c.RespHdr[p.Arg] = "1"
			}
		}
		return c
	})
}

func quotaYAML(kinds []string) string {
	if len(kinds) == 0 {
		return ""
	}
	var b strings.Builder
	b.WriteString("quotas:\n")
	for i, k := range kinds {
		// "<kind>" sits on the flow's own URL, "<kind>*" on the wildcard pattern above it (another node of the
		// filter tree that matches the same transactions)
		url := "h.com/g"
		if strings.HasSuffix(k, "*") {
			url, k = "h.com/*", strings.TrimSuffix(k, "*")
		}
		fmt.Fprintf(&b, "  - id: SQ%d\n    filter:\n      url: \"%s\"\n    strategy:\n", i, url)
		if k == "fixed" {
			b.WriteString("      fixed_window:\n        max: 100000\n        interval: 1\n        interval_unit: minute\n")
		} else {
			b.WriteString("      concurrent:\n        max_request_count: 100000\n        request_expiration_sec: 60\n        gc_interval_sec: 30\n")
		}
	}
	return b.String()
}

// ---- reference interpreter of the statement -------------------------------------------

type event struct{ Key, Out string }

type interp struct {
	f        fg.Flow
	hdr      map[string]string
	events   []event
	answered string
	strict   bool // true: an answer stops the whole request walk; false: only the branch below the answering node
}

func (in *interp) out(p fg.Proc) string {
	switch p.Kind {
	case "F":
		if in.hdr[p.Arg] == "1" {
			return "hit"
		}
		return "miss"
	}
	return ""
}

func (in *interp) walk(conns []fg.Conn, key string, request bool) {
	if in.strict && in.answered != "" {
		return
	}
	p := kindOf(in.f, key)
	o := in.out(p)
	in.events = append(in.events, event{key, o})
	if request && p.Kind == "G" {
		if in.answered == "" {
			in.answered = key
		}
		return
	}
	for _, c := range conns {
		if c.From.Proc == key && c.From.Cond == o && c.To.Proc != "" {
			in.walk(conns, c.To.Proc, request)
		}
	}
}

func root(conns []fg.Conn) string {
	r := ""
	for _, c := range conns {
		if c.From.Stream == "start" && c.To.Proc != "" {
			r = c.To.Proc // the last declared stream->processor connection becomes the root
		}
	}
	return r
}

// continuation: the first response connection of the answering node
func continuation(resp []fg.Conn, key string) (string, bool) {
	for _, c := range resp {
		if c.From.Proc == key {
			return c.To.Proc, true
		}
	}
	return "", false
}

func fmtEvents(es []event) string {
	parts := []string{}
	for _, e := range es {
		parts = append(parts, e.Key+":"+e.Out)
	}
	return strings.Join(parts, " ")
}

// ---- harness ----------------------------------------------------------------------------------

var scratch string

func TestMain(m *testing.M) {
	engine.Setup()
	base := os.Getenv("VERIF_SCRATCH")
	if base == "" {
		base = os.TempDir()
	}
	d, err := os.MkdirTemp(base, "c04-")
	if err != nil {
		fmt.Println("VERIF-INFRA: cannot create scratch dir:", err)
		os.Exit(2)
	}
	scratch = d
	code := m.Run()
	os.RemoveAll(d)
	os.Exit(code)
}

type infraErr struct{ msg string }

// refusedErr: the loader refused a generated configuration
type refusedErr struct{ msg string }

func (e refusedErr) Error() string { return "VERIF-INFRA: " + e.msg }

func (e infraErr) Error() string { return "VERIF-INFRA: " + e.msg }

func userEvents(all []engine.ProcEvent, flow, dir string) []event {
	out := []event{}
	for _, e := range all {
		if e.Flow == flow && e.Dir == dir {
			out = append(out, event{e.Key, e.Output})
		}
	}
	return out
}

func runCase(r *ev.Recorder, rec *engine.Recorder, c tcase) (nontrivial bool, err error) {
	engine.WithLogLevel(c.LogLevel, func() { nontrivial, err = runCaseAtLevel(r, rec, c) })
	return nontrivial, err
}

func runCaseAtLevel(r *ev.Recorder, rec *engine.Recorder, c tcase) (nontrivial bool, err error) {
	dir, e := engine.NewDir(scratch)
	if e != nil {
		return false, infraErr{e.Error()}
	}
	defer dir.Remove()
	if e := dir.WriteFlow("u.yaml", c.Flow.YAML()); e != nil {
		return false, infraErr{e.Error()}
	}
	if q := quotaYAML(c.Quotas); q != "" {
		if e := dir.WriteQuota("q.yaml", q); e != nil {
			return false, infraErr{e.Error()}
		}
	}
	s, e := dir.Load()
	if e != nil {
		return false, refusedErr{fmt.Sprintf("generated configuration was rejected: %v\n%s", e, c.Flow.YAML())}
	}
	// ---- request ----
	rec.Take()
	hdr := map[string]string{"host": "h.com"}
	for k, v := range c.ReqHdr {
		hdr[k] = v
	}
	res := engine.RunRequest(s, engine.Txn{ID: "t1", Method: "GET", URL: "h.com/g", Path: "/g", Headers: hdr, Body: "{}"})
	all := rec.Take()
	if res.Err != nil {
		return false, fmt.Errorf("request: ExecuteFlow error: %v", res.Err)
	}
	strict := &interp{f: c.Flow, hdr: c.ReqHdr, strict: true}
	strict.walk(c.Flow.Req, root(c.Flow.Req), true)
	loose := &interp{f: c.Flow, hdr: c.ReqHdr}
	loose.walk(c.Flow.Req, root(c.Flow.Req), true)
	got := userEvents(all, c.Flow.Name, "StreamTypeRequest")
	taken, notTaken := false, false
	for _, evn := range strict.events {
		if kindOf(c.Flow, evn.Key).Kind == "F" {
			for _, cn := range c.Flow.Req {
				if cn.From.Proc == evn.Key && cn.To.Proc != "" {
					if cn.From.Cond == evn.Out {
						taken = true
					} else {
						notTaken = true
					}
				}
			}
		}
	}
	nontrivial = (taken && notTaken) || strict.answered != ""
	if !c.FanOut {
		if fmtEvents(got) != fmtEvents(strict.events) {
			return nontrivial, fmt.Errorf("request walk differs from the configured graph: executed [%s], expected [%s]", fmtEvents(got), fmtEvents(strict.events))
		}
	} else {
		r.Class("fan-out")
		// meaning of fan-out around an answering node is not fixed by the statement: accept either reading,
		// but nothing outside the looser reading may run
		if fmtEvents(got) != fmtEvents(strict.events) && fmtEvents(got) != fmtEvents(loose.events) {
			return nontrivial, fmt.Errorf("request walk (fan-out) matches neither reading: executed [%s], expected [%s] or [%s]", fmtEvents(got), fmtEvents(strict.events), fmtEvents(loose.events))
		}
	}
	// system flows: start flows before, end flows after the user flow (requests)
	firstUser, lastUser := -1, -1
	for i, e := range all {
		if e.Flow == c.Flow.Name && e.Dir == "StreamTypeRequest" {
			if firstUser < 0 {
				firstUser = i
			}
			lastUser = i
		}
	}
	nStart := 0
	for i, e := range all {
		if e.Dir != "StreamTypeRequest" {
			continue
		}
		if strings.Contains(e.Flow, "SYSTEM_FLOW_START") {
			nStart++
			if firstUser >= 0 && i > firstUser {
				return nontrivial, fmt.Errorf("system start flow %s ran after the user flow started on the request", e.Flow)
			}
		}
		if strings.Contains(e.Flow, "SYSTEM_FLOW_END") && lastUser >= 0 && i < lastUser {
			return nontrivial, fmt.Errorf("system end flow %s ran before the user flow finished on the request", e.Flow)
		}
	}
	incOrder := systemFlowOrder(all)
	if os.Getenv("C04_DEBUG") != "" {
		for _, e := range all {
			fmt.Printf("REQ %+v\n", e)
		}
	}
	if len(c.Quotas) > 0 && nStart == 0 {
		return nontrivial, fmt.Errorf("quotas are configured on the flow's URL but no system start flow ran on the request")
	}
	if len(c.Quotas) > 0 {
		r.Class("with-system-flows")
	}
	// every quota whose filter matches the transaction counts it: its system-flow processor runs on the request,
	// also when several quotas share one filter (and with it one system flow)
	for i := range c.Quotas {
		key, ran := fmt.Sprintf("SQ%d_QuotaProcessorInc", i), false
		for _, e := range all {
			ran = ran || (e.Dir == "StreamTypeRequest" && e.Key == key)
		}
		if !ran {
			return nontrivial, fmt.Errorf("quota SQ%d matches the transaction but its system-flow processor %s did not run on the request (quotas: %v)", i, key, c.Quotas)
		}
	}
	answered := strict.answered
	if (res.Early != nil) != (answered != "") {
		return nontrivial, fmt.Errorf("early response produced=%v but the graph reaches an answering processor=%q", res.Early != nil, answered)
	}
	if answered != "" {
		r.Class("early-response")
		if res.Early.Body != answered {
			return nontrivial, fmt.Errorf("early response comes from %q, the graph reaches %q first", res.Early.Body, answered)
		}
		// the response path continues from the answering processor's response connection
		want := []event{}
		if to, ok := continuation(c.Flow.Resp, answered); ok && to != "" {
			in := &interp{f: c.Flow, hdr: c.ReqHdr} // no response exists: Filters see the request headers
			in.walk(c.Flow.Resp, to, false)
			want = in.events
		}
		gotResp := userEvents(all, c.Flow.Name, "StreamTypeResponse")
		if c.FanOut && fmtEvents(got) != fmtEvents(strict.events) {
			return nontrivial, nil // loose reading of a fan-out: continuation semantics not fixed
		}
		if fmtEvents(gotResp) != fmtEvents(want) {
			d := discrepancy{kind: "continuation", c: c, got: gotResp, want: want}
			return nontrivial, attribute(r, d)
		}
		return nontrivial, nil
	}
	// ---- response ----
	rh := map[string]string{}
	for k, v := range c.RespHdr {
		rh[k] = v
	}
	res = engine.RunResponse(s, engine.Txn{ID: "t1", Method: "GET", URL: "h.com/g", Headers: rh, Status: 200, Body: "{}"})
	all = rec.Take()
	if res.Err != nil {
		return nontrivial, fmt.Errorf("response: ExecuteFlow error: %v", res.Err)
	}
	want := []event{}
	if rt := root(c.Flow.Resp); rt != "" {
		in := &interp{f: c.Flow, hdr: c.RespHdr}
		in.walk(c.Flow.Resp, rt, false)
		want = in.events
	}
	gotResp := userEvents(all, c.Flow.Name, "StreamTypeResponse")
	if fmtEvents(gotResp) != fmtEvents(want) {
		return nontrivial, fmt.Errorf("response walk differs from the configured graph: executed [%s], expected [%s]", fmtEvents(gotResp), fmtEvents(want))
	}
	for _, e := range userEvents(all, c.Flow.Name, "StreamTypeRequest") {
		return nontrivial, fmt.Errorf("request-direction processor %s ran while handling the response", e.Key)
	}
	nDec := 0
	for _, e := range all {
		if strings.Contains(e.Flow, "SYSTEM_FLOW_END") {
			nDec++
		}
	}
	conc := 0
	for _, q := range c.Quotas {
		if strings.HasPrefix(q, "concurrent") {
			conc++
		}
	}
	if conc > 0 && nDec == 0 {
		return nontrivial, fmt.Errorf("a concurrency quota is configured but its system end flow did not run on the response")
	}
	// "in reverse order on responses": the system flows (one per filter-tree node that carries quotas) that act on
	// the response run in the reverse of the order in which they ran on the request; the order of the processors
	// inside one system flow is not part of the statement
	decOrder := systemFlowOrder(all)
	wantDec := []string{}
	for i := len(incOrder) - 1; i >= 0; i-- {
		for _, d := range decOrder {
			if d == incOrder[i] {
				wantDec = append(wantDec, d)
			}
		}
	}
	if len(decOrder) >= 2 {
		r.Class("two or more system flows act on the response")
	}
	if strings.Join(decOrder, ",") != strings.Join(wantDec, ",") {
		return nontrivial, fmt.Errorf("the system flows of the quotas ran on the request in the order %v, on the response in the order %v; the statement requires the reverse order %v", incOrder, decOrder, wantDec)
	}
	return nontrivial, nil
}

// systemFlowOrder lists the system flows (by the id between "SystemFlow_" and "_SYSTEM_FLOW_...") in the order in
// which they first executed a processor.
func systemFlowOrder(all []engine.ProcEvent) []string {
	out := []string{}
	seen := map[string]bool{}
	for _, e := range all {
		i := strings.Index(e.Flow, "_SYSTEM_FLOW_")
		if !strings.HasPrefix(e.Flow, "SystemFlow_") || i < 0 {
			continue
		}
		id := e.Flow[len("SystemFlow_"):i]
		if !seen[id] {
			seen[id] = true
			out = append(out, id)
		}
	}
	return out
}

type discrepancy struct {
	kind      string
	c         tcase
	got, want []event
}

func TestGraphWalk(t *testing.T) {
	r := ev.New(t, "C04")
	rec := engine.Capture(0)
	defer rec.Stop()
	cases, refused, lastRefusal := 0, 0, ""
	rapid.Check(t, func(t *rapid.T) {
		c := genCase().Draw(t, "case")
		cases++
		r.Case()
		nt, err := runCase(r, rec, c)
		if err != nil {
			if rf, refusedCase := err.(refusedErr); refusedCase {
				// the generator builds configurations the loader accepts (it does, on the pinned tree, every time):
				// a refusal is counted and the search goes on; the unit is inconclusive if refusals are not rare
				refused++
				lastRefusal = rf.msg
				r.Class("generated configuration refused by the loader (case not judged)")
				return
			}
			if _, infra := err.(infraErr); infra {
				fmt.Println(err.Error())
				t.Fatalf("%v", err)
			}
			t.Fatalf("%s", r.Fail(c, "%v", err))
		}
		if nt {
			r.NonTrivial(ev.JSON(c), func() any { return c })
		}
	})
	if !t.Failed() && refused*10 > cases {
		fmt.Printf("VERIF-INFRA: %d of %d generated configurations were refused by the loader, e.g. %s\n", refused, cases, lastRefusal)
		t.Fatalf("infrastructure")
	}
}

// Plain regression / witness checks.
func TestRegressionAndWitness(t *testing.T) {
	r := ev.New(t, "C04")
	rec := engine.Capture(0)
	defer rec.Stop()
	g := func(keys ...string) []fg.Proc {
		out := []fg.Proc{}
		for _, k := range keys {
			p := fg.Proc{Key: k[1:], Kind: k[:1]}
			if p.Kind == "F" {
				p.Arg = "x-" + strings.ToLower(p.Key)
			}
			out = append(out, p)
		}
		return out
	}
	cases := []tcase{
		// fixed (8364274): rootless response direction, continuation Gen -> R0 never ran
		{Flow: fg.Flow{Name: "uflow", URL: "h.com/g", Procs: g("FP0", "GP1", "FR0"),
			Req:  []fg.Conn{{From: fg.StreamStart(), To: fg.End{Proc: "P0"}}, {From: fg.End{Proc: "P0", Cond: "miss"}, To: fg.End{Proc: "P1"}}, {From: fg.End{Proc: "P0", Cond: "hit"}, To: fg.StreamEnd()}},
			Resp: []fg.Conn{{From: fg.StreamStart(), To: fg.StreamEnd()}, {From: fg.End{Proc: "R0", Cond: "hit"}, To: fg.StreamEnd()}, {From: fg.End{Proc: "R0", Cond: "miss"}, To: fg.StreamEnd()}, {From: fg.End{Proc: "P1"}, To: fg.End{Proc: "R0"}}}},
			ReqHdr: map[string]string{}, RespHdr: map[string]string{}, Rootless: true},
		// known finding C04-F2: TransformAPICall before the answering processor
		{Flow: fg.Flow{Name: "uflow", URL: "h.com/g", Procs: g("TP0", "GP1", "FR0"),
			Req:  []fg.Conn{{From: fg.StreamStart(), To: fg.End{Proc: "P0"}}, {From: fg.End{Proc: "P0"}, To: fg.End{Proc: "P1"}}},
			Resp: []fg.Conn{{From: fg.StreamStart(), To: fg.End{Proc: "R0"}}, {From: fg.End{Proc: "R0", Cond: "hit"}, To: fg.StreamEnd()}, {From: fg.End{Proc: "R0", Cond: "miss"}, To: fg.StreamEnd()}, {From: fg.End{Proc: "P1"}, To: fg.End{Proc: "R0"}}}},
			ReqHdr: map[string]string{}, RespHdr: map[string]string{}},
	}
	for _, c := range cases {
		r.Case()
		r.NonTrivial(ev.JSON(c), func() any { return c })
		if _, err := runCase(r, rec, c); err != nil {
			if _, infra := err.(infraErr); infra {
				fmt.Println(err.Error())
				t.Fatalf("%v", err)
			}
			t.Fatalf("%s", r.Fail(c, "%v", err))
		}
	}
}
