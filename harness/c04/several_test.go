// C04, unit TestSeveralMatchingFlows: two or three user flows whose filters all match the transaction (h.com/*,
// h.com/g/*, h.com/g/x - nested patterns, or the same pattern twice). Each flow is a plain chain of 1-3 processors
// (Filters whose two outputs both go on, header transformations, and answering processors); any of the flows may
// answer the request itself. "When a processor answers the request itself, the rest of the request path is
// skipped": the request path of the transaction is every matching flow's chain, one flow after the other, and it
// ends at the first answer - no processor of a flow that comes later runs on the request, the answer that reaches
// the client is the first one, and every flow that came before the answering one ran its whole chain. The order in
// which the matching flows take their turn is read off the run, not prescribed.
package c04

import (
	"fmt"
	"strings"
	"testing"

	"pgregory.net/rapid"

	"verif/harness/internal/engine"
	"verif/harness/internal/ev"
	fg "verif/harness/internal/flowgen"
)

type severalCase struct {
	Flows    []fg.Flow `json:"flows"`
	LogLevel string    `json:"log_level,omitempty"`
}

func genSeveral() *rapid.Generator[severalCase] {
	return rapid.Custom(func(t *rapid.T) severalCase {
		c := severalCase{LogLevel: rapid.SampledFrom([]string{"", "", "", "error", "debug", "trace"}).Draw(t, "log-level")}
		n := rapid.IntRange(2, 3).Draw(t, "flows")
		urls := rapid.Permutation([]string{"h.com/*", "h.com/g/*", "h.com/g/x"}).Draw(t, "urls")
		if rapid.IntRange(0, 3).Draw(t, "same-pattern") == 0 {
			urls[1] = urls[0]
		}
		for i := 0; i < n; i++ {
			f := fg.Flow{Name: fmt.Sprintf("u%d", i), URL: urls[i]}
			m := rapid.IntRange(1, 3).Draw(t, "procs")
			prev := fg.StreamStart()
			var prevKind string
			link := func(to fg.End) {
				if prevKind == "F" {
					f.Req = append(f.Req, fg.Conn{From: fg.End{Proc: prev.Proc, Cond: "hit"}, To: to}, fg.Conn{From: fg.End{Proc: prev.Proc, Cond: "miss"}, To: to})
				} else {
					f.Req = append(f.Req, fg.Conn{From: prev, To: to})
				}
			}
			answered := false
			for k := 0; k < m && !answered; k++ {
				kind := rapid.SampledFrom([]string{"F", "T", "F", "T", "G"}).Draw(t, "kind")
				if k == 0 && kind == "G" {
					kind = "F" // the loader rejects a root without outgoing connection
				}
				p := fg.Proc{Key: fmt.Sprintf("U%dP%d", i, k), Kind: kind}
				if kind == "F" {
					p.Arg = "x-k"
				}
				f.Procs = append(f.Procs, p)
				link(fg.End{Proc: p.Key})
				prev, prevKind = fg.End{Proc: p.Key}, kind
				if kind == "G" {
					answered = true
					f.Resp = append(f.Resp, fg.Conn{From: fg.End{Proc: p.Key}, To: fg.StreamEnd()})
				}
			}
			if !answered {
				link(fg.StreamEnd())
			}
			if len(f.Resp) == 0 {
				f.Resp = append(f.Resp, fg.Conn{From: fg.StreamStart(), To: fg.StreamEnd()})
			}
			c.Flows = append(c.Flows, f)
		}
		return c
	})
}

func runSeveral(r *ev.Recorder, rec *engine.Recorder, c severalCase) (nontrivial bool, err error) {
	dir, e := engine.NewDir(scratch)
	if e != nil {
		return false, infraErr{e.Error()}
	}
	defer dir.Remove()
	for i, f := range c.Flows {
		if e := dir.WriteFlow(fmt.Sprintf("u%d.yaml", i), f.YAML()); e != nil {
			return false, infraErr{e.Error()}
		}
	}
	s, e := dir.Load()
	if e != nil {
		return false, refusedErr{fmt.Sprintf("generated configuration was rejected: %v", e)}
	}
	rec.Take()
	res := engine.RunRequest(s, engine.Txn{ID: "t1", Method: "GET", URL: "h.com/g/x", Path: "/g/x", Headers: map[string]string{"host": "h.com", "x-k": "1"}, Body: "{}"})
	all := rec.Take()
	if res.Err != nil {
		return false, fmt.Errorf("request: ExecuteFlow error: %v", res.Err)
	}
	byName := map[string]fg.Flow{}
	for _, f := range c.Flows {
		byName[f.Name] = f
	}
	// the request-direction executions of the user flows, in the order in which they happened
	seq := []engine.ProcEvent{}
	for _, e := range all {
		if _, user := byName[e.Flow]; user && e.Dir == "StreamTypeRequest" {
			seq = append(seq, e)
		}
	}
	render := func() string {
		parts := []string{}
		for _, e := range seq {
			parts = append(parts, e.Flow+"."+e.Key)
		}
		return strings.Join(parts, " ")
	}
	// flows in the order of their first execution; each flow's executions are contiguous and follow its chain
	order, pos := []string{}, map[string]int{}
	for _, e := range seq {
		if _, seen := pos[e.Flow]; !seen {
			order = append(order, e.Flow)
			pos[e.Flow] = 0
		} else if order[len(order)-1] != e.Flow {
			return false, fmt.Errorf("the request executions of flow %s are interleaved with another flow's: [%s]", e.Flow, render())
		}
		f := byName[e.Flow]
		if pos[e.Flow] >= len(f.Procs) || f.Procs[pos[e.Flow]].Key != e.Key {
			return false, fmt.Errorf("flow %s executed %s out of the order of its chain: [%s]", e.Flow, e.Key, render())
		}
		pos[e.Flow]++
	}
	answeredBy, answerKey := "", ""
	for _, name := range order {
		f := byName[name]
		if answeredBy != "" {
			return true, fmt.Errorf("flow %s answered the request itself (processor %s), yet processors of flow %s ran on the request after it: the rest of the request path was not skipped [%s]", answeredBy, answerKey, name, render())
		}
		if pos[name] != len(f.Procs) {
			return false, fmt.Errorf("flow %s stopped after %d of its %d processors although nothing before them answered: [%s]", name, pos[name], len(f.Procs), render())
		}
		if last := f.Procs[len(f.Procs)-1]; last.Kind == "G" {
			answeredBy, answerKey = name, last.Key
		}
	}
	if answeredBy == "" {
		for _, f := range c.Flows {
			if _, ran := pos[f.Name]; !ran {
				return false, fmt.Errorf("flow %s matches the transaction and nothing answered it, but none of its processors ran: [%s]", f.Name, render())
			}
		}
	}
	if (res.Early != nil) != (answeredBy != "") {
		return false, fmt.Errorf("early response produced=%v, answering flow %q: [%s]", res.Early != nil, answeredBy, render())
	}
	if answeredBy != "" {
		r.Class("one of several matching flows answers")
		if res.Early.Body != answerKey {
			return true, fmt.Errorf("the early response comes from %q, the first answer on the request path is %s.%s: [%s]", res.Early.Body, answeredBy, answerKey, render())
		}
		later := false
		for _, f := range c.Flows {
			if _, ran := pos[f.Name]; !ran {
				later = true
			}
		}
		if later {
			r.Class("a matching flow stands behind the answering one")
		}
		return later, nil
	}
	r.Class("several matching flows, no answer")
	return false, nil
}

func TestSeveralMatchingFlows(t *testing.T) {
	r := ev.New(t, "C04")
	rec := engine.Capture(0)
	defer rec.Stop()
	cases, refused, lastRefusal := 0, 0, ""
	rapid.Check(t, func(t *rapid.T) {
		c := genSeveral().Draw(t, "case")
		cases++
		r.Case()
		var nt bool
		var err error
		engine.WithLogLevel(c.LogLevel, func() { nt, err = runSeveral(r, rec, c) })
		if err != nil {
			if rf, refusedCase := err.(refusedErr); refusedCase {
				refused++
				lastRefusal = rf.msg
				r.Class("generated configuration refused by the loader (case not judged)")
				return
			}
			if _, infra := err.(infraErr); infra {
				fmt.Println(err.Error())
				t.Fatalf("%v", err)
			}
			t.Fatalf("%s", r.Fail(c, "%v", err))
		}
		if nt {
			r.NonTrivial(ev.JSON(c), func() any { return c })
		}
	})
	if !t.Failed() && refused*10 > cases {
		fmt.Printf("VERIF-INFRA: %d of %d generated configurations were refused by the loader, e.g. %s\n", refused, cases, lastRefusal)
		t.Fatalf("infrastructure")
	}
}
