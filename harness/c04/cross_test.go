// C04, unit TestCrossFlowWalk: a flow that incorporates another flow through the documented flow references
// (request: `from: flow X at end -> to: processor`, response: `from: processor -> to: flow X at start`).
// The referenced flow X (a guard: Filters and an optional answering processor) has a filter of its own that
// the generated transaction never matches, so only the host flow A is selected; its request path is X's
// request graph followed - wherever X reaches the stream end - by A's own processors, its response path is A's
// own processors followed by X's response graph, and an answer given inside X or inside A continues on the
// response connection of the answering processor.
package c04

import (
	"fmt"
	"strings"
	"testing"

	"pgregory.net/rapid"

	"verif/harness/internal/engine"
	"verif/harness/internal/ev"
	fg "verif/harness/internal/flowgen"
)

type crossCase struct {
	X fg.Flow `json:"referenced_flow"`
	A fg.Flow `json:"host_flow"`
	// Lib (optional): a third flow whose processor K0 the host uses through the cross-flow processor reference
	// `Lib.K0`, next to a processor of its own that has the same key K0 and another parameter
	Lib     *fg.Flow          `json:"library_flow,omitempty"`
	ReqHdr  map[string]string `json:"request_headers"`
	RespHdr map[string]string `json:"response_headers"`
	// Fan: number of further connections that leave "flow Guard at end" in the host's request direction
	Fan int `json:"fan_out_behind_the_reference,omitempty"`
	// Shared: the host's two directions run over the same processor keys
	Shared bool `json:"same_processors_in_both_directions,omitempty"`
	// TwinFan: one of the fan-out's connections leads to Lib.K0 and another to the host's own K0
	TwinFan bool `json:"fan_out_to_processors_with_one_key_in_two_flows,omitempty"`
}

func pEnd(key, cond string) fg.End { return fg.End{Proc: key, Cond: cond} }

// genSide builds one direction of one flow: Filters k0..k(n-1) in a chain with conditional exits.
// exits lists the places a branch may leave the chain to (besides the next Filter): fg.End values.
func genSide(t *rapid.T, label string, keys []string, entry fg.End, exits []fg.End, mustExit *fg.End) []fg.Conn {
	var cs []fg.Conn
	if len(keys) == 0 {
		return append(cs, fg.Conn{From: entry, To: exits[0]})
	}
	cs = append(cs, fg.Conn{From: entry, To: fg.End{Proc: keys[0]}})
	used := false
	for i, k := range keys {
		last := i == len(keys)-1
		conds := []string{"hit", "miss"}
		main := rapid.IntRange(0, 1).Draw(t, label+"-main")
		for ci, cond := range conds {
			var to fg.End
			switch {
			case !last && ci == main:
				to = fg.End{Proc: keys[i+1]}
			case !last:
				opts := append([]fg.End{{Proc: keys[i+1]}}, exits...)
				to = opts[rapid.IntRange(0, len(opts)-1).Draw(t, label+"-to")]
			default:
				to = exits[rapid.IntRange(0, len(exits)-1).Draw(t, label+"-to")]
			}
			if mustExit != nil && to == *mustExit {
				used = true
			}
			cs = append(cs, fg.Conn{From: pEnd(k, cond), To: to})
		}
	}
	if mustExit != nil && !used {
		// the answering processor must be reachable: the last Filter's miss branch leads to it
		cs[len(cs)-1].To = *mustExit
	}
	return cs
}

func genCross() *rapid.Generator[crossCase] {
	return rapid.Custom(func(t *rapid.T) crossCase {
		c := crossCase{ReqHdr: map[string]string{}, RespHdr: map[string]string{}}
		filt := func(key string) fg.Proc { return fg.Proc{Key: key, Kind: "F", Arg: "x-k" + strings.ToLower(key)} }
		keysOf := func(prefix string, n int, f *fg.Flow) []string {
			ks := []string{}
			for i := 0; i < n; i++ {
				k := fmt.Sprintf("%s%d", prefix, i)
				ks = append(ks, k)
				f.Procs = append(f.Procs, filt(k))
			}
			return ks
		}
		// referenced flow X
		c.X = fg.Flow{Name: "Guard", URL: "h.com/guard-only"}
		xk := keysOf("X", rapid.IntRange(1, 3).Draw(t, "nx"), &c.X)
		yk := keysOf("Y", rapid.IntRange(1, 2).Draw(t, "ny"), &c.X) // a referenced response graph needs a root processor ("foreign root node not found" otherwise)
		xExits := []fg.End{fg.StreamEnd()}
		var gx *fg.End
		if rapid.IntRange(0, 2).Draw(t, "gx") > 0 {
			c.X.Procs = append(c.X.Procs, fg.Proc{Key: "GX", Kind: "G", Arg: "418"})
			g := fg.End{Proc: "GX"}
			gx = &g
			xExits = append(xExits, g)
		}
		c.X.Req = genSide(t, "xreq", xk, fg.StreamStart(), xExits, gx)
		c.X.Resp = genSide(t, "xresp", yk, fg.StreamStart(), []fg.End{fg.StreamEnd()}, nil)
		if gx != nil {
			opts := []fg.End{fg.StreamEnd()}
			for _, k := range yk {
				opts = append(opts, fg.End{Proc: k})
			}
			c.X.Resp = append(c.X.Resp, fg.Conn{From: fg.End{Proc: "GX"}, To: opts[rapid.IntRange(0, len(opts)-1).Draw(t, "gx-cont")]})
		}
		// host flow A
		c.A = fg.Flow{Name: "Host", URL: "h.com/a"}
		ak := keysOf("A", rapid.IntRange(1, 2).Draw(t, "na"), &c.A)
		var sk []string
		if rapid.IntRange(0, 2).Draw(t, "same-processors-both-ways") == 0 {
			// the host's response direction runs over the same processors as its request direction (one processor
			// key with connections of its own in each direction): the two graphs stay apart
			// (in the same order: run in the opposite order, the two chains together would be a circle, which a
			// loader that looked at both directions at once might refuse)
			sk = append([]string(nil), ak...)
			c.Shared = true
		} else {
			sk = keysOf("S", rapid.IntRange(1, 2).Draw(t, "ns"), &c.A)
		}
		aExits := []fg.End{fg.StreamEnd()}
		var ga *fg.End
		if rapid.IntRange(0, 3).Draw(t, "ga") == 0 {
			c.A.Procs = append(c.A.Procs, fg.Proc{Key: "GA", Kind: "G", Arg: "403"})
			g := fg.End{Proc: "GA"}
			ga = &g
			aExits = append(aExits, g)
		}
		c.A.Req = genSide(t, "areq", ak, fg.End{Flow: "Guard", At: "end"}, aExits, ga)
		// a fan-out directly behind the flow reference: a second connection leaves "flow Guard at end" for a
		// processor of its own, which runs after the first branch (only without an answering processor in the
		// host: what a fan-out means around an answer is not fixed by the statement)
		if ga == nil && rapid.IntRange(0, 2).Draw(t, "fan-behind-ref") == 0 {
			n := rapid.IntRange(1, 2).Draw(t, "nfan")
			for i := 0; i < n; i++ {
				k := fmt.Sprintf("T%d", i)
				c.A.Procs = append(c.A.Procs, filt(k))
				c.A.Req = append(c.A.Req, fg.Conn{From: fg.End{Flow: "Guard", At: "end"}, To: fg.End{Proc: k}},
					fg.Conn{From: pEnd(k, "hit"), To: fg.StreamEnd()}, fg.Conn{From: pEnd(k, "miss"), To: fg.StreamEnd()})
			}
			c.Fan = n
		}
		if rapid.IntRange(0, 2).Draw(t, "lib") == 0 {
			lib := fg.Flow{Name: "Lib", URL: "h.com/lib-only", Procs: []fg.Proc{{Key: "K0", Kind: "F", Arg: "x-klib"}},
				Req:  []fg.Conn{{From: fg.StreamStart(), To: fg.End{Proc: "K0"}}, {From: pEnd("K0", "hit"), To: fg.StreamEnd()}, {From: pEnd("K0", "miss"), To: fg.StreamEnd()}},
				Resp: []fg.Conn{{From: fg.StreamStart(), To: fg.StreamEnd()}}}
			c.Lib = &lib
			// host: entry -> Lib.K0 ; Lib.K0/hit -> first own Filter ; Lib.K0/miss -> own K0 -> first own Filter
			c.A.Procs = append(c.A.Procs, fg.Proc{Key: "K0", Kind: "F", Arg: "x-kown"})
			first := c.A.Req[0].To
			c.A.Req[0].To = fg.End{Proc: "Lib.K0"}
			c.A.Req = append(c.A.Req, fg.Conn{From: pEnd("Lib.K0", "hit"), To: first}, fg.Conn{From: pEnd("Lib.K0", "miss"), To: fg.End{Proc: "K0"}},
				fg.Conn{From: pEnd("K0", "hit"), To: first}, fg.Conn{From: pEnd("K0", "miss"), To: first})
		}
		if c.Lib != nil && ga == nil && rapid.IntRange(0, 1).Draw(t, "fan-to-own-k0") == 0 {
			// a further connection leaves "flow Guard at end" for the host's own K0, next to the one for Lib.K0: two
			// connections with one condition whose targets have the same key in different flows - both are followed
			c.A.Req = append(c.A.Req, fg.Conn{From: fg.End{Flow: "Guard", At: "end"}, To: fg.End{Proc: "K0"}})
			c.Fan++
			c.TwinFan = true
		}
		toX := fg.End{Flow: "Guard", At: "start"}
		c.A.Resp = genSide(t, "aresp", sk, fg.StreamStart(), []fg.End{toX, fg.StreamEnd()}, &toX)
		if ga != nil {
			opts := []fg.End{fg.StreamEnd()}
			for _, k := range sk {
				opts = append(opts, fg.End{Proc: k})
			}
			c.A.Resp = append(c.A.Resp, fg.Conn{From: fg.End{Proc: "GA"}, To: opts[rapid.IntRange(0, len(opts)-1).Draw(t, "ga-cont")]})
		}
		all := append(append([]fg.Proc{}, c.X.Procs...), c.A.Procs...)
		if c.Lib != nil {
			all = append(all, c.Lib.Procs...)
		}
		for _, p := range all {
			if p.Kind == "F" {
				if rapid.Bool().Draw(t, "req-"+p.Key) {
					c.ReqHdr[p.Arg] = "1"
				}
				if rapid.Bool().Draw(t, "resp-"+p.Key) {
					c.RespHdr[p.Arg] = "1"
				}
			}
		}
		return c
	})
}

// crossWalk follows the combined graph. `at` is the place the walk stands at; flow tells whose connections
// apply ("X" or "A"); redirect maps an exit of X's request graph / A's response graph to where it continues.
type crossWalker struct {
	c        crossCase
	hdr      map[string]string
	events   []string
	answered string
}

func (w *crossWalker) procOf(key string) fg.Proc {
	if strings.HasPrefix(key, "Lib.") && w.c.Lib != nil {
		for _, p := range w.c.Lib.Procs {
			if "Lib."+p.Key == key {
				p.Key = key
				return p
			}
		}
	}
	for _, p := range append(append([]fg.Proc{}, w.c.X.Procs...), w.c.A.Procs...) {
		if p.Key == key {
			return p
		}
	}
	panic("unknown processor " + key)
}

func inFlow(f fg.Flow, key string) bool {
	for _, p := range f.Procs {
		if p.Key == key {
			return true
		}
	}
	return false
}

// next returns where the walk goes after `key` produced `out` in direction request/response.
func (w *crossWalker) next(key, out string, request bool) fg.End {
	f := w.c.A
	if inFlow(w.c.X, key) {
		f = w.c.X
	}
	conns := f.Resp
	if request {
		conns = f.Req
	}
	for _, cn := range conns {
		if cn.From.Proc == key && cn.From.Cond == out {
			return cn.To
		}
	}
	return fg.End{} // no listener: the path ends here
}

func entryOf(conns []fg.Conn, from fg.End) fg.End {
	for _, cn := range conns {
		if cn.From == from {
			return cn.To
		}
	}
	return fg.End{}
}

// run walks from `at`; owner is the flow whose stream end / flow reference `at` was taken from.
func (w *crossWalker) run(at fg.End, ownerIsX bool, request bool) {
	for steps := 0; steps < 64; steps++ {
		switch {
		case at.Proc != "":
			p := w.procOf(at.Proc)
			out := ""
			if p.Kind == "F" {
				out = "miss"
				if w.hdr[p.Arg] == "1" {
					out = "hit"
				}
			}
			w.events = append(w.events, p.Key[strings.LastIndex(p.Key, ".")+1:])
			if p.Kind == "G" && request {
				w.answered = p.Key
				return
			}
			ownerIsX = inFlow(w.c.X, p.Key)
			at = w.next(p.Key, out, request)
		case at.Stream == "end":
			if request && ownerIsX {
				// the guard is finished: the host's own processors follow - every connection that leaves
				// "flow Guard at end", in the order they are written
				for _, cn := range w.c.A.Req {
					if cn.From == (fg.End{Flow: "Guard", At: "end"}) && w.answered == "" {
						w.run(cn.To, false, true)
					}
				}
			}
			return
		case at.Flow != "":
			// response: the host hands over to the guard's response graph
			at, ownerIsX = entryOf(w.c.X.Resp, fg.StreamStart()), true
		default:
			return
		}
	}
}

func keysOfEvents(es []engine.ProcEvent, dir string) []string {
	out := []string{}
	for _, e := range es {
		if e.Dir == dir {
			k := e.Key
			if i := strings.LastIndex(k, "."); i >= 0 {
				k = k[i+1:]
			}
			out = append(out, k)
		}
	}
	return out
}

func runCross(r *ev.Recorder, rec *engine.Recorder, c crossCase) (nontrivial bool, err error) {
	dir, e := engine.NewDir(scratch)
	if e != nil {
		return false, infraErr{e.Error()}
	}
	defer dir.Remove()
	if e := dir.WriteFlow("guard.yaml", c.X.YAML()); e != nil {
		return false, infraErr{e.Error()}
	}
	if e := dir.WriteFlow("host.yaml", c.A.YAML()); e != nil {
		return false, infraErr{e.Error()}
	}
	if c.Lib != nil {
		if e := dir.WriteFlow("lib.yaml", c.Lib.YAML()); e != nil {
			return false, infraErr{e.Error()}
		}
	}
	s, e := dir.Load()
	if e != nil {
		return false, refusedErr{fmt.Sprintf("generated configuration was rejected: %v\n%s\n%s", e, c.X.YAML(), c.A.YAML())}
	}
	rec.Take()
	hdr := map[string]string{"host": "h.com"}
	for k, v := range c.ReqHdr {
		hdr[k] = v
	}
	res := engine.RunRequest(s, engine.Txn{ID: "x1", Method: "GET", URL: "h.com/a", Path: "/a", Headers: hdr, Body: "{}"})
	all := rec.Take()
	if res.Err != nil {
		return false, fmt.Errorf("request: ExecuteFlow error: %v", res.Err)
	}
	w := &crossWalker{c: c, hdr: c.ReqHdr}
	w.run(entryOf(c.X.Req, fg.StreamStart()), true, true)
	got := keysOfEvents(all, "StreamTypeRequest")
	crossed := false
	for _, k := range w.events {
		crossed = crossed || inFlow(c.A, k)
	}
	nontrivial = crossed || w.answered != ""
	if crossed {
		r.Class("request path crosses from the referenced flow into the host flow")
		if c.TwinFan {
			r.Class("fan-out to two processors that have one key in two flows (Lib.K0 and the host's K0)")
		}
		if c.Fan > 0 {
			r.Class("request path crosses into a host flow that fans out directly behind the reference")
		}
	}
	if strings.Join(got, " ") != strings.Join(w.events, " ") {
		return nontrivial, fmt.Errorf("request walk differs from the configured graphs: executed [%s], expected [%s]", strings.Join(got, " "), strings.Join(w.events, " "))
	}
	if (res.Early != nil) != (w.answered != "") {
		return nontrivial, fmt.Errorf("early response produced=%v but the graphs reach an answering processor=%q", res.Early != nil, w.answered)
	}
	if w.answered != "" {
		r.Class("answered inside " + map[bool]string{true: "the referenced flow", false: "the host flow"}[inFlow(c.X, w.answered)])
		f := c.A
		if inFlow(c.X, w.answered) {
			f = c.X
		}
		cont := &crossWalker{c: c, hdr: c.ReqHdr} // no response exists: Filters see the request headers
		cont.run(entryOf(f.Resp, fg.End{Proc: w.answered}), inFlow(c.X, w.answered), false)
		gotResp := keysOfEvents(all, "StreamTypeResponse")
		if strings.Join(gotResp, " ") != strings.Join(cont.events, " ") {
			return nontrivial, fmt.Errorf("after the answer of %s the response path must continue from its response connection: executed [%s], expected [%s]", w.answered, strings.Join(gotResp, " "), strings.Join(cont.events, " "))
		}
		return nontrivial, nil
	}
	rh := map[string]string{}
	for k, v := range c.RespHdr {
		rh[k] = v
	}
	res = engine.RunResponse(s, engine.Txn{ID: "x1", Method: "GET", URL: "h.com/a", Headers: rh, Status: 200, Body: "{}"})
	all = rec.Take()
	if res.Err != nil {
		return nontrivial, fmt.Errorf("response: ExecuteFlow error: %v", res.Err)
	}
	wr := &crossWalker{c: c, hdr: c.RespHdr}
	wr.run(entryOf(c.A.Resp, fg.StreamStart()), false, false)
	gotResp := keysOfEvents(all, "StreamTypeResponse")
	for _, k := range wr.events {
		if inFlow(c.X, k) {
			r.Class("response path continues in the referenced flow")
			break
		}
	}
	if strings.Join(gotResp, " ") != strings.Join(wr.events, " ") {
		return nontrivial, fmt.Errorf("response walk differs from the configured graphs: executed [%s], expected [%s]", strings.Join(gotResp, " "), strings.Join(wr.events, " "))
	}
	return nontrivial, nil
}

func TestCrossFlowWalk(t *testing.T) {
	r := ev.New(t, "C04")
	rec := engine.Capture(256)
	defer rec.Stop()
	cases, refused, lastRefusal := 0, 0, ""
	rapid.Check(t, func(t *rapid.T) {
		c := genCross().Draw(t, "case")
		cases++
		r.Case()
		nt, err := runCross(r, rec, c)
		if err != nil {
			if rf, refusedCase := err.(refusedErr); refusedCase {
				// the generator builds configurations the loader accepts (it does, on the pinned tree, every time):
				// a refusal is counted and the search goes on; the unit is inconclusive if refusals are not rare
				refused++
				lastRefusal = rf.msg
				r.Class("generated configuration refused by the loader (case not judged)")
				return
			}
			if _, infra := err.(infraErr); infra {
				fmt.Println(err.Error())
				t.Fatalf("%v", err)
			}
			t.Fatalf("%s", r.Fail(c, "%v", err))
		}
		if nt {
			r.NonTrivial(ev.JSON(c), func() any { return c })
		}
	})
	if !t.Failed() && refused*10 > cases {
		fmt.Printf("VERIF-INFRA: %d of %d generated configurations were refused by the loader, e.g. %s\n", refused, cases, lastRefusal)
		t.Fatalf("infrastructure")
	}
}
