package c04

import (
	"fmt"

	"verif/harness/internal/ev"
)

// transformBeforeAnswer: a TransformAPICall ran on the request path before the
// answering processor. The transform rewrites the transaction URL to its full
// form (scheme://host/path?query); the flow lookup for the response stage of
// the same transaction then finds no flow, so nothing of the response path runs.
func transformBeforeAnswer(c tcase) bool {
	in := &interp{f: c.Flow, hdr: c.ReqHdr, strict: true}
	in.walk(c.Flow.Req, root(c.Flow.Req), true)
	for _, e := range in.events {
		if e.Key == in.answered {
			return false
		}
		if kindOf(c.Flow, e.Key).Kind == "T" {
			return true
		}
	}
	return false
}

// attribute decides whether a discrepancy belongs to a listed known finding
// (counted, the search continues) or is a violation.
func attribute(r *ev.Recorder, d discrepancy) error {
	if d.kind == "continuation" && len(d.got) == 0 && len(d.want) > 0 && transformBeforeAnswer(d.c) &&
		r.KnownFinding("C04-F2", func() any { return d.c }) {
		return nil
	}
	return fmt.Errorf("%s: after the early response of the answering processor the response path ran [%s], expected [%s] (rootless response direction: %v)",
		d.kind, fmtEvents(d.got), fmtEvents(d.want), d.c.Rootless)
}
