module verif/harness

go 1.23

require (
	github.com/negasus/haproxy-spoe-go v1.0.5
	lunar/aggregation-plugin v0.0.0
	lunar/engine v0.0.0
	lunar/shared-model v0.0.0
	lunar/toolkit-core v0.0.0
	pgregory.net/rapid v1.3.0
)

require (
	github.com/goccy/go-json v0.10.2 // indirect
	github.com/mattn/go-colorable v0.1.13 // indirect
	github.com/mattn/go-isatty v0.0.20 // indirect
	github.com/rs/zerolog v1.31.0 // indirect
	github.com/samber/lo v1.44.0 // indirect
	golang.org/x/sys v0.30.0 // indirect
	golang.org/x/text v0.16.0 // indirect
)

replace lunar/engine v0.0.0 => /repo/proxy/src/services/lunar-engine

replace lunar/toolkit-core v0.0.0 => /repo/proxy/src/libs/toolkit-core

replace lunar/shared-model v0.0.0 => /repo/proxy/src/libs/shared-model

replace lunar/aggregation-plugin v0.0.0 => /repo/proxy/src/services/aggregation-output-plugin
