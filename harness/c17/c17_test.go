// C17 — retries are bounded by the configured number of attempts.
//
// Two implementations share the property:
//
//	flows mode   the Retry processor, driven end to end: a generated flow YAML
//	             (status_code flow filter or Filter processor in front of Retry) is
//	             loaded by the real loader and every response of a generated history
//	             runs through Stream.ExecuteFlow; the verdict is read from the
//	             RetryRequestAction among the response actions and from the
//	             processor's output (hook H2). Cool-downs park the response on the
//	             harness-owned virtual clock (hook H1) and may stay parked while
//	             responses of other sequences are handled.
//	policy mode  the retry remedy (RetryPlugin.OnResponse) built on a virtual clock;
//	             histories also move the clock around the remedy's state lifetime.
//
// Every verdict is judged by the statement machine of model.go; a verdict it
// rejects is attributed to a listed finding only when the matching defect machine
// predicts the whole history of that sequence and the structural predicate holds.
package c17

import (
	"context"
	"crypto/md5"
	"crypto/sha1"
	"crypto/sha256"
	"encoding/hex"
	"fmt"
	"os"
	"runtime"
	"strings"
	"testing"
	"time"

	"lunar/engine/actions"
	"lunar/engine/config"
	lunarMessages "lunar/engine/messages"
	"lunar/engine/runner"
	"lunar/engine/services"
	"lunar/engine/services/remedies"
	"lunar/engine/streams"
	"lunar/engine/utils/limit"
	"lunar/engine/utils/obfuscation"
	sharedConfig "lunar/shared-model/config"
	"lunar/toolkit-core/logging"

	spoe "github.com/negasus/haproxy-spoe-go/action"
	"pgregory.net/rapid"

	"verif/harness/internal/engine"
	"verif/harness/internal/ev"
	"verif/harness/internal/loglevel"
	"verif/harness/internal/vclock"
)

// ---- generated case -----------------------------------------------------------------

type flowsCfg struct {
	Attempts int    `json:"attempts"`
	Cooldown int    `json:"cooldown_between_attempts_seconds"`
	Mult     string `json:"cooldown_multiplier"` // YAML literal
	Cond     string `json:"condition"`           // "filter" (Filter processor, status_code_range) | "flow" (flow filter status_code list)
	From     int    `json:"from,omitempty"`
	To       int    `json:"to,omitempty"`
	Codes    []int  `json:"codes,omitempty"`
	// Twin (cooldown 0 only): a second flow, filter h.com/*, matches the same calls and carries the same Retry
	// processor under the same processor key: two flows, two counters - each call is still retried at most the
	// configured number of times, and both processors say the same
	Twin bool `json:"second_flow_with_the_same_retry_processor_key,omitempty"`
}

type policyCfg struct {
	Attempts int      `json:"attempts"`
	Initial  int      `json:"initial_cooldown_seconds"`
	Mult     int      `json:"cooldown_multiplier"`
	Ranges   [][2]int `json:"status_ranges"`
}

type step struct {
	Seq     int  `json:"seq"`
	NewCall bool `json:"new_call,omitempty"`
	IDEq    bool `json:"id_is_sequence_id,omitempty"`
	Status  int  `json:"status"`
	Park    bool `json:"stay_in_cooldown,omitempty"`        // flows: leave the response parked in its cool-down while later steps run
	Adv     int  `json:"advance_seconds,omitempty"`         // policy: clock advance before the response
	AdvMs   int  `json:"advance_ms,omitempty"`              // policy: a further sub-second advance before the response
	Early   bool `json:"answered_by_the_gateway,omitempty"` // dispatcher unit: the response is an early response of a fixed_response remedy
	// dispatcher unit, with Early: the gateway's answer is that of a strategy-based throttling remedy whose share is
	// used up (the "too many requests" answer built by the remedies' common code), with this status
	Throttled bool `json:"by_a_throttling_remedy,omitempty"`
	// flows: the attempt's request message goes through the engine before its response, as the proxy sends them
	// (false: only the response message is handled)
	ReqLeg bool `json:"request_message_first,omitempty"`
}

type tcase struct {
	Flows  *flowsCfg  `json:"flows,omitempty"`
	Policy *policyCfg `json:"policy,omitempty"`
	Seqs   []string   `json:"sequence_ids"`
	Steps  []step     `json:"steps"`
}

func (c flowsCfg) inCond(status int) bool {
	if c.Cond == "filter" {
		return status >= c.From && status <= c.To
	}
	for _, k := range c.Codes {
		if k == status {
			return true
		}
	}
	return false
}

func (c policyCfg) inCond(status int) bool {
	for _, r := range c.Ranges {
		if status >= r[0] && status <= r[1] {
			return true
		}
	}
	return false
}

var seqPool = []string{"s1", "s11", "5e1f", "s1::retry_counter::s1", "a-b", "S1"}

// relatedSeqs: sequence ids (client text, x-lunar-sequence-id) that a key normalisation would map onto each other: a
// long id, its first 64 and 36 bytes, its SHA-256 / SHA-1 / MD5 in hex, its lower-case form, itself with a space.
// They are different sequences.
var relatedSeqs = func() []string {
	long := "Seq-7F3A-" + strings.Repeat("0123456789abcdef", 5)
	s256, s1, m5 := sha256.Sum256([]byte(long)), sha1.Sum([]byte(long)), md5.Sum([]byte(long))
	return []string{long, hex.EncodeToString(s256[:]), long[:64], strings.ToLower(long), hex.EncodeToString(s1[:]), hex.EncodeToString(m5[:]), long[:36], long + " "}
}()

func genSeqs(t *rapid.T) []string {
	if rapid.IntRange(0, 3).Draw(t, "related-seqs") == 0 {
		n := rapid.IntRange(2, 4).Draw(t, "nrel")
		perm := rapid.Permutation(relatedSeqs[1:]).Draw(t, "rel")
		return append([]string{relatedSeqs[0]}, perm[:n-1]...)
	}
	n := rapid.SampledFrom([]int{1, 2, 2, 3, 3, 4}).Draw(t, "nseq")
	perm := rapid.Permutation(seqPool).Draw(t, "seqs")
	return append([]string(nil), perm[:n]...)
}

// genSteps draws an interleaved history. Logical calls are explicit: the first
// response of a call carries the sequence id as its transaction id (HAProxy
// assigns the unique id to both); the responses of retried transactions carry
// either a fresh id (HAProxy generated one) or again the sequence id (the
// interceptors and the Lua retry re-send the x-lunar-req-id header), fixed per call.
func genSteps(t *rapid.T, nseq, attempts int, statuses []int, inCond func(int) bool, park bool, advs []int) []step {
	in, out := []int{}, []int{}
	for _, s := range statuses {
		if inCond(s) {
			in = append(in, s)
		} else {
			out = append(out, s)
		}
	}
	// raw, independent draws per step (so that rapid can delete steps while shrinking) ...
	type raw struct {
		Seq, First, NC, In, Status, Park, Adv int
		Reuse                                 bool
	}
	raws := rapid.SliceOfN(rapid.Custom(func(t *rapid.T) raw {
		r := raw{
			Seq:    rapid.IntRange(0, nseq-1).Draw(t, "seq"),
			First:  rapid.IntRange(0, 11).Draw(t, "first-is-stray"),
			NC:     rapid.IntRange(0, 2*attempts+3).Draw(t, "newcall"),
			Reuse:  rapid.Bool().Draw(t, "reuse-req-id"),
			In:     rapid.IntRange(0, 5).Draw(t, "out"),
			Status: rapid.IntRange(0, 15).Draw(t, "status"),
		}
		if park {
			r.Park = rapid.IntRange(0, 2).Draw(t, "park")
		}
		if advs != nil {
			r.Adv = rapid.IntRange(0, len(advs)-1).Draw(t, "adv")
		}
		return r
	}), 1, 36).Draw(t, "steps")
	// ... turned into a history of logical calls
	started := make([]bool, nseq)
	reuse := make([]bool, nseq)
	since := make([]int, nseq) // in-condition responses since the call started
	over := make([]bool, nseq) // the last response was outside the condition
	steps := []step{}
	for _, r := range raws {
		st := step{Seq: r.Seq}
		switch {
		case !started[st.Seq]:
			st.NewCall = r.First != 11 // the very first response on an id: a call start, rarely a stray transaction
		case over[st.Seq] || since[st.Seq] > attempts:
			st.NewCall = r.NC%3 != 0 // the call is over (as far as the client can tell): reuse the id for a new call, or a stray re-send
		default:
			st.NewCall = r.NC == 2*attempts+3 // abandon the call mid-way and reuse its id
		}
		if st.NewCall {
			st.IDEq = true
			reuse[st.Seq] = r.Reuse
		} else {
			st.IDEq = reuse[st.Seq] && started[st.Seq]
		}
		started[st.Seq] = true
		if len(out) == 0 || (len(in) > 0 && r.In != 5) {
			st.Status = in[r.Status%len(in)]
		} else {
			st.Status = out[r.Status%len(out)]
		}
		if st.NewCall {
			since[st.Seq] = 0
		}
		if inCond(st.Status) {
			since[st.Seq]++
			over[st.Seq] = false
		} else {
			over[st.Seq] = true
		}
		st.Park = park && r.Park == 2
		if advs != nil {
			st.Adv = advs[r.Adv]
		}
		steps = append(steps, st)
	}
	return steps
}

func genFlowsCase() *rapid.Generator[tcase] {
	return rapid.Custom(func(t *rapid.T) tcase {
		f := &flowsCfg{
			Attempts: rapid.SampledFrom([]int{1, 1, 2, 2, 3, 4}).Draw(t, "attempts"),
			Cooldown: rapid.SampledFrom([]int{0, 0, 1, 2}).Draw(t, "cooldown"),
			Mult:     rapid.SampledFrom([]string{"0", "0", "0.5", "1.0", "2.0", "1"}).Draw(t, "multiplier"),
			Cond:     rapid.SampledFrom([]string{"filter", "filter", "flow"}).Draw(t, "cond"),
		}
		var statuses []int
		if f.Cond == "filter" {
			r := rapid.SampledFrom([][2]int{{500, 599}, {429, 429}, {400, 504}, {502, 503}}).Draw(t, "range")
			f.From, f.To = r[0], r[1]
			statuses = []int{f.From - 1, f.From, (f.From + f.To) / 2, f.To, f.To + 1, 200}
		} else {
			f.Codes = rapid.SampledFrom([][]int{{500}, {500, 503}, {429, 502, 504}}).Draw(t, "codes")
			statuses = append([]int{200, 501, 404}, f.Codes...)
		}
		f.Twin = f.Cooldown == 0 && rapid.IntRange(0, 2).Draw(t, "twin") == 0
		c := tcase{Flows: f, Seqs: genSeqs(t)}
		c.Steps = genSteps(t, len(c.Seqs), f.Attempts, statuses, f.inCond, true, nil)
		// a third of the histories are slow: the provider takes its time, so seconds to minutes pass between the
		// responses of a sequence (the clock moves only while no response waits in a cool-down)
		slow := rapid.IntRange(0, 2).Draw(t, "slow") == 0
		for i := range c.Steps {
			c.Steps[i].ReqLeg = rapid.IntRange(0, 3).Draw(t, "request-leg") != 0
			if slow {
				c.Steps[i].Adv = rapid.SampledFrom([]int{0, 1, 8, 8, 25, 61, 200}).Draw(t, "seconds-before")
			}
		}
		return c
	})
}

func genPolicyCase() *rapid.Generator[tcase] {
	return rapid.Custom(func(t *rapid.T) tcase {
		p := &policyCfg{
			Attempts: rapid.SampledFrom([]int{1, 1, 2, 2, 3, 3, 4}).Draw(t, "attempts"),
			Initial:  rapid.SampledFrom([]int{0, 0, 1, 2, 5, 16, 20}).Draw(t, "initial"),
			Mult:     rapid.SampledFrom([]int{0, 1, 1, 2, 2, 3}).Draw(t, "multiplier"),
		}
		p.Ranges = rapid.SampledFrom([][][2]int{{{500, 599}}, {{429, 429}}, {{429, 429}, {500, 503}}, {{400, 401}, {400, 599}}, {{503, 503}, {500, 502}}}).Draw(t, "ranges")
		statuses := []int{200, 404}
		for _, r := range p.Ranges {
			statuses = append(statuses, r[0]-1, r[0], r[1], r[1]+1)
		}
		cd := p.Initial
		advs := []int{0, 0, 0, 0, 0, 0, 0, 0, 0, 0, 0, 0, 0, 0, 0, 0, 1, 1, 1, 2, p.Initial, p.Initial, p.Initial * p.Mult, 15, 29, 30, 31, 32, 31 + cd, 31 + cd*p.Mult, 30 + cd, 200}
		c := tcase{Policy: p, Seqs: genSeqs(t)}
		c.Steps = genSteps(t, len(c.Seqs), p.Attempts, statuses, p.inCond, false, advs)
		// answers do not arrive on whole seconds: one step in five is a further fraction of a second later
		for i := range c.Steps {
			if rapid.IntRange(0, 4).Draw(t, "sub-second") == 0 {
				c.Steps[i].AdvMs = rapid.SampledFrom([]int{1, 100, 500, 500, 900, 999}).Draw(t, "ms")
			}
		}
		return c
	})
}

// ---- judging --------------------------------------------------------------------------

type judge struct {
	r        *ev.Recorder
	c        tcase
	n        int
	finding  string
	S, D     *machine
	last     map[string]string // last verdict per sequence
	ended    map[string]string // how the previous call on this id ended: "failed" | "pass"
	exhaust  map[string]int
	nontriv  bool
	overlaps int
}

func newJudge(r *ev.Recorder, c tcase) *judge {
	j := &judge{r: r, c: c, last: map[string]string{}, ended: map[string]string{}, exhaust: map[string]int{}}
	if c.Flows != nil {
		j.n, j.finding = c.Flows.Attempts, "C17-F1"
		j.S = newMachine(j.n, false, variantStatement, 0)
		j.D = newMachine(j.n, false, variantFlowsLeak, 0)
	} else {
		j.n, j.finding = c.Policy.Attempts, "C17-F2"
		cd := int64(c.Policy.Initial)
		for i := 1; i < j.n; i++ {
			cd *= int64(c.Policy.Mult)
		}
		if int64(c.Policy.Initial) > cd {
			cd = int64(c.Policy.Initial)
		}
		j.S = newMachine(j.n, true, variantStatement, cd*1000)
		j.D = newMachine(j.n, true, variantPolicyIDEq, cd*1000)
	}
	return j
}

// observe judges one verdict. It returns an error text for a violation.
func (j *judge) observe(i int, e event, verdict string) string {
	r := j.r
	tainted := j.S.dead[e.Seq]
	var preS intset
	wants := []string{}
	if !tainted {
		preS = j.S.pre(e)
		wants = j.S.wants(e)
	}
	if !tainted && j.finding == "C17-F2" && e.InCond && e.IDEq && !e.NewCall && verdict == vRetry && preS[j.n] {
		j.D.armed[e.Seq] = true
	}
	okS := j.S.step(e, verdict)
	okD := j.D.step(e, verdict)
	if tainted {
		if !okD {
			return fmt.Sprintf("step %d (sequence %q, in-condition=%v): verdict %q agrees neither with the statement nor with the behaviour of the listed finding %s", i, e.Seq, e.InCond, verdict, j.finding)
		}
		r.Class("verdict-on-sequence-already-attributed-to-" + j.finding)
	} else if !okS {
		// the defect machine predicts every verdict of this sequence so far, and the history of the
		// sequence contains the defect's trigger (see machine.armed)
		attributable := okD && j.D.armed[e.Seq]
		if attributable && r.KnownFinding(j.finding, func() any {
			return map[string]any{"case": j.c, "step": i, "verdict": verdict, "statement_admits": wants}
		}) {
			r.Class("attributed-to-" + j.finding)
		} else {
			asked := ""
			if e.InCond {
				asked = fmt.Sprintf(" after %v retries asked since the sequence was last forgotten", preS.sorted())
			}
			return fmt.Sprintf("step %d (sequence %q, status in-condition=%v, new-call=%v, id==sequence-id=%v): verdict %q%s, attempts=%d; the statement admits %v",
				i, e.Seq, e.InCond, e.NewCall, e.IDEq, verdict, asked, j.n, wants)
		}
	}
	if !j.S.dead[e.Seq] && !j.D.dead[e.Seq] && j.S.atRest(e.Seq) && j.D.atRest(e.Seq) {
		j.D.armed[e.Seq] = false
	}
	// ---- evidence classes (never part of the verdict) ----
	r.Class("verdict:" + verdict)
	if e.InCond && verdict != vRetry && j.last[e.Seq] == vRetry {
		// the sequence has used up its attempts
		j.exhaust[e.Seq]++
		r.Class("exhaustion")
		if j.exhaust[e.Seq] >= 2 {
			r.Class("exhaustion-again-on-reused-id")
		}
		for _, s := range j.c.Seqs {
			if s != e.Seq && j.last[s] == vRetry {
				j.nontriv = true
			}
		}
		j.ended[e.Seq] = "failed"
	} else if e.InCond && verdict == vRetry {
		switch {
		case j.last[e.Seq] == vStop && j.ended[e.Seq] == "failed":
			r.Class("retry-on-id-reused-after-failure")
		case j.last[e.Seq] == vPass:
			r.Class("retry-on-id-reused-after-out-of-condition-end")
		case j.last[e.Seq] == vRetry && e.NewCall:
			r.Class("new-call-on-abandoned-sequence")
		}
		if !e.NewCall && e.IDEq {
			r.Class("retried-transaction-carries-sequence-id")
		}
	} else if !e.InCond && j.last[e.Seq] == vRetry {
		r.Class("out-of-condition-ends-live-sequence")
		j.ended[e.Seq] = "pass"
	}
	if !tainted && preS != nil && len(preS) > 1 {
		r.Class("several-counts-admitted(tolerance)")
	}
	j.last[e.Seq] = verdict
	return ""
}

// ---- flows mode runner -----------------------------------------------------------------

func flowYAML(f flowsCfg) string { return flowYAMLNamed(f, "rflow", "h.com/r") }

func flowYAMLNamed(f flowsCfg, name, url string) string {
	var b strings.Builder
	fmt.Fprintf(&b, "name: %s\nfilter:\n  url: %q\n", name, url)
	if f.Cond == "flow" {
		parts := []string{}
		for _, k := range f.Codes {
			parts = append(parts, fmt.Sprint(k))
		}
		fmt.Fprintf(&b, "  status_code: [%s]\n", strings.Join(parts, ", "))
	}
	b.WriteString("processors:\n")
	if f.Cond == "filter" {
		fmt.Fprintf(&b, "  Flt:\n    processor: Filter\n    parameters:\n      - key: status_code_range\n        value: \"%d-%d\"\n", f.From, f.To)
	}
	fmt.Fprintf(&b, "  Rt:\n    processor: Retry\n    parameters:\n      - key: attempts\n        value: %d\n      - key: cooldown_between_attempts_seconds\n        value: %d\n      - key: cooldown_multiplier\n        value: %s\n", f.Attempts, f.Cooldown, f.Mult)
	sStart := "        stream:\n          name: globalStream\n          at: start\n"
	sEnd := "        stream:\n          name: globalStream\n          at: end\n"
	proc := func(name, cond string) string {
		s := "        processor:\n          name: " + name + "\n"
		if cond != "" {
			s += "          condition: " + cond + "\n"
		}
		return s
	}
	conn := func(from, to string) string { return "    - from:\n" + from + "      to:\n" + to }
	b.WriteString("flow:\n  request:\n")
	b.WriteString(conn(sStart, sEnd))
	b.WriteString("  response:\n")
	if f.Cond == "filter" {
		b.WriteString(conn(sStart, proc("Flt", "")))
		b.WriteString(conn(proc("Flt", "hit"), proc("Rt", "")))
		b.WriteString(conn(proc("Flt", "miss"), sEnd))
	} else {
		b.WriteString(conn(sStart, proc("Rt", "")))
	}
	b.WriteString(conn(proc("Rt", "retry"), sEnd))
	b.WriteString(conn(proc("Rt", "failed"), sEnd))
	return b.String()
}

var (
	scratch string
	gclk    *vclock.Clock
)

func TestMain(m *testing.M) {
	engine.Setup()
	gclk = vclock.New(time.Unix(1_700_000_000, 0))
	engine.SetClock(gclk)
	base := os.Getenv("VERIF_SCRATCH")
	if base == "" {
		base = os.TempDir()
	}
	d, err := os.MkdirTemp(base, "c17-")
	if err != nil {
		fmt.Println("VERIF-INFRA: cannot create scratch dir:", err)
		os.Exit(2)
	}
	scratch = d
	code := m.Run()
	os.RemoveAll(d)
	os.Exit(code)
}

type infraErr struct{ msg string }

func (e infraErr) Error() string { return "VERIF-INFRA: " + e.msg }

const retryOwner = "retryProcessor).Execute"

type inflight struct {
	step  int
	timer int
	done  chan engine.Result
}

type watchdog struct {
	i  int
	t0 time.Time
}

// spin yields; the wall clock is only a watchdog that turns a hang into "inconclusive".
func (w *watchdog) spin(what string) error {
	runtime.Gosched()
	w.i++
	if w.i == 2000 {
		w.t0 = time.Now()
	}
	if w.i > 2000 && w.i%1000 == 0 && time.Since(w.t0) > 20*time.Second {
		return infraErr{what}
	}
	return nil
}

func retryTimers() map[int]bool {
	o := map[int]bool{}
	for _, p := range gclk.Pending() {
		if strings.Contains(p.Owner, retryOwner) {
			o[p.ID] = true
		}
	}
	return o
}

// flowsVerdict reads the verdict of a completed response from the actions and the H2 events.
// twinFlows: the case that is running has the second flow (set by runFlows)
var twinFlows bool

func flowsVerdict(res engine.Result, evs []engine.ProcEvent, inCond bool) (string, string) {
	if res.Err != nil {
		return "", fmt.Sprintf("ExecuteFlow error: %v", res.Err)
	}
	nAct := 0
	for _, k := range res.RespKinds {
		if k == "retry" {
			nAct++
		}
	}
	outs, twin := []string{}, []string{}
	for _, e := range evs {
		if e.Key == "Rt" && e.Flow == "rflow2" {
			twin = append(twin, e.Output)
		} else if e.Key == "Rt" {
			outs = append(outs, e.Output)
		}
	}
	if twinFlows {
		// the second flow's processor has seen the same responses with the same settings: it says the same, and
		// every `retry` of it is one more retry action on the response
		if fmt.Sprint(twin) != fmt.Sprint(outs) {
			return "", fmt.Sprintf("two flows carry the same Retry processor: the first one's says %v, the second one's %v for the same response", outs, twin)
		}
		if len(twin) == 1 && twin[0] == "retry" {
			nAct--
		}
	}
	if len(outs) > 1 {
		return "", fmt.Sprintf("the Retry processor ran %d times for one response (%v)", len(outs), outs)
	}
	if len(outs) == 0 {
		if nAct > 0 {
			return vRetry, ""
		}
		if inCond {
			return "", "the response satisfies the retry condition but the Retry processor did not run"
		}
		return vPass, ""
	}
	switch outs[0] {
	case "retry":
		if nAct != 1 {
			return "", fmt.Sprintf("the Retry processor's output is `retry` but the response carries %d retry actions", nAct)
		}
		return vRetry, ""
	case "failed":
		if nAct != 0 {
			return vRetry, ""
		}
		if inCond {
			return vStop, ""
		}
		return vPass, ""
	}
	return "", fmt.Sprintf("the Retry processor produced the unknown output %q", outs[0])
}

func loadFlows(c tcase) (*streams.Stream, *engine.Dir, error) {
	dir, e := engine.NewDir(scratch)
	if e != nil {
		return nil, nil, infraErr{e.Error()}
	}
	if e := dir.WriteFlow("r.yaml", flowYAML(*c.Flows)); e != nil {
		dir.Remove()
		return nil, nil, infraErr{e.Error()}
	}
	if c.Flows.Twin {
		if e := dir.WriteFlow("r2.yaml", flowYAMLNamed(*c.Flows, "rflow2", "h.com/*")); e != nil {
			dir.Remove()
			return nil, nil, infraErr{e.Error()}
		}
	}
	s, e := dir.Load()
	if e != nil {
		dir.Remove()
		return nil, nil, infraErr{fmt.Sprintf("generated configuration was rejected: %v\n%s", e, flowYAML(*c.Flows))}
	}
	return s, dir, nil
}

// runFlows returns ("", nil) when the history satisfies the property.
func runFlows(r *ev.Recorder, rec *engine.Recorder, c tcase) (bool, string, error) {
	s, dir, err := loadFlows(c)
	if err != nil {
		return false, "", err
	}
	defer dir.Remove()
	twinFlows = c.Flows.Twin
	defer func() { twinFlows = false }()
	if twinFlows {
		r.Class("two flows with the same Retry processor key match the call")
	}
	j := newJudge(r, c)
	parked := map[string]*inflight{}
	order := []string{}

	finish := func(p *inflight, inCond bool) (string, string, error) {
		w := &watchdog{}
		for {
			select {
			case res := <-p.done:
				v, bad := flowsVerdict(res, rec.Take(), inCond)
				return v, bad, nil
			default:
			}
			if twinFlows {
				// the second flow's Retry processor cools down after the first one's: its timer belongs to this
				// response too (the timers of responses that stay parked are left alone)
				for tid := range retryTimers() {
					mine := tid != p.timer
					for _, q := range parked {
						if q.timer == tid {
							mine = false
						}
					}
					if mine {
						gclk.Fire(tid)
					}
				}
			}
			if e := w.spin("a response released from its cool-down did not complete"); e != nil {
				return "", "", e
			}
		}
	}
	release := func(seq string) (string, error) {
		p := parked[seq]
		delete(parked, seq)
		for k, s := range order {
			if s == seq {
				order = append(order[:k], order[k+1:]...)
				break
			}
		}
		rec.Take()
		if !gclk.Fire(p.timer) {
			return "", infraErr{"cool-down timer vanished"}
		}
		v, bad, e := finish(p, true)
		if e != nil {
			return "", e
		}
		if bad != "" {
			return fmt.Sprintf("step %d: %s", p.step, bad), nil
		}
		if v != vRetry {
			return fmt.Sprintf("step %d: the response waited in a cool-down but ended with verdict %q", p.step, v), nil
		}
		return "", nil
	}
	defer func() {
		// never leave goroutines parked on the process-wide clock
		for _, p := range parked {
			gclk.Fire(p.timer)
			<-p.done
		}
		rec.Take()
	}()

	for i, st := range c.Steps {
		seq := c.Seqs[st.Seq]
		if parked[seq] != nil {
			if bad, e := release(seq); e != nil || bad != "" {
				return j.nontriv, bad, e
			}
		}
		id := fmt.Sprintf("t%d", i)
		if st.IDEq {
			id = seq
		}
		if st.Adv > 0 && len(parked) == 0 {
			gclk.Advance(time.Duration(st.Adv) * time.Second)
			r.Class("time passes between the responses of the history")
		}
		e := event{Seq: seq, IDEq: st.IDEq, NewCall: st.NewCall, InCond: c.Flows.inCond(st.Status)}
		if e.InCond {
			r.Class("in-condition")
		} else {
			r.Class("out-of-condition")
		}
		if st.ReqLeg {
			r.Class("request message handled before the response")
			if res := engine.RunRequest(s, engine.Txn{ID: id, Seq: seq, Method: "GET", URL: "h.com/r", Path: "/r", Headers: map[string]string{"host": "h.com"}}); res.Err != nil {
				return j.nontriv, fmt.Sprintf("step %d: the request message of the attempt was not handled: %v", i, res.Err), nil
			}
		}
		rec.Take()
		before := retryTimers()
		p := &inflight{step: i, timer: -1, done: make(chan engine.Result, 1)}
		txn := engine.Txn{ID: id, Seq: seq, Method: "GET", URL: "h.com/r", Status: st.Status, Headers: map[string]string{}}
		go func() { p.done <- engine.RunResponse(s, txn) }()
		w := &watchdog{}
		var res engine.Result
		completed := false
		for !completed && p.timer < 0 {
			select {
			case res = <-p.done:
				completed = true
				continue
			default:
			}
			for tid := range retryTimers() {
				if !before[tid] {
					p.timer = tid
				}
			}
			if p.timer < 0 {
				if e := w.spin("a response neither completed nor reached a cool-down"); e != nil {
					return j.nontriv, "", e
				}
			}
		}
		verdict, bad := "", ""
		if completed {
			verdict, bad = flowsVerdict(res, rec.Take(), e.InCond)
		} else if st.Park {
			// the verdict is fixed before the cool-down starts: only `retry` waits
			r.Class("response-stays-in-cooldown")
			if len(parked) > 0 {
				r.Class("cooldowns-overlap")
			}
			parked[seq] = p
			order = append(order, seq)
			verdict = vRetry
		} else {
			r.Class("cooldown-released-at-once")
			if !gclk.Fire(p.timer) {
				return j.nontriv, "", infraErr{"cool-down timer vanished"}
			}
			var e2 error
			verdict, bad, e2 = finish(p, e.InCond)
			if e2 != nil {
				return j.nontriv, "", e2
			}
		}
		if bad != "" {
			return j.nontriv, fmt.Sprintf("step %d: %s", i, bad), nil
		}
		if msg := j.observe(i, e, verdict); msg != "" {
			return j.nontriv, msg, nil
		}
	}
	for len(order) > 0 {
		if bad, e := release(order[0]); e != nil || bad != "" {
			return j.nontriv, bad, e
		}
	}
	return j.nontriv, "", nil
}

// ---- policy mode runner -------------------------------------------------------------------

func settle(clk *vclock.Clock, g0 int) error {
	w := &watchdog{}
	for runtime.NumGoroutine() != g0+len(clk.Pending()) {
		if e := w.spin(fmt.Sprintf("goroutines did not settle: %d running, %d before the case, %d pending timers", runtime.NumGoroutine(), g0, len(clk.Pending()))); e != nil {
			return e
		}
	}
	return nil
}

func runPolicy(r *ev.Recorder, c tcase) (bool, string, error) { return runPolicyVia(r, c, false) }

// runPolicyVia drives the retry remedy either directly (plugin.OnResponse) or through the dispatcher of
// policy mode: provider responses through runner.DispatchOnResponse, responses the gateway gives by itself
// (a fixed_response remedy on the endpoint of that status) through runner.DispatchOnRequest, whose early
// response runs through the response-side remedies.
// longLived: one retry plugin (and its clock) that serves every case of a unit, as the gateway's single retry
// plugin serves every sequence of its life; each case uses sequence ids of its own.
type longLived struct {
	clk    *vclock.Clock
	plugin *remedies.RetryPlugin
	cases  int
}

func runPolicyVia(r *ev.Recorder, c tcase, dispatcher bool) (bool, string, error) {
	return runPolicyOn(r, c, dispatcher, nil)
}

func runPolicyOn(r *ev.Recorder, c tcase, dispatcher bool, ll *longLived) (bool, string, error) {
	g0 := runtime.NumGoroutine()
	clk := vclock.New(time.Unix(1_700_000_000, 0))
	plugin := remedies.NewRetryPlugin(clk)
	if ll != nil {
		clk, plugin = ll.clk, ll.plugin
		ll.cases++
		seqs := make([]string, len(c.Seqs))
		for i, s := range c.Seqs {
			seqs[i] = fmt.Sprintf("L%d-%s", ll.cases, s)
		}
		c.Seqs = seqs
	}
	cfg := &sharedConfig.RetryConfig{Attempts: c.Policy.Attempts, InitialCooldownSeconds: c.Policy.Initial, CooldownMultiplier: c.Policy.Mult}
	for _, rg := range c.Policy.Ranges {
		cfg.Conditions.StatusCode = append(cfg.Conditions.StatusCode, sharedConfig.Range[int]{From: rg[0], To: rg[1]})
	}
	var tree *config.EndpointPolicyTree
	var pc *sharedConfig.PoliciesConfig
	var svc *services.PoliciesServices
	if dispatcher {
		pc = &sharedConfig.PoliciesConfig{Global: sharedConfig.Global{Remedies: []sharedConfig.Remedy{{Name: "retry", Enabled: true, Config: sharedConfig.RemedyConfig{Retry: cfg}}}}}
		seen := map[int]bool{}
		for _, st := range c.Steps {
			if !seen[st.Status] {
				seen[st.Status] = true
				pc.Endpoints = append(pc.Endpoints, sharedConfig.EndpointConfig{URL: fmt.Sprintf("h.com/s%d", st.Status), Method: "GET", Diagnosis: []sharedConfig.Diagnosis{},
					Remedies: []sharedConfig.Remedy{{Name: fmt.Sprintf("fixed%d", st.Status), Enabled: true, Config: sharedConfig.RemedyConfig{FixedResponse: &sharedConfig.FixedResponseConfig{StatusCode: st.Status}}}}})
			}
		}
		throttled := map[int]bool{}
		for _, st := range c.Steps {
			if st.Early && st.Throttled && !throttled[st.Status] {
				throttled[st.Status] = true
				pc.Endpoints = append(pc.Endpoints, sharedConfig.EndpointConfig{URL: fmt.Sprintf("h.com/q%d", st.Status), Method: "GET", Diagnosis: []sharedConfig.Diagnosis{},
					Remedies: []sharedConfig.Remedy{{Name: fmt.Sprintf("throttle%d", st.Status), Enabled: true, Config: sharedConfig.RemedyConfig{StrategyBasedThrottling: &sharedConfig.StrategyBasedThrottlingConfig{
						AllowedRequestCount: 1, WindowSizeInSeconds: 100_000_000, ResponseStatusCode: st.Status}}}}})
			}
		}
		var err error
		if tree, err = config.BuildEndpointPolicyTree(pc.Endpoints); err != nil {
			return false, "", infraErr{"policy tree rejected: " + err.Error()}
		}
		thr, terr := remedies.NewStrategyBasedThrottlingPlugin(context.Background(), clk, nil, limit.NewRateLimitState(clk, logging.ContextLogger{}),
			obfuscation.Obfuscator{Hasher: obfuscation.IdentityHasher{}})
		if terr != nil {
			return false, "", infraErr{"throttling plugin: " + terr.Error()}
		}
		svc = &services.PoliciesServices{Remedies: services.RemedyPlugins{RetryPlugin: plugin, FixedResponsePlugin: remedies.NewFixedResponsePlugin(clk), StrategyBasedThrottlingPlugin: thr}}
		// use the one request each throttling remedy admits, so that every further one is answered by the gateway
		for status := range throttled {
			acts, err := runner.DispatchOnRequest(lunarMessages.OnRequest{ID: fmt.Sprintf("prime%d", status), SequenceID: fmt.Sprintf("prime%d", status), Method: "GET", Scheme: "https",
				URL: fmt.Sprintf("h.com/q%d", status), Path: fmt.Sprintf("/q%d", status), Headers: map[string]string{"host": "h.com"}}, tree, pc, svc, nil)
			if err != nil {
				return false, "", infraErr{"priming request: " + err.Error()}
			}
			for _, a := range acts {
				if a.Name == actions.StatusCodeActionName {
					return false, "", infraErr{"the first request of a throttling remedy that allows one was answered by the gateway"}
				}
			}
		}
	}
	j := newJudge(r, c)
	defer func() {
		// let every time-to-live goroutine of this case finish (and, for a long-lived plugin, every entry expire)
		clk.Advance(100000 * time.Second)
		_ = settle(clk, g0)
	}()
	now := int64(0)
	for i, st := range c.Steps {
		seq := c.Seqs[st.Seq]
		if st.Adv > 0 || st.AdvMs > 0 {
			clk.Advance(time.Duration(st.Adv)*time.Second + time.Duration(st.AdvMs)*time.Millisecond)
			now += int64(st.Adv)*1000 + int64(st.AdvMs)
			if e := settle(clk, g0); e != nil {
				return j.nontriv, "", e
			}
		}
		id := fmt.Sprintf("t%d", i)
		if st.IDEq {
			id = seq
		}
		e := event{Seq: seq, IDEq: st.IDEq, NewCall: st.NewCall, InCond: c.Policy.inCond(st.Status), Now: now}
		if e.InCond {
			r.Class("in-condition")
		} else {
			r.Class("out-of-condition")
		}
		if j.S.mayHaveExpired(seq, now) && !j.S.dead[seq] {
			r.Class("state-lifetime-may-have-passed")
		}
		if dispatcher {
			url := fmt.Sprintf("h.com/s%d", st.Status)
			if st.Early && st.Throttled {
				url = fmt.Sprintf("h.com/q%d", st.Status)
				r.Class("answered by a throttling remedy")
			}
			var acts spoe.Actions
			var err error
			hdrVar := actions.ResponseHeadersActionName
			if st.Early {
				r.Class("answered by the gateway itself")
				acts, err = runner.DispatchOnRequest(lunarMessages.OnRequest{ID: id, SequenceID: seq, Method: "GET", Scheme: "https", URL: url, Path: url[strings.Index(url, "/"):],
					Headers: map[string]string{"host": "h.com", "early-response": "true"}}, tree, pc, svc, nil)
			} else {
				acts, err = runner.DispatchOnResponse(lunarMessages.OnResponse{ID: id, SequenceID: seq, Method: "GET", URL: url, Status: st.Status, Headers: map[string]string{}}, tree, &pc.Global, svc, nil)
			}
			if e2 := settle(clk, g0); e2 != nil {
				return j.nontriv, "", e2
			}
			if err != nil {
				return j.nontriv, fmt.Sprintf("step %d: dispatcher error: %v", i, err), nil
			}
			verdict := vStop
			if !e.InCond {
				verdict = vPass
			}
			for _, a := range acts {
				if a.Name == hdrVar {
					if s, _ := a.Value.(string); strings.Contains(s, remedies.LunarRetryAfterHeaderName+":") {
						verdict = vRetry
					}
				}
				if st.Early && a.Name == actions.StatusCodeActionName {
					if got, _ := a.Value.(int); got != st.Status {
						return j.nontriv, fmt.Sprintf("step %d: the gateway's own answer has status %v, configured %d", i, a.Value, st.Status), nil
					}
				}
			}
			if msg := j.observe(i, e, verdict); msg != "" {
				return j.nontriv, msg, nil
			}
			continue
		}
		act, err := plugin.OnResponse(lunarMessages.OnResponse{ID: id, SequenceID: seq, Method: "GET", URL: "h.com/r", Status: st.Status, Headers: map[string]string{}}, cfg)
		if e2 := settle(clk, g0); e2 != nil {
			return j.nontriv, "", e2
		}
		if err != nil {
			return j.nontriv, fmt.Sprintf("step %d: OnResponse error: %v", i, err), nil
		}
		verdict := ""
		switch a := act.(type) {
		case *actions.NoOpAction:
			verdict = vStop
			if !e.InCond {
				verdict = vPass
			}
		case *actions.ModifyResponseAction:
			if _, ok := a.HeadersToSet[remedies.LunarRetryAfterHeaderName]; ok {
				verdict = vRetry
			} else {
				return j.nontriv, fmt.Sprintf("step %d: response modified without %s", i, remedies.LunarRetryAfterHeaderName), nil
			}
		default:
			return j.nontriv, fmt.Sprintf("step %d: unexpected action %T", i, act), nil
		}
		if msg := j.observe(i, e, verdict); msg != "" {
			return j.nontriv, msg, nil
		}
	}
	return j.nontriv, "", nil
}

// ---- tests -----------------------------------------------------------------------------------

func fatal(t interface{ Fatalf(string, ...any) }, r *ev.Recorder, c tcase, bad string, err error) {
	if err != nil {
		if _, infra := err.(infraErr); infra {
			fmt.Println(err.Error())
		}
		t.Fatalf("%v", err)
	}
	if bad != "" {
		t.Fatalf("%s", r.Fail(c, "%s", bad))
	}
}

func TestFlowsRetryBound(t *testing.T) {
	r := ev.New(t, "C17")
	rec := engine.Capture(0)
	defer rec.Stop()
	rapid.Check(t, func(t *rapid.T) {
		c := genFlowsCase().Draw(t, "case")
		level := loglevel.Gen().Draw(t, "log level")
		r.Class("log level " + level)
		defer loglevel.Set(level)()
		r.Case()
		r.Class(fmt.Sprintf("attempts=%d", c.Flows.Attempts))
		r.Class("condition:" + c.Flows.Cond)
		nt, bad, err := runFlows(r, rec, c)
		fatal(t, r, c, bad, err)
		if nt {
			r.NonTrivial(ev.JSON(c), func() any { return c })
		}
	})
}

// TestPolicyRetryThroughDispatcher: the same histories, every response routed through the policy-mode
// dispatcher; half of the responses are given by the gateway itself (fixed_response remedy).
func TestPolicyRetryThroughDispatcher(t *testing.T) {
	r := ev.New(t, "C17")
	rapid.Check(t, func(t *rapid.T) {
		c := genPolicyCase().Draw(t, "case")
		for i := range c.Steps {
			c.Steps[i].Early = rapid.Bool().Draw(t, "early")
			c.Steps[i].Throttled = c.Steps[i].Early && c.Steps[i].Status >= 400 && rapid.Bool().Draw(t, "throttled")
		}
		level := loglevel.Gen().Draw(t, "log level")
		r.Class("log level " + level)
		defer loglevel.Set(level)()
		r.Case()
		nt, bad, err := runPolicyVia(r, c, true)
		if err != nil || bad != "" {
			fatal(t, r, c, bad, err)
		}
		if nt {
			r.NonTrivial(ev.JSON(c), func() any { return c })
		}
	})
}

// TestPolicyRetryLongLivedPlugin: the policy histories against ONE plugin instance for the whole unit (thousands
// of finished sequences before a given one), every case with sequence ids of its own. A failure depends on the
// cases before it: the replay is the run with the same seed, the reported case is the one that failed first.
func TestPolicyRetryLongLivedPlugin(t *testing.T) {
	r := ev.New(t, "C17")
	clk := vclock.New(time.Unix(1_700_000_000, 0))
	ll := &longLived{clk: clk, plugin: remedies.NewRetryPlugin(clk)}
	rapid.Check(t, func(t *rapid.T) {
		c := genPolicyCase().Draw(t, "case")
		r.Case()
		nt, bad, err := runPolicyOn(r, c, false, ll)
		if bad != "" {
			bad = fmt.Sprintf("%s (case %d on this plugin instance)", bad, ll.cases)
		}
		if err != nil || bad != "" {
			fatal(t, r, c, bad, err)
		}
		if nt {
			r.NonTrivial(ev.JSON(c), func() any { return c })
		}
	})
}

func TestPolicyRetryBound(t *testing.T) {
	r := ev.New(t, "C17")
	rapid.Check(t, func(t *rapid.T) {
		c := genPolicyCase().Draw(t, "case")
		level := loglevel.Gen().Draw(t, "log level")
		r.Class("log level " + level)
		defer loglevel.Set(level)()
		r.Case()
		r.Class(fmt.Sprintf("attempts=%d", c.Policy.Attempts))
		nt, bad, err := runPolicy(r, c)
		fatal(t, r, c, bad, err)
		if nt {
			r.NonTrivial(ev.JSON(c), func() any { return c })
		}
	})
}

// ---- witnesses and fixed regression histories ----------------------------------------------------

// C17-F1: attempts=1. Call 1 on id s1: 500 -> retry, 200 -> passes (ends the sequence).
// Call 2 reusing s1: 500 must be retried again; the surviving counter makes it `failed`.
func witnessF1() tcase {
	return tcase{Flows: &flowsCfg{Attempts: 1, Mult: "0", Cond: "filter", From: 500, To: 599}, Seqs: []string{"s1"},
		Steps: []step{{NewCall: true, IDEq: true, Status: 500}, {Status: 200}, {NewCall: true, IDEq: true, Status: 500}}}
}

// C17-F2: attempts=1. The first response (id == sequence id) is retried; the response of the
// retried transaction, which carries the same x-lunar-req-id and therefore the same id, must not
// be retried again.
func witnessF2() tcase {
	return tcase{Policy: &policyCfg{Attempts: 1, Ranges: [][2]int{{500, 599}}}, Seqs: []string{"s1"},
		Steps: []step{{NewCall: true, IDEq: true, Status: 500}, {IDEq: true, Status: 500}}}
}

func TestWitnessFlowsCounterSurvivesOutOfConditionResponse(t *testing.T) {
	r := ev.New(t, "C17")
	rec := engine.Capture(0)
	defer rec.Stop()
	c := witnessF1()
	r.Case()
	_, bad, err := runFlows(r, rec, c)
	fatal(t, r, c, bad, err)
}

func TestWitnessPolicyRetriedTransactionWithSequenceIDAsID(t *testing.T) {
	r := ev.New(t, "C17")
	c := witnessF2()
	r.Case()
	_, bad, err := runPolicy(r, c)
	fatal(t, r, c, bad, err)
}

// Fixed histories that must hold on any tree (no finding involved): the bound, the failure
// report, the fresh start after a failure and after an out-of-condition end, two interleaved
// sequences of which one is exhausted while the other is mid-way.
func TestFixedHistories(t *testing.T) {
	r := ev.New(t, "C17")
	rec := engine.Capture(0)
	defer rec.Stop()
	in, out := 503, 200
	hist := func(n int) []step {
		s := []step{{Seq: 0, NewCall: true, IDEq: true, Status: in}, {Seq: 1, NewCall: true, IDEq: true, Status: in}}
		for i := 0; i < n; i++ {
			s = append(s, step{Seq: 0, Status: in}) // the last one is the failure report of sequence 0; sequence 1 is mid-way
		}
		s = append(s, step{Seq: 0, NewCall: true, IDEq: true, Status: in}) // reuse after failure: afresh
		for i := 0; i < n; i++ {
			s = append(s, step{Seq: 0, Status: in})
		}
		s = append(s, step{Seq: 1, Status: out})                            // ends sequence 1
		s = append(s, step{Seq: 2, NewCall: true, IDEq: true, Status: out}) // never retried
		return s
	}
	for n := 1; n <= 4; n++ {
		for _, c := range []tcase{
			{Flows: &flowsCfg{Attempts: n, Cooldown: 1, Mult: "1.0", Cond: "filter", From: 500, To: 599}, Seqs: []string{"a", "b", "c"}, Steps: hist(n)},
			{Flows: &flowsCfg{Attempts: n, Mult: "0", Cond: "flow", Codes: []int{503}}, Seqs: []string{"a", "b", "c"}, Steps: hist(n)},
			{Policy: &policyCfg{Attempts: n, Initial: 2, Mult: 2, Ranges: [][2]int{{500, 599}}}, Seqs: []string{"a", "b", "c"}, Steps: hist(n)},
		} {
			r.Case()
			var nt bool
			var bad string
			var err error
			if c.Flows != nil {
				nt, bad, err = runFlows(r, rec, c)
			} else {
				nt, bad, err = runPolicy(r, c)
			}
			fatal(t, r, c, bad, err)
			if !nt {
				t.Fatalf("%s", r.Fail(c, "the fixed history did not reach an exhaustion while another sequence was mid-way"))
			}
			r.NonTrivial(ev.JSON(c), func() any { return c })
		}
	}
}
