// Reference models for C17.
//
// The statement machine is an independent reading of the property text:
//
//	"For one logical call (sequence), the gateway asks for at most the configured
//	 number of retries, after which it reports failure and forgets the sequence, so
//	 a later call reusing the counter starts afresh. A response outside the retry
//	 conditions never triggers a retry and ends the sequence."
//
// Per sequence id it keeps the *set* of retry counts the statement allows at this
// point (0 = nothing remembered). Where the statement is silent the set grows
// (a new logical call on an id whose previous call was abandoned mid-way may
// continue the old count or start afresh; policy-mode state may be dropped once a
// time-to-live of at least minStateLifetime has passed since it was written), and
// each observed verdict must be admissible from at least one member.
//
// The two defect machines reproduce the implementation where it deviates:
//
//	variantFlowsLeak   (C17-F1) the flows-mode counter is only removed by `failed`;
//	                   a response outside the retry condition leaves it in place.
//	variantPolicyIDEq  (C17-F2) the policy-mode remedy deletes its state with the
//	                   last allowed retry and recognises exhaustion only by
//	                   "transaction id != sequence id"; a retried transaction that
//	                   carries the sequence id as its id is taken for a new sequence.
package c17

import "sort"

const (
	vRetry = "retry" // the gateway asks for a retry
	vStop  = "stop"  // in-condition response, no retry asked (flows: output `failed`; policy: no-op)
	vPass  = "pass"  // out-of-condition response, no retry asked
)

const (
	variantStatement = iota
	variantFlowsLeak
	variantPolicyIDEq
)

// minStateLifetime is the shortest time the policy-mode remedy keeps a sequence
// (transaction timeout 30 s + network buffer 1 s + a cool-down >= 0). The
// statement says nothing about expiry, so from this age on forgetting is
// accepted and before it is not.
const minStateLifetime = 31_000 // milliseconds

type event struct {
	Seq     string
	IDEq    bool // transaction id == sequence id
	NewCall bool // first response of a logical call (generator's intent)
	InCond  bool
	Now     int64 // milliseconds on the virtual clock (policy mode)
}

type intset map[int]bool

func (s intset) sorted() []int {
	o := []int{}
	for k := range s {
		o = append(o, k)
	}
	sort.Ints(o)
	return o
}

func (s intset) clone() intset {
	o := intset{}
	for k := range s {
		o[k] = true
	}
	return o
}

type machine struct {
	n       int
	policy  bool
	variant int
	cdMax   int64              // largest cool-down the remedy can add to a state's lifetime
	st      map[string]intset  // nil entry = never seen (= {0})
	dead    map[string]bool    // the machine rejected a verdict of this sequence
	sets    map[string][]int64 // policy: instants at which state may have been written (retry verdicts)
	// bookkeeping for the structural predicates of the defect machines: armed[seq] is set when the
	// history of seq contains the trigger of the defect —
	//   variantFlowsLeak:  an out-of-condition response met a counter > 0 (which survives it);
	//   variantPolicyIDEq: an in-condition response that is not a call start and carries the
	//                      sequence id as its id was retried although, in a reading the statement
	//                      machine still held possible, the call had used up its attempts
	//                      (set by the judge, which sees both machines).
	// The judge clears it when statement and defect machine are both back at "nothing remembered".
	armed map[string]bool
}

func newMachine(n int, policy bool, variant int, cdMax int64) *machine {
	return &machine{n: n, policy: policy, variant: variant, cdMax: cdMax,
		st: map[string]intset{}, dead: map[string]bool{}, sets: map[string][]int64{}, armed: map[string]bool{}}
}

func (m *machine) state(seq string) intset {
	if s, ok := m.st[seq]; ok {
		return s
	}
	return intset{0: true}
}

// mayHaveExpired: some write of this sequence's state is at least minStateLifetime
// old, and its deletion (due between age minStateLifetime and minStateLifetime+cdMax)
// can have happened after the newest write.
func (m *machine) mayHaveExpired(seq string, now int64) bool {
	ws := m.sets[seq]
	if len(ws) == 0 {
		return false
	}
	last := ws[len(ws)-1]
	for _, t := range ws {
		if t+minStateLifetime <= now && t+minStateLifetime+m.cdMax >= last {
			return true
		}
	}
	return false
}

// pre returns the set of counts possible just before e is judged.
func (m *machine) pre(e event) intset {
	s := m.state(e.Seq).clone()
	if m.variant == variantStatement && e.NewCall {
		s[0] = true // a new call on an id: afresh, or (previous call abandoned) continuing — the statement does not say
	}
	if m.policy && m.mayHaveExpired(e.Seq, e.Now) {
		s[0] = true
	}
	return s
}

// admissible maps every verdict the machine accepts for e to the resulting set of counts.
func (m *machine) admissible(e event) map[string]intset {
	out := map[string]intset{}
	add := func(v string, k int) {
		if out[v] == nil {
			out[v] = intset{}
		}
		out[v][k] = true
	}
	s := m.pre(e)
	if !e.InCond {
		if m.variant == variantFlowsLeak {
			for k := range s {
				add(vPass, k) // the counter survives
			}
		} else {
			add(vPass, 0)
		}
		return out
	}
	for k := range s {
		switch m.variant {
		case variantStatement:
			switch {
			case k == 0 && e.NewCall:
				add(vRetry, 1)
			case k == 0:
				// a response nobody asked for on a forgotten sequence: "a later call reusing the
				// counter starts afresh" (retry) and "not a known sequence" (no retry) are both readings
				add(vRetry, 1)
				add(vStop, 0)
			case k < m.n:
				add(vRetry, k+1)
			default:
				add(vStop, 0)
			}
		case variantFlowsLeak:
			if k+1 > m.n {
				add(vStop, 0)
			} else {
				add(vRetry, k+1)
			}
		case variantPolicyIDEq:
			// counts are kept as "retries asked"; the remedy deletes its state with the n-th retry
			if k == 0 {
				if e.IDEq {
					if m.n == 1 {
						add(vRetry, 0)
					} else {
						add(vRetry, 1)
					}
				} else {
					add(vStop, 0)
				}
			} else if k+1 >= m.n {
				add(vRetry, 0)
			} else {
				add(vRetry, k+1)
			}
		}
	}
	return out
}

// step feeds an observed verdict; it reports whether the machine accepts it.
func (m *machine) step(e event, verdict string) bool {
	if m.dead[e.Seq] {
		return false
	}
	if m.variant == variantFlowsLeak && !e.InCond {
		for k := range m.state(e.Seq) {
			if k > 0 {
				m.armed[e.Seq] = true
			}
		}
	}
	next, ok := m.admissible(e)[verdict]
	if !ok {
		m.dead[e.Seq] = true
		return false
	}
	m.st[e.Seq] = next
	if m.policy && verdict == vRetry {
		m.sets[e.Seq] = append(m.sets[e.Seq], e.Now)
	}
	return true
}

func (m *machine) atRest(seq string) bool {
	s := m.state(seq)
	return len(s) == 1 && s[0]
}

func (m *machine) wants(e event) []string {
	o := []string{}
	for v := range m.admissible(e) {
		o = append(o, v)
	}
	sort.Strings(o)
	return o
}
