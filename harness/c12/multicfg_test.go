// C12, unit TestCacheSizeAcrossConfigs: the gateway has ONE caching plugin (one cache) for every caching
// remedy of every endpoint and for every policy version. The histories of the other units keep one
// configuration; here the stores of a history are made under two or three caching configurations with
// different max_cache_size_megabytes (different endpoints, or a policy reload), interleaved.
//
// Oracle (statement: "the cache never holds more than its configured size"), applied to what can be observed
// from outside: after a store under configuration X that made a new key replayable, the body bytes of all
// replayable entries (a lower bound of the cache's own size measure) do not exceed X's limit. A limit that
// shrinks below what is already held does not have to evict (the statement does not say so), it only has to
// refuse further growth.
package c12

import (
	"fmt"
	"strings"
	"testing"

	"lunar/engine/actions"
	lunarMessages "lunar/engine/messages"
	"lunar/engine/services/remedies"
	sharedConfig "lunar/shared-model/config"

	"pgregory.net/rapid"

	"verif/harness/internal/ev"
)

type mcStore struct {
	Cfg  int `json:"config"`
	Size int `json:"body_bytes"`
}

type mcCase struct {
	LimitsKB []int     `json:"max_cache_size_kb"` // per configuration (sent as megabytes = kb/1024)
	Stores   []mcStore `json:"stores"`            // every store uses its own URL
}

func TestCacheSizeAcrossConfigs(t *testing.T) {
	r := ev.New(t, "C12")
	rapid.Check(t, func(t *rapid.T) {
		c := mcCase{}
		n := rapid.IntRange(2, 3).Draw(t, "configs")
		for i := 0; i < n; i++ {
			// 0: a size of zero, set on purpose - nothing may be held under it
			c.LimitsKB = append(c.LimitsKB, rapid.SampledFrom([]int{8, 20, 48, 1024, 0}).Draw(t, "limit"))
		}
		c.Stores = rapid.SliceOfN(rapid.Custom(func(t *rapid.T) mcStore {
			return mcStore{Cfg: rapid.IntRange(0, n-1).Draw(t, "cfg"), Size: rapid.SampledFrom([]int{512, 2048, 4096, 8192}).Draw(t, "size")}
		}), 3, 24).Draw(t, "stores")
		r.Case()
		clk := newVClock(baseNs)
		plugin := remedies.NewCachingPlugin(clk)
		cfgs := make([]*sharedConfig.CachingConfig, n)
		for i, kb := range c.LimitsKB {
			cfgs[i] = &sharedConfig.CachingConfig{TTLSeconds: 3600, MaxRecordSizeBytes: 1 << 20, MaxCacheSizeMegabytes: float32(kb) / 1024}
		}
		served := map[int]bool{}
		replayable := func(i int) bool {
			req := lunarMessages.OnRequest{ID: fmt.Sprintf("mq%d", i), SequenceID: fmt.Sprintf("mq%d", i), Method: "GET", Scheme: "https", URL: fmt.Sprintf("h.com/m/%d", i), Headers: map[string]string{}}
			a, err := plugin.OnRequest(req, cfgs[c.Stores[i].Cfg], map[string]string{})
			_, early := a.(*actions.EarlyResponseAction)
			return err == nil && early
		}
		defer func() {
			clk.DisarmGate()
			for _, tm := range clk.Pending() {
				clk.Fire(tm)
			}
		}()
		smaller, refused := false, false
		for i, st := range c.Stores {
			resp := lunarMessages.OnResponse{ID: fmt.Sprintf("mp%d", i), SequenceID: fmt.Sprintf("mp%d", i), Method: "GET", URL: fmt.Sprintf("h.com/m/%d", i),
				Status: 200, Headers: map[string]string{"content-type": "text/plain"}, Body: strings.Repeat("x", st.Size)}
			if _, err := plugin.OnResponse(resp, cfgs[st.Cfg], map[string]string{}); err != nil {
				t.Fatalf("%s", r.Fail(c, "store %d: OnResponse error: %v", i, err))
			}
			if !replayable(i) {
				refused = true
				continue
			}
			served[i] = true
			held := 0
			for j := range served {
				held += c.Stores[j].Size
			}
			limit := c.LimitsKB[st.Cfg] * 1024
			for _, kb := range c.LimitsKB {
				if kb > c.LimitsKB[st.Cfg] {
					smaller = true
				}
			}
			if held > limit {
				t.Fatalf("%s", r.Fail(c, "store %d (%d body bytes, configuration %d with max_cache_size %d KB) was accepted: the cache now replays %d entries with %d body bytes, more than that configuration allows", i, st.Size, st.Cfg, c.LimitsKB[st.Cfg], len(served), held))
			}
		}
		if smaller && refused {
			r.NonTrivial(ev.JSON(c), func() any { return c })
		}
		if refused {
			r.Class("a store was refused")
		}
	})
}
