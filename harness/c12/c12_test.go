// C12 — stored responses are replayed only for the same key and only while fresh.
//
// Driven objects: remedies.CachingPlugin and remedies.ResponseBasedThrottlingPlugin
// (OnRequest/OnResponse) on a harness-owned virtual clock. The cache's clean-up
// goroutine ("sleeper") is a clock timer that the generated schedule fires on time
// or delays past a re-store; a writer can be held between the cache's size check
// and its insert (the clock read in between is the yield point).
package c12

import (
	"encoding/json"
	"fmt"
	"math"
	"os"
	"runtime"
	"sort"
	"strconv"
	"strings"
	"sync"
	"testing"
	"time"

	"lunar/engine/actions"
	lunarMessages "lunar/engine/messages"
	"lunar/engine/services/remedies"
	sharedConfig "lunar/shared-model/config"

	"github.com/rs/zerolog"
	"pgregory.net/rapid"

	"verif/harness/internal/ev"
	"verif/harness/internal/loglevel"
)

func TestMain(m *testing.M) {
	zerolog.SetGlobalLevel(zerolog.Disabled)
	os.Exit(m.Run())
}

const (
	sec     = int64(time.Second)
	baseSec = int64(1_700_000_000)
	baseNs  = baseSec * sec
)

// ---- case representation ----------------------------------------------------------

type pathSel struct {
	Type string `json:"type"`
	Path string `json:"path"`
}

type config struct {
	// caching
	TTL       float32   `json:"ttl_s,omitempty"`
	MaxRecord int       `json:"max_record_bytes,omitempty"`
	MaxMB     float32   `json:"max_cache_mb,omitempty"`
	Paths     []pathSel `json:"payload_paths,omitempty"`
	// response-based throttling
	RetryHeader string `json:"retry_after_header,omitempty"`
	RetryType   string `json:"retry_after_type,omitempty"` // relative | absolute
	Relevant    []int  `json:"relevant_statuses,omitempty"`
}

type keySpec struct {
	Method string            `json:"method"`
	URL    string            `json:"url"`
	Params map[string]string `json:"params,omitempty"`
}

type respSpec struct {
	Status   int               `json:"status"`
	Headers  map[string]string `json:"headers,omitempty"`
	BodyID   int               `json:"body_id"`
	BodySize int               `json:"body_size"`
}

type item struct {
	IsReq bool      `json:"is_req,omitempty"`
	Key   keySpec   `json:"key"`
	Resp  *respSpec `json:"resp,omitempty"`
}

type op struct {
	Kind  string    `json:"kind"` // req | resp | adv | pair | burst | readgate | stepback
	At    int64     `json:"at_ns"`
	Back  int64     `json:"wall_clock_set_back_ns,omitempty"` // stepback
	Key   keySpec   `json:"key,omitempty"`
	Resp  *respSpec `json:"resp,omitempty"`
	Fire  bool      `json:"fire_due_sleepers,omitempty"`
	Mode  string    `json:"mode,omitempty"`
	Items []item    `json:"items,omitempty"` // pair: [held writer A, writer B]; burst: concurrent calls
}

type caseSpec struct {
	Plugin string `json:"plugin"` // caching | throttling
	Cfg    config `json:"config"`
	Ops    []op   `json:"ops"`
}

func body(r *respSpec) string {
	p := fmt.Sprintf("b%04d:", r.BodyID)
	if r.BodySize <= len(p) {
		return p[:r.BodySize]
	}
	return p + padding[:r.BodySize-len(p)]
}

var padding = strings.Repeat("x", 1<<17)

func copyMap(m map[string]string) map[string]string {
	o := make(map[string]string, len(m))
	for k, v := range m {
		o[k] = v
	}
	return o
}

// ---- the statement-side model --------------------------------------------------------

// modelKey is the key of the statement: method, URL and the values of the
// *selected* path parameters (payload paths of type path_params; an empty value
// is the same as an absent one). The throttling remedy has no path parameters.
func modelKey(c caseSpec, k keySpec) string {
	s := k.Method + " " + k.URL
	if c.Plugin != "caching" {
		return s
	}
	for _, p := range c.Cfg.Paths {
		if p.Type == sharedConfig.RequestPathParamPayload && k.Params[p.Path] != "" {
			s += " " + p.Path + "=" + k.Params[p.Path]
		}
	}
	return s
}

type cand struct {
	T0      int64
	Expiry  int64
	HasTTL  bool
	Status  int
	Body    string
	Headers map[string]string
	Retry   float64 // relative retry-after as given by the provider
	RetryK  string  // the response's own spelling of the retry-after header
	Tag     string
}

func ttlNs(seconds float64) int64 { return time.Duration(float64(time.Second) * seconds).Nanoseconds() }

// newCand derives what a stored copy of this response would be and until when it
// is fresh. A response that defines no time-to-live (no / unparsable retry-after)
// can never be replayed.
func newCand(c caseSpec, r *respSpec, now int64) *cand {
	cd := &cand{T0: now, Status: r.Status, Body: body(r), Headers: copyMap(r.Headers), Tag: fmt.Sprintf("b%04d", r.BodyID)}
	if c.Plugin == "caching" {
		cd.HasTTL = true
		cd.Expiry = now + ttlNs(float64(c.Cfg.TTL))
		return cd
	}
	// header names are case-insensitive: the response may spell the configured header differently
	v, ok := "", false
	for k, hv := range r.Headers {
		if strings.EqualFold(k, c.Cfg.RetryHeader) {
			v, ok, cd.RetryK = hv, true, k
		}
	}
	if !ok {
		return cd
	}
	f, err := strconv.ParseFloat(v, 64)
	if err != nil || math.IsNaN(f) || math.IsInf(f, 0) {
		return cd
	}
	cd.HasTTL = true
	if c.Cfg.RetryType == "relative" {
		cd.Retry = f
		cd.Expiry = now + ttlNs(f)
	} else {
		// absolute epoch seconds; the plugin measures "now" with one-second
		// resolution (Unix()), so the entry may live until A + frac(now) < A + 1 s.
		// A reading with the exact instant (expiry = A) is stricter and accepted too.
		cd.Expiry = now + ttlNs(f-float64(now/sec))
	}
	return cd
}

type early struct {
	Status  int
	Body    string
	Headers map[string]string
}

func decode(a actions.ReqLunarAction, err error) (*early, string) {
	if err != nil {
		return nil, "error: " + err.Error()
	}
	switch x := a.(type) {
	case *actions.NoOpAction:
		return nil, ""
	case *actions.EarlyResponseAction:
		return &early{x.Status, x.Body, x.Headers}, ""
	}
	return nil, fmt.Sprintf("unexpected action %T", a)
}

func eqMap(a, b map[string]string) bool {
	if len(a) != len(b) {
		return false
	}
	for k, v := range a {
		if w, ok := b[k]; !ok || w != v {
			return false
		}
	}
	return true
}

// matches says whether the early response e, served at now, is a faithful
// replay of candidate cd.
func matches(c caseSpec, cd *cand, e *early, now int64) bool {
	if cd.Status != e.Status || cd.Body != e.Body {
		return false
	}
	if c.Plugin == "caching" || c.Cfg.RetryType != "relative" {
		return eqMap(cd.Headers, e.Headers)
	}
	if len(cd.Headers) != len(e.Headers) {
		return false
	}
	for k, v := range cd.Headers {
		w, ok := e.Headers[k]
		if !ok {
			return false
		}
		if k != cd.RetryK {
			if v != w {
				return false
			}
			continue
		}
		got, err := strconv.ParseFloat(w, 64)
		if err != nil {
			return false
		}
		want := cd.Retry - float64(now-cd.T0)/1e9
		if math.Abs(got-want) > 1e-6 {
			return false
		}
	}
	return true
}

type oracle struct {
	c     caseSpec
	cands map[string][]*cand
	// statistics / non-triviality
	hitSeen map[string]bool
	js      map[string]int64
	nt      bool
}

func newOracle(c caseSpec) *oracle {
	return &oracle{c: c, cands: map[string][]*cand{}, hitSeen: map[string]bool{}, js: map[string]int64{}}
}

func (o *oracle) inc(k string) { o.js[k]++ }

func (o *oracle) addCand(k keySpec, r *respSpec, now int64) *cand {
	cd := newCand(o.c, r, now)
	mk := modelKey(o.c, k)
	o.cands[mk] = append(o.cands[mk], cd)
	return cd
}

// judgeRequest checks one observed answer to a request for key k at instant now.
// It returns "" or the description of a violation, and the matched candidate.
func (o *oracle) judgeRequest(k keySpec, now int64, e *early, probe bool) (string, *cand) {
	mk := modelKey(o.c, k)
	fresh, stale := false, false
	for _, cd := range o.cands[mk] {
		if cd.HasTTL && cd.T0 <= now && now <= cd.Expiry {
			fresh = true
		} else if cd.HasTTL && now > cd.Expiry {
			stale = true
		}
	}
	pre := "req:"
	if probe {
		pre = "probe:"
	}
	if e == nil {
		switch {
		case fresh:
			o.inc(pre + "miss-while-a-fresh-copy-may-exist(not asserted)")
		case stale:
			o.inc(pre + "miss-after-expiry")
			if o.hitSeen[mk] {
				o.nt = true
				o.inc("nt:hit-then-miss-after-expiry")
				o.hitSeen[mk] = false
			}
		default:
			o.inc(pre + "miss-never-stored")
		}
		return "", nil
	}
	// an early response: (S) same key, still fresh, faithful copy
	for i := len(o.cands[mk]) - 1; i >= 0; i-- {
		cd := o.cands[mk][i]
		if cd.HasTTL && cd.T0 <= now && now <= cd.Expiry && matches(o.c, cd, e, now) {
			o.inc(pre + "hit")
			if now == cd.Expiry {
				o.inc("hit-exactly-at-expiry(accepted)")
			}
			o.hitSeen[mk] = true
			return "", cd
		}
	}
	// diagnose
	for _, cd := range o.cands[mk] {
		if cd.Status == e.Status && cd.Body == e.Body {
			if cd.HasTTL && now > cd.Expiry {
				return fmt.Sprintf("request %s at %s was answered from memory with %s stored at %s, %.9f s after its freshness ended (%s)",
					mk, offStr(now), cd.Tag, offStr(cd.T0), float64(now-cd.Expiry)/1e9, offStr(cd.Expiry)), nil
			}
			if !cd.HasTTL {
				return fmt.Sprintf("request %s at %s was answered from memory with %s, a response that defines no retry-after time", mk, offStr(now), cd.Tag), nil
			}
			return fmt.Sprintf("request %s at %s was answered with %s (stored %s, fresh) but the replay differs from the stored response: headers %v, stored %v (elapsed %.9f s)",
				mk, offStr(now), cd.Tag, offStr(cd.T0), e.Headers, cd.Headers, float64(now-cd.T0)/1e9), nil
		}
	}
	keys := make([]string, 0, len(o.cands))
	for k2 := range o.cands {
		keys = append(keys, k2)
	}
	sort.Strings(keys)
	for _, k2 := range keys {
		for _, cd := range o.cands[k2] {
			if k2 != mk && cd.Status == e.Status && cd.Body == e.Body {
				return fmt.Sprintf("request %s at %s was answered from memory with %s, which was stored for another key: %s", mk, offStr(now), cd.Tag, k2), nil
			}
		}
	}
	return fmt.Sprintf("request %s at %s was answered from memory (status %d, %d body bytes) but no such response was ever stored", mk, offStr(now), e.Status, len(e.Body)), nil
}

func offStr(abs int64) string { return fmt.Sprintf("base%+.9fs", float64(abs-baseNs)/1e9) }

// ---- a replica of the cache's bookkeeping (for attribution and statistics only) -------

type implEntry struct {
	cd     *cand
	expiry int64
	sizeMB float64
	late   bool // inserted by a held writer whose size check would fail at insert time
}

type implModel struct {
	c       caseSpec
	entries map[string]*implEntry
	cur     float64
	agree   bool
}

func sizeMB(k keySpec, r *respSpec, id string) float64 {
	n := len(k.Method) + len(k.URL) + 64 + len(id) + r.BodySize
	for h, v := range r.Headers {
		n += len(h) + len(v)
	}
	n += 12
	return float64(int64(n)) / 1024 / 1024
}

func (m *implModel) fresh(mk string, now int64) bool {
	e := m.entries[mk]
	return e != nil && !(now > e.expiry)
}

// phase1: everything OnResponse does up to and including the size check.
func (m *implModel) phase1(k keySpec, r *respSpec, id string, now int64) (store bool, why string, sz float64) {
	if r.BodySize > m.c.Cfg.MaxRecord {
		return false, "record-too-big", 0
	}
	mk := modelKey(m.c, k)
	if m.fresh(mk, now) {
		return false, "already-stored", 0
	}
	sz = sizeMB(k, r, id)
	if m.cur+sz > float64(m.c.Cfg.MaxMB) {
		return false, "cache-full", sz
	}
	return true, "", sz
}

func (m *implModel) phase2(k keySpec, cd *cand, sz float64, now int64) *implEntry {
	e := &implEntry{cd: cd, expiry: cd.Expiry, sizeMB: sz}
	if m.cur+sz > float64(m.c.Cfg.MaxMB) {
		e.late = true
	}
	m.entries[modelKey(m.c, k)] = e
	m.cur += sz
	return e
}

func (m *implModel) sleeperFired(mk string) {
	if e := m.entries[mk]; e != nil {
		m.cur -= e.sizeMB
	}
	delete(m.entries, mk)
}

// ---- driving the real plugins ------------------------------------------------------------

type runner struct {
	c     caseSpec
	clk   *vclock
	g0    int
	cache *remedies.CachingPlugin
	thr   *remedies.ResponseBasedThrottlingPlugin
	ccfg  *sharedConfig.CachingConfig
	tcfg  *sharedConfig.ResponseBasedThrottlingConfig
	seq   int
}

type infraError struct{ msg string }

func (e infraError) Error() string { return e.msg }

func newRunner(c caseSpec) *runner {
	r := &runner{c: c, clk: newVClock(baseNs), g0: runtime.NumGoroutine()}
	if c.Plugin == "caching" {
		r.cache = remedies.NewCachingPlugin(r.clk)
		cfg := &sharedConfig.CachingConfig{TTLSeconds: c.Cfg.TTL, MaxRecordSizeBytes: c.Cfg.MaxRecord, MaxCacheSizeMegabytes: c.Cfg.MaxMB}
		for _, p := range c.Cfg.Paths {
			cfg.RequestPayloadPaths = append(cfg.RequestPayloadPaths, sharedConfig.PayloadPath{PayloadType: p.Type, Path: p.Path})
		}
		r.ccfg = cfg
	} else {
		r.thr = remedies.NewResponseBasedThrottlingPlugin(r.clk)
		ty := sharedConfig.RetryAfterRelativeSeconds
		if c.Cfg.RetryType == "absolute" {
			ty = sharedConfig.RetryAfterAbsoluteEpoch
		}
		r.tcfg = &sharedConfig.ResponseBasedThrottlingConfig{RetryAfterHeader: c.Cfg.RetryHeader, RetryAfterType: ty, RelevantStatuses: c.Cfg.Relevant}
	}
	return r
}

// settle waits until every goroutine started by the plugin is parked on a clock
// timer or has finished: the number of goroutines equals the number before the
// case plus one per registered, unfired timer. No sleeping; the wall clock is only
// a watchdog that turns a hang into "inconclusive".
func (r *runner) settle() error {
	var t0 time.Time
	for i := 0; ; i++ {
		if runtime.NumGoroutine() == r.g0+r.clk.PendingCount() {
			return nil
		}
		runtime.Gosched()
		if i == 1000 {
			t0 = time.Now()
		}
		if i > 1000 && i%1000 == 0 && time.Since(t0) > 20*time.Second {
			return infraError{fmt.Sprintf("goroutines did not settle: %d running, %d before the case, %d pending timers", runtime.NumGoroutine(), r.g0, r.clk.PendingCount())}
		}
	}
}

func (r *runner) request(k keySpec) (*early, string) {
	r.seq++
	req := lunarMessages.OnRequest{ID: fmt.Sprintf("q%d", r.seq), SequenceID: fmt.Sprintf("q%d", r.seq), Method: k.Method, Scheme: "https", URL: k.URL, Headers: map[string]string{}}
	if r.cache != nil {
		return decode(r.cache.OnRequest(req, r.ccfg, copyMap(k.Params)))
	}
	return decode(r.thr.OnRequest(req, r.tcfg))
}

func respID(seq int) string { return fmt.Sprintf("p%06d", seq) }

func (r *runner) mkResponse(k keySpec, rs *respSpec) lunarMessages.OnResponse {
	r.seq++
	return lunarMessages.OnResponse{ID: respID(r.seq), SequenceID: respID(r.seq), Method: k.Method, URL: k.URL, Status: rs.Status, Headers: copyMap(rs.Headers), Body: body(rs)}
}

func (r *runner) respond(k keySpec, resp lunarMessages.OnResponse) string {
	var a actions.RespLunarAction
	var err error
	if r.cache != nil {
		a, err = r.cache.OnResponse(resp, r.ccfg, copyMap(k.Params))
	} else {
		a, err = r.thr.OnResponse(resp, r.tcfg)
	}
	if err != nil {
		return "OnResponse error: " + err.Error()
	}
	if _, ok := a.(*actions.NoOpAction); !ok {
		return fmt.Sprintf("OnResponse returned %T", a)
	}
	return ""
}

func (r *runner) tagNew(tag string) int {
	n := 0
	for _, t := range r.clk.Pending() {
		if t.tag == "" {
			t.tag = tag
			n++
		}
	}
	return n
}

// finish fires every remaining timer so that no goroutine outlives the case.
func (r *runner) finish() error {
	r.clk.DisarmGate()
	for _, t := range r.clk.Pending() {
		r.clk.Fire(t)
	}
	return r.settle()
}

// probeKeys enumerates one representative per statement-level key.
func probeKeys(c caseSpec) []keySpec {
	var out []keySpec
	seen := map[string]bool{}
	add := func(k keySpec) {
		mk := modelKey(c, k)
		if !seen[mk] {
			seen[mk] = true
			out = append(out, k)
		}
	}
	for _, m := range methods {
		for _, u := range urls {
			if c.Plugin != "caching" {
				add(keySpec{Method: m, URL: u})
				continue
			}
			for _, id := range idValues {
				for _, org := range orgValues {
					add(keySpec{Method: m, URL: u, Params: map[string]string{"id": id, "org": org}})
				}
			}
		}
	}
	return out
}

type violation struct {
	Step int
	Msg  string
	F1   bool
}

// execute runs a case against the real plugin and judges it on the way.
func execute(c caseSpec, o *oracle) (viol []violation, err error) {
	r := newRunner(c)
	defer func() {
		if e := r.finish(); e != nil && err == nil {
			err = e
		}
	}()
	im := &implModel{c: c, entries: map[string]*implEntry{}, agree: true}
	pk := probeKeys(c)
	maxBytes := float64(c.Cfg.MaxMB) * 1024 * 1024

	probe := func(step int) {
		total := 0
		held := map[string]*cand{}
		for _, k := range pk {
			e, bad := r.request(k)
			if bad != "" {
				viol = append(viol, violation{Step: step, Msg: bad})
				continue
			}
			msg, cd := o.judgeRequest(k, r.clk.NowNs(), e, true)
			if msg != "" {
				viol = append(viol, violation{Step: step, Msg: msg})
			}
			if e != nil {
				total += len(e.Body)
				held[modelKey(c, k)] = cd
			}
		}
		if c.Plugin != "caching" {
			return
		}
		// does the bookkeeping replica predict exactly these holdings?
		now := r.clk.NowNs()
		late := false
		pred := 0
		for mk, e := range im.entries {
			if now > e.expiry {
				continue
			}
			pred++
			if held[mk] != e.cd {
				im.agree = false
			}
			if e.late {
				late = true
			}
		}
		if pred != len(held) {
			im.agree = false
		}
		if len(held) >= 2 {
			o.inc("probe:>=2-entries-held")
		}
		if float64(total) > maxBytes {
			viol = append(viol, violation{Step: step, F1: im.agree && late,
				Msg: fmt.Sprintf("the cache holds %d entries with %d body bytes at %s, configured maximum %.6g MB = %.2f bytes", len(held), total, offStr(now), c.Cfg.MaxMB, maxBytes)})
		} else if float64(total) > 0.6*maxBytes {
			o.inc("probe:cache-more-than-60%-full")
		}
	}

	for i, p := range c.Ops {
		r.clk.Set(baseNs + p.At)
		now := baseNs + p.At
		switch p.Kind {
		case "adv":
			o.inc("adv:" + p.Mode)
			if p.Fire {
				for _, t := range r.clk.Pending() {
					if t.due <= now {
						r.clk.Fire(t)
						if err = r.settle(); err != nil {
							return
						}
						im.sleeperFired(t.tag)
						o.inc("sleeper-fired")
						if t.due < now {
							o.inc("sleeper-fired-late")
						}
					}
				}
			} else {
				for _, t := range r.clk.Pending() {
					if t.due <= now {
						o.inc("sleeper-held-back")
						break
					}
				}
			}
			probe(i)
		case "req":
			e, bad := r.request(p.Key)
			if bad != "" {
				viol = append(viol, violation{Step: i, Msg: bad})
				break
			}
			if msg, _ := o.judgeRequest(p.Key, now, e, false); msg != "" {
				viol = append(viol, violation{Step: i, Msg: msg})
			}
		case "resp":
			mk := modelKey(c, p.Key)
			resp := r.mkResponse(p.Key, p.Resp)
			cd := o.addCand(p.Key, p.Resp, now)
			staleSleeper := false
			for _, t := range r.clk.Pending() {
				if t.tag == mk && t.due <= now {
					staleSleeper = true
				}
			}
			if bad := r.respond(p.Key, resp); bad != "" {
				viol = append(viol, violation{Step: i, Msg: bad})
			}
			if err = r.settle(); err != nil {
				return
			}
			stored := r.tagNew(mk) > 0
			if c.Plugin == "caching" {
				ok, why, sz := im.phase1(p.Key, p.Resp, resp.ID, now)
				if ok {
					im.phase2(p.Key, cd, sz, now)
					o.inc("resp:stored")
				} else {
					o.inc("resp:not-stored:" + why)
					if why == "cache-full" {
						o.nt = true
						o.inc("nt:size-limit-refusal")
					}
				}
				if ok != stored {
					im.agree = false
				}
			} else if stored {
				o.inc("resp:stored")
			} else {
				o.inc("resp:not-stored")
			}
			if stored && staleSleeper {
				o.nt = true
				o.inc("nt:re-store-while-old-sleeper-pending")
			}
			probe(i)
		case "stepback":
			// the wall clock is set back (NTP step, VM resume, date -s); timers are not affected
			r.clk.StepWall(-time.Duration(p.Back))
			o.inc("wall-clock-set-back")
		case "readgate":
			// a request finds its entry, and while it is about to test the entry's freshness (its clock reading)
			// the entry's time-to-live ends and the clean-up runs; then the request goes on
			parked, release := r.clk.ArmGate(inCacheRead)
			type rres struct {
				e   *early
				bad string
			}
			done := make(chan rres, 1)
			go func() { e, bad := r.request(p.Key); done <- rres{e, bad} }()
			var got rres
			select {
			case <-parked:
				o.inc("readgate:reader-held-at-its-freshness-test")
				o.nt = true
				later := baseNs + p.At + ttlNs(float64(c.Cfg.TTL)) + 1
				r.clk.Set(later)
				r.g0++
				for _, t := range r.clk.Pending() {
					if t.due <= later {
						r.clk.Fire(t)
						if err = r.settle(); err != nil {
							r.g0--
							release()
							return
						}
						im.sleeperFired(t.tag)
					}
				}
				r.g0--
				release()
				got = <-done
				now = later
			case got = <-done:
				r.clk.DisarmGate()
				o.inc("readgate:nothing-to-read")
			}
			if got.bad != "" {
				viol = append(viol, violation{Step: i, Msg: got.bad})
				break
			}
			if msg, _ := o.judgeRequest(p.Key, now, got.e, false); msg != "" {
				viol = append(viol, violation{Step: i, Msg: msg})
			}
			probe(i)
		case "pair":
			// writer A is held between the size check and the insert, writer B runs
			// completely, then A continues.
			a, b := p.Items[0], p.Items[1]
			respA := r.mkResponse(a.Key, a.Resp)
			respB := r.mkResponse(b.Key, b.Resp)
			cdA := o.addCand(a.Key, a.Resp, now)
			cdB := o.addCand(b.Key, b.Resp, now)
			parked, release := r.clk.ArmGate(inCacheSet)
			done := make(chan string, 1)
			go func() { done <- r.respond(a.Key, respA) }()
			held := false
			var badA string
			select {
			case <-parked:
				held = true
			case badA = <-done:
				r.clk.DisarmGate()
			}
			okA, _, szA := false, "", 0.0
			if c.Plugin == "caching" {
				okA, _, szA = im.phase1(a.Key, a.Resp, respA.ID, now)
				if okA != held {
					im.agree = false
				}
			}
			if held {
				o.inc("pair:A-held-after-size-check")
			} else {
				o.inc("pair:A-not-storing")
				if err = r.settle(); err != nil {
					return
				}
				r.tagNew(modelKey(c, a.Key))
			}
			if bad := r.respond(b.Key, respB); bad != "" {
				viol = append(viol, violation{Step: i, Msg: bad})
			}
			if held {
				// B's sleeper (if any) registers while A is still parked: A is one
				// extra goroutine that is not waiting on a timer.
				r.g0++
				err = r.settle()
				r.g0--
				if err != nil {
					release()
					return
				}
			} else if err = r.settle(); err != nil {
				return
			}
			storedB := r.tagNew(modelKey(c, b.Key)) > 0
			if c.Plugin == "caching" {
				okB, _, szB := im.phase1(b.Key, b.Resp, respB.ID, now)
				if okB {
					im.phase2(b.Key, cdB, szB, now)
				}
				if okB != storedB {
					im.agree = false
				}
			}
			if held {
				release()
				badA = <-done
				if err = r.settle(); err != nil {
					return
				}
				r.tagNew(modelKey(c, a.Key))
				if c.Plugin == "caching" && okA {
					if e := im.phase2(a.Key, cdA, szA, now); e.late {
						o.inc("pair:A-inserted-although-full-by-then")
					}
				}
			}
			if badA != "" {
				viol = append(viol, violation{Step: i, Msg: badA})
			}
			probe(i)
		case "burst":
			o.inc("burst")
			im.agree = false
			type res struct {
				e   *early
				bad string
			}
			out := make([]res, len(p.Items))
			resps := make([]lunarMessages.OnResponse, len(p.Items))
			for j, it := range p.Items {
				if !it.IsReq {
					resps[j] = r.mkResponse(it.Key, it.Resp)
					o.addCand(it.Key, it.Resp, now)
				}
			}
			var wg sync.WaitGroup
			start := make(chan struct{})
			for j := range p.Items {
				wg.Add(1)
				go func(j int) {
					defer wg.Done()
					<-start
					it := p.Items[j]
					if it.IsReq {
						out[j].e, out[j].bad = r.request(it.Key)
					} else {
						out[j].bad = r.respond(it.Key, resps[j])
					}
				}(j)
			}
			close(start)
			wg.Wait()
			if err = r.settle(); err != nil {
				return
			}
			r.tagNew("?")
			for j, it := range p.Items {
				if out[j].bad != "" {
					viol = append(viol, violation{Step: i, Msg: out[j].bad})
					continue
				}
				if it.IsReq {
					if msg, _ := o.judgeRequest(it.Key, now, out[j].e, false); msg != "" {
						viol = append(viol, violation{Step: i, Msg: msg})
					}
				}
			}
			probe(i)
		}
	}
	return
}

// ---- generators ------------------------------------------------------------------------

var (
	methods = []string{"GET", "POST"}
	// URLs that differ only in the port of the host part (or in having one) or in the letter case of the path are
	// different URLs
	urls = []string{"h.com/a", "h.com/b", "h.com/a/b", "h.com:8080/a", "h.com:9090/a", "h.com/A"}
	// values shared between different parameters, and values holding the separator a naive join would use:
	// {id:7} / {zzz:7} and {id:"1.x"} / {id:"1", org:"x"} are different keys
	idValues  = []string{"", "1", "2", "7", "1.x", "x"}
	orgValues = []string{"", "x", "1", "7", "x.1"}
)

type intent struct {
	Kind   string
	Key    int // index into the case's key pool
	Key2   int
	Status int
	Size   int
	Size2  int
	Retry  int
	Mode   string
	Pick   int
	Delta  int64
	Fire   bool
	Burst  []int // >=0: request for key i; <0: response for key -i-1
}

func genKeyPool(t *rapid.T, plugin string) []keySpec {
	n := rapid.IntRange(1, 4).Draw(t, "nkeys")
	out := make([]keySpec, 0, n)
	for i := 0; i < n; i++ {
		k := keySpec{Method: rapid.SampledFrom(methods).Draw(t, "method"), URL: rapid.SampledFrom(urls).Draw(t, "url")}
		if plugin == "caching" {
			k.Params = map[string]string{
				"id":  rapid.SampledFrom(idValues).Draw(t, "id"),
				"org": rapid.SampledFrom(orgValues).Draw(t, "org"),
				"zzz": rapid.SampledFrom([]string{"", "7", "1", "x"}).Draw(t, "zzz"),
			}
		}
		out = append(out, k)
	}
	return out
}

var (
	cacheSizes = []int{3400, 3500, 5243, 6000, 100, 3000, 5000, 40}
	ttlPool    = []float32{1, 2, 3, 5, 0.5, 1.5}
	relPool    = []string{"1", "2", "3", "5", "0.5", "2.5", "0", "-1", "abc", ""}
	absPool    = []float64{1, 2, 3, 5, 0, -1, 2.5}
	statusPool = []int{429, 503, 200, 500}
)

func genIntent(plugin string, big bool) *rapid.Generator[intent] {
	kinds := []string{"req", "resp", "adv", "req", "resp", "adv"}
	if plugin == "caching" && !big {
		kinds = append(kinds, "pair", "readgate")
	} else {
		kinds = append(kinds, "burst")
	}
	return rapid.Custom(func(t *rapid.T) intent {
		in := intent{Kind: rapid.SampledFrom(kinds).Draw(t, "kind"), Key: rapid.IntRange(0, 3).Draw(t, "key")}
		switch in.Kind {
		case "resp", "pair":
			in.Status = rapid.IntRange(0, len(statusPool)-1).Draw(t, "status")
			in.Size = rapid.IntRange(0, len(cacheSizes)-1).Draw(t, "size")
			in.Retry = rapid.IntRange(0, 9).Draw(t, "retry")
			if in.Kind == "pair" {
				in.Key2 = rapid.IntRange(0, 3).Draw(t, "key2")
				in.Size2 = rapid.IntRange(0, len(cacheSizes)-1).Draw(t, "size2")
			}
		case "adv":
			in.Mode = rapid.SampledFrom([]string{"exp", "exp+1ns", "exp-1ns", "exp", "exp+1ns", "small", "ttl"}).Draw(t, "mode")
			in.Pick = rapid.IntRange(0, 3).Draw(t, "pick")
			in.Delta = rapid.Int64Range(0, 1500).Draw(t, "ms")
			in.Fire = rapid.SampledFrom([]bool{true, true, false}).Draw(t, "fire")
		case "burst":
			in.Burst = rapid.SliceOfN(rapid.IntRange(-4, 3), 2, 6).Draw(t, "calls")
			in.Status = rapid.IntRange(0, len(statusPool)-1).Draw(t, "status")
			in.Retry = rapid.IntRange(0, 9).Draw(t, "retry")
		}
		return in
	})
}

func genCase(t *rapid.T, plugin string, maxOps int) caseSpec {
	c := caseSpec{Plugin: plugin}
	big := false
	respHdr := ""
	if plugin == "caching" {
		c.Cfg.TTL = rapid.SampledFrom(ttlPool).Draw(t, "ttl")
		c.Cfg.MaxRecord = rapid.SampledFrom([]int{5500, 4000, 1 << 20}).Draw(t, "maxrecord")
		c.Cfg.MaxMB = rapid.SampledFrom([]float32{0.01, 0.01, 0.005, 1}).Draw(t, "maxmb")
		big = c.Cfg.MaxMB == 1
		sel := rapid.SliceOfNDistinct(rapid.SampledFrom([]pathSel{
			{sharedConfig.RequestPathParamPayload, "id"}, {sharedConfig.RequestPathParamPayload, "org"},
			{sharedConfig.ResponseHeadersPayload, "zzz"}, {"request_headers", "id"},
		}), 0, 4, func(p pathSel) string { return p.Type + "/" + p.Path }).Draw(t, "paths")
		c.Cfg.Paths = sel
	} else {
		c.Cfg.RetryHeader = rapid.SampledFrom([]string{"retry-after", "x-ratelimit-reset", "retry-after", "Retry-After", "X-RateLimit-Reset"}).Draw(t, "hdr")
		// the proxy hands header names over in lower case: in one case of three the responses spell it that way
		// whatever the policy says
		if rapid.IntRange(0, 2).Draw(t, "resp-hdr-lower") == 0 {
			respHdr = strings.ToLower(c.Cfg.RetryHeader)
		} else {
			respHdr = c.Cfg.RetryHeader
		}
		c.Cfg.RetryType = rapid.SampledFrom([]string{"relative", "relative", "absolute"}).Draw(t, "type")
		c.Cfg.Relevant = rapid.SampledFrom([][]int{{429}, {429, 503}, {429, 503, 500}}).Draw(t, "relevant")
	}
	// one caching case in four: the wall clock is set back now and then while the timers run on (time-to-live is
	// elapsed time); in these cases due timers always fire and no reader is held at its freshness test - a late
	// timer or a held reader is covered by the wall-clock test alone, which a wall clock set back cannot give
	wallSteps := plugin == "caching" && rapid.IntRange(0, 3).Draw(t, "wallsteps") == 1
	keys := genKeyPool(t, plugin)
	minOps := rapid.SampledFrom([]int{1, 4, 10, 20}).Draw(t, "minops") // rapid's default mean length is ~6
	ins := rapid.SliceOfN(genIntent(plugin, big), minOps, maxOps).Draw(t, "ops")

	now := int64(0)
	bodyID := 0
	var expiries []int64
	mkResp := func(in intent, size int) *respSpec {
		bodyID++
		rs := &respSpec{Status: statusPool[in.Status], BodyID: bodyID, Headers: map[string]string{"content-type": "text/plain", "x-n": strconv.Itoa(bodyID)}}
		if plugin == "caching" {
			rs.BodySize = size
			expiries = append(expiries, now+ttlNs(float64(c.Cfg.TTL)))
			return rs
		}
		rs.BodySize = 20
		if in.Status >= 2 && in.Retry%3 != 0 {
			rs.Status = 429 // mostly relevant statuses
		}
		if c.Cfg.RetryType == "relative" {
			v := relPool[in.Retry%len(relPool)]
			if v != "" {
				rs.Headers[respHdr] = v
				if f, err := strconv.ParseFloat(v, 64); err == nil {
					expiries = append(expiries, now+ttlNs(f))
				}
			}
		} else {
			d := absPool[in.Retry%len(absPool)]
			abs := float64((baseNs+now)/sec) + d
			rs.Headers[respHdr] = strconv.FormatFloat(abs, 'f', -1, 64)
			expiries = append(expiries, now+ttlNs(abs-float64((baseNs+now)/sec)))
		}
		return rs
	}
	for _, in := range ins {
		k := keys[in.Key%len(keys)]
		if wallSteps {
			if in.Kind == "readgate" {
				in.Kind = "req"
			}
			if in.Kind == "adv" {
				in.Fire = true
				if in.Delta%2 == 0 {
					c.Ops = append(c.Ops, op{Kind: "stepback", At: now, Back: []int64{3600 * sec, sec, 10 * int64(time.Millisecond), 1}[in.Pick%4]})
				}
			}
		}
		switch in.Kind {
		case "req":
			c.Ops = append(c.Ops, op{Kind: "req", At: now, Key: k})
		case "resp":
			c.Ops = append(c.Ops, op{Kind: "resp", At: now, Key: k, Resp: mkResp(in, cacheSizes[in.Size])})
		case "readgate":
			c.Ops = append(c.Ops, op{Kind: "readgate", At: now, Key: k})
			now += ttlNs(float64(c.Cfg.TTL)) + 1 // if the reader is held, the clock has moved past the time-to-live
		case "pair":
			k2 := keys[in.Key2%len(keys)]
			c.Ops = append(c.Ops, op{Kind: "pair", At: now, Items: []item{
				{Key: k, Resp: mkResp(in, cacheSizes[in.Size])}, {Key: k2, Resp: mkResp(in, cacheSizes[in.Size2])}}})
		case "burst":
			var items []item
			for _, x := range in.Burst {
				if x >= 0 {
					items = append(items, item{IsReq: true, Key: keys[x%len(keys)]})
				} else {
					items = append(items, item{Key: keys[(-x-1)%len(keys)], Resp: mkResp(in, 100)})
				}
			}
			c.Ops = append(c.Ops, op{Kind: "burst", At: now, Items: items})
		case "adv":
			var future []int64
			for _, e := range expiries {
				if e >= now {
					future = append(future, e)
				}
			}
			sort.Slice(future, func(i, j int) bool { return future[i] < future[j] })
			to, mode := now, in.Mode
			if strings.HasPrefix(mode, "exp") && len(future) == 0 {
				mode = "small"
			}
			switch mode {
			case "exp":
				to = future[in.Pick%len(future)]
			case "exp+1ns":
				to = future[in.Pick%len(future)] + 1
			case "exp-1ns":
				to = future[in.Pick%len(future)] - 1
			case "small":
				to = now + in.Delta*int64(time.Millisecond)
			case "ttl":
				to = now + 5*sec + 1
			}
			if to < now {
				to = now
			}
			now = to
			c.Ops = append(c.Ops, op{Kind: "adv", At: now, Fire: in.Fire, Mode: mode})
		}
	}
	return c
}

// ---- tests -------------------------------------------------------------------------------

func flush(r *ev.Recorder, c caseSpec, o *oracle) {
	for k, v := range o.js {
		r.ClassN(k, v)
	}
	r.ClassN("ops", int64(len(c.Ops)))
}

func runProperty(t *testing.T, plugin string, maxOps int) {
	r := ev.New(t, "C12")
	var cases, hits int64
	defer func() {
		// "fresh => hit" is not part of the statement, but a run in which nothing
		// was ever answered from memory decides nothing: report it as inconclusive.
		if !t.Failed() && cases >= 200 && hits == 0 {
			fmt.Println("VERIF-INFRA: no request was answered from memory in", cases, "histories — the check would be vacuous")
			t.Fail()
		}
	}()
	rapid.Check(t, func(t *rapid.T) {
		c := genCase(t, plugin, maxOps)
		level := loglevel.Gen().Draw(t, "log level")
		r.Class("log level " + level)
		defer loglevel.Set(level)()
		r.Case()
		cases++
		// should the process die while this history runs (a Go runtime fault such as concurrent map writes inside
		// a plugin), the driver finds the history here
		if jp := os.Getenv("VERIF_JOURNAL"); jp != "" {
			jb, _ := json.Marshal(map[string]any{"note": "the worker died while running this history", "case": c})
			_ = os.WriteFile(jp, jb, 0o644)
			defer os.Remove(jp)
		}
		o := newOracle(c)
		viol, err := execute(c, o)
		if err != nil {
			if _, infra := err.(infraError); infra {
				r.Inconclusive(err.Error())
				fmt.Println("VERIF-INFRA: " + err.Error())
			}
			t.Fatalf("%s", r.Fail(c, "%v", err))
		}
		flush(r, c, o)
		hits += o.js["req:hit"] + o.js["probe:hit"]
		if o.nt {
			r.NonTrivial(ev.JSON(c), func() any { return c })
		}
		for i := range viol {
			v := viol[i]
			if v.F1 && r.KnownFinding("C12-F1", func() any { return map[string]any{"case": c, "step": v.Step, "what": v.Msg} }) {
				r.Class("attributed:C12-F1")
				continue
			}
			t.Fatalf("%s", r.Fail(map[string]any{"case": c, "failing_step": v.Step, "base_unix_s": baseSec}, "step %d: %s", v.Step, v.Msg))
		}
	})
}

func TestCachingHistories(t *testing.T)    { runProperty(t, "caching", 50) }
func TestThrottlingHistories(t *testing.T) { runProperty(t, "throttling", 50) }

// ---- finding C12-F1: witness -----------------------------------------------------------------

// Two responses of 6000 body bytes for different keys, cache limited to 0.01 MB
// (10485.76 bytes). Writer A is suspended after the size check (at the clock read
// inside MemoryCache.Set), writer B stores, A continues and stores as well: the
// cache then serves both, 12000 body bytes.
func witnessF1() caseSpec {
	hdr := map[string]string{"content-type": "text/plain"}
	return caseSpec{Plugin: "caching",
		Cfg: config{TTL: 5, MaxRecord: 1 << 20, MaxMB: 0.01},
		Ops: []op{{Kind: "pair", At: 0, Items: []item{
			{Key: keySpec{Method: "GET", URL: "h.com/a"}, Resp: &respSpec{Status: 200, Headers: hdr, BodyID: 1, BodySize: 6000}},
			{Key: keySpec{Method: "GET", URL: "h.com/b"}, Resp: &respSpec{Status: 200, Headers: hdr, BodyID: 2, BodySize: 6000}},
		}}}}
}

func TestWitnessHeldWriterExceedsCacheSize(t *testing.T) {
	r := ev.New(t, "C12")
	c := witnessF1()
	r.Case()
	o := newOracle(c)
	viol, err := execute(c, o)
	if err != nil {
		t.Fatalf("%s", r.Fail(c, "%v", err))
	}
	flush(r, c, o)
	r.NonTrivial(ev.JSON(c), func() any { return c })
	if len(viol) == 0 {
		r.Class("witness:defect-absent")
		return
	}
	for i := range viol {
		v := viol[i]
		if v.F1 && r.KnownFinding("C12-F1", func() any { return map[string]any{"case": c, "step": v.Step, "what": v.Msg} }) {
			r.Class("witness:defect-present-and-listed")
			continue
		}
		t.Fatalf("%s", r.Fail(map[string]any{"case": c, "failing_step": v.Step}, "witness, step %d: %s", v.Step, v.Msg))
	}
}
