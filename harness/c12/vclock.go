package c12

import (
	"runtime"
	"sort"
	"strings"
	"sync"
	"sync/atomic"
	"time"
)

// vclock is a harness-owned implementation of lunar/toolkit-core/clock.Clock.
//
//   - Now() returns the virtual instant the test set (nanosecond resolution).
//   - Sleep/After register a timer; nothing fires by itself. The test fires
//     timers explicitly (Fire), which is how the schedule delays the cache's
//     clean-up goroutine past a re-store.
//   - Now() is also a yield point: while a gate is armed, the first Now() call
//     made from a function whose name matches the gate parks the calling
//     goroutine until the test releases it. This is how a writer is held between
//     the cache's size check and its insert.
type vclock struct {
	nowNs atomic.Int64
	// wallNs: what Now() reports beyond nowNs. Timers (After/Sleep) live on the nowNs axis alone, like the
	// runtime's monotonic timers; an operator or NTP setting the wall clock back moves only Now().
	wallNs atomic.Int64

	mu      sync.Mutex
	timers  []*vtimer
	nextID  int
	created atomic.Int64 // total timers ever registered

	gateArmed atomic.Bool
	gateMatch func(fn string) bool
	gatePark  chan struct{} // closed by the parked goroutine
	gateGo    chan struct{} // closed by the test to release it
}

type vtimer struct {
	id      int
	due     int64
	created int64
	ch      chan time.Time
	tag     string // set by the test: which key's store registered it
}

func newVClock(ns int64) *vclock {
	c := &vclock{}
	c.nowNs.Store(ns)
	return c
}

func (c *vclock) Set(ns int64) { c.nowNs.Store(ns) }
func (c *vclock) NowNs() int64 { return c.nowNs.Load() }

func (c *vclock) Now() time.Time {
	if c.gateArmed.Load() {
		c.maybePark()
	}
	return time.Unix(0, c.nowNs.Load()+c.wallNs.Load())
}

// StepWall moves the wall clock (Now) by d without touching the timers.
func (c *vclock) StepWall(d time.Duration) { c.wallNs.Add(int64(d)) }

func (c *vclock) maybePark() {
	var pcs [24]uintptr
	n := runtime.Callers(3, pcs[:])
	frames := runtime.CallersFrames(pcs[:n])
	for {
		f, more := frames.Next()
		if c.gateMatch(f.Function) {
			if c.gateArmed.CompareAndSwap(true, false) {
				close(c.gatePark)
				<-c.gateGo
			}
			return
		}
		if !more {
			return
		}
	}
}

// ArmGate arms a one-shot gate for the next Now() called (directly) from a
// function accepted by match. It returns the channel that is closed once a
// goroutine is parked there and the function releasing it.
func (c *vclock) ArmGate(match func(fn string) bool) (parked <-chan struct{}, release func()) {
	c.gateMatch = match
	c.gatePark = make(chan struct{})
	c.gateGo = make(chan struct{})
	goCh := c.gateGo
	c.gateArmed.Store(true)
	return c.gatePark, func() { close(goCh) }
}

func (c *vclock) DisarmGate() { c.gateArmed.Store(false) }

// inCacheSet matches utils.(*MemoryCache[...]).Set, where the cache reads the
// clock after its size check and before it takes the lock for the insert.
func inCacheSet(fn string) bool {
	return strings.Contains(fn, "MemoryCache") && strings.HasSuffix(fn, ".Set")
}

// inCacheRead matches the freshness test of a cache read (utils.valueExpired, called by Get and Has after the
// entry was looked up and the lock released): the reader reads the clock there.
func inCacheRead(fn string) bool { return strings.Contains(fn, "valueExpired") }

func (c *vclock) Sleep(d time.Duration) { <-c.After(d) }

func (c *vclock) After(d time.Duration) <-chan time.Time {
	now := c.nowNs.Load()
	t := &vtimer{due: now + int64(d), created: now, ch: make(chan time.Time, 1)}
	c.mu.Lock()
	c.nextID++
	t.id = c.nextID
	c.timers = append(c.timers, t)
	c.mu.Unlock()
	c.created.Add(1)
	return t.ch
}

func (c *vclock) Since(t time.Time) time.Duration { return c.Now().Sub(t) }
func (c *vclock) Until(t time.Time) time.Duration { return t.Sub(c.Now()) }

// Pending returns the registered, unfired timers ordered by (due, id).
func (c *vclock) Pending() []*vtimer {
	c.mu.Lock()
	out := append([]*vtimer(nil), c.timers...)
	c.mu.Unlock()
	sort.Slice(out, func(i, j int) bool {
		if out[i].due != out[j].due {
			return out[i].due < out[j].due
		}
		return out[i].id < out[j].id
	})
	return out
}

func (c *vclock) PendingCount() int {
	c.mu.Lock()
	defer c.mu.Unlock()
	return len(c.timers)
}

// Fire wakes the goroutine waiting on t (the caller then waits for it to finish).
func (c *vclock) Fire(t *vtimer) {
	c.mu.Lock()
	for i, x := range c.timers {
		if x == t {
			c.timers = append(c.timers[:i], c.timers[i+1:]...)
			break
		}
	}
	c.mu.Unlock()
	t.ch <- time.Unix(0, c.nowNs.Load())
}
