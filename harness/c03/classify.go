package c03

import (
	"fmt"

	"verif/harness/internal/ev"
)

// attribute decides whether a discrepancy belongs to a listed known finding
// (then it is counted and the search continues) or is a violation. All C03
// defects found so far were repaired by fix: commits, so nothing is listed and
// every discrepancy is a violation.
func attribute(_ *ev.Recorder, _ testCase, d discrepancy) error {
	return fmt.Errorf("%s: %s", d.kind, d.msg)
}
