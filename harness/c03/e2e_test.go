package c03

import (
	"fmt"
	"os"
	"sort"
	"strings"
	"testing"

	"pgregory.net/rapid"

	"verif/harness/internal/engine"
	"verif/harness/internal/ev"
	"verif/harness/internal/loglevel"
)

// e2e: the same generated filters written as real flow YAML, loaded by the real
// loader (load order = Go map order inside lunar, not controlled) and executed
// through Stream.ExecuteFlow; the selected flows are read from the H2 events.

func (f flowSpec) yaml() string {
	var b strings.Builder
	fmt.Fprintf(&b, "name: %s\nfilter:\n  url: \"%s\"\n", f.Name, f.pattern())
	if len(f.Methods) > 0 {
		fmt.Fprintf(&b, "  method: [%s]\n", strings.Join(f.Methods, ", "))
	}
	if len(f.Headers) > 0 {
		b.WriteString("  headers:\n")
		for _, h := range f.Headers {
			fmt.Fprintf(&b, "    - key: %s\n      value: \"%s\"\n", h.K, h.V)
		}
	}
	if len(f.Query) > 0 {
		b.WriteString("  query_params:\n")
		for _, q := range f.Query {
			fmt.Fprintf(&b, "    - key: %s\n      value: \"%s\"\n", q.K, q.V)
		}
	}
	if len(f.Status) > 0 {
		parts := []string{}
		for _, s := range f.Status {
			parts = append(parts, fmt.Sprint(s))
		}
		fmt.Fprintf(&b, "  status_code: [%s]\n", strings.Join(parts, ", "))
	}
	b.WriteString(`processors:
  PReq:
    processor: Filter
    parameters:
      - key: header
        value: "x-never=1"
  PRes:
    processor: Filter
    parameters:
      - key: header
        value: "x-never=1"
flow:
  request:
    - from:
        stream:
          name: globalStream
          at: start
      to:
        processor:
          name: PReq
    - from:
        processor:
          name: PReq
          condition: hit
      to:
        stream:
          name: globalStream
          at: end
    - from:
        processor:
          name: PReq
          condition: miss
      to:
        stream:
          name: globalStream
          at: end
  response:
    - from:
        stream:
          name: globalStream
          at: start
      to:
        processor:
          name: PRes
    - from:
        processor:
          name: PRes
          condition: hit
      to:
        stream:
          name: globalStream
          at: end
    - from:
        processor:
          name: PRes
          condition: miss
      to:
        stream:
          name: globalStream
          at: end
`)
	return b.String()
}

func TestEngineSelectionE2E(t *testing.T) {
	engine.Setup()
	base := os.Getenv("VERIF_SCRATCH")
	if base == "" {
		base = os.TempDir()
	}
	r := ev.New(t, "C03")
	rec := engine.Capture(0)
	defer rec.Stop()
	rapid.Check(t, func(t *rapid.T) {
		flows := genFlows().Draw(t, "flows")
		txns := rapid.SliceOfN(genTxn(flows), 1, 8).Draw(t, "txns")
		c := testCase{Flows: flows, Txns: txns, LogLevel: loglevel.Gen().Draw(t, "log level")}
		r.Class("log level " + c.LogLevel)
		r.Case()
		defer loglevel.Set(c.LogLevel)()
		dir, err := engine.NewDir(base)
		if err != nil {
			fmt.Println("VERIF-INFRA:", err)
			t.Fatalf("%v", err)
		}
		defer dir.Remove()
		for i, f := range flows {
			if err := dir.WriteFlow(fmt.Sprintf("f%d.yaml", i), f.yaml()); err != nil {
				fmt.Println("VERIF-INFRA:", err)
				t.Fatalf("%v", err)
			}
		}
		s, err := dir.Load()
		if err != nil {
			// the loader refuses two spellings of a path parameter at one position: a set that carries both may be
			// refused as a whole (if it is accepted, it is judged like any other)
			hasX, hasY := false, false
			for _, f := range flows {
				for _, sgm := range f.Segs {
					hasX, hasY = hasX || sgm == "{x}", hasY || sgm == "{y}"
				}
			}
			if hasX && hasY && strings.Contains(err.Error(), "does not match existing name") {
				r.Class("set refused for two spellings of one path parameter")
				return
			}
			fmt.Println("VERIF-INFRA: generated flows were rejected:", err)
			t.Fatalf("%v", err)
		}
		nt := false
		for ti, tx := range txns {
			rec.Take()
			et := engine.Txn{ID: fmt.Sprintf("e%d", ti), Method: tx.Method, URL: tx.url(), Path: "/" + strings.Join(tx.Segs, "/"), Query: tx.Query, Headers: tx.Headers, Status: tx.Status}
			var res engine.Result
			if tx.Response {
				res = engine.RunResponse(s, et)
			} else {
				res = engine.RunRequest(s, et)
			}
			if res.Err != nil {
				t.Fatalf("%s", r.Fail(c, "ExecuteFlow error for %v: %v", tx, res.Err))
			}
			seen := map[string]bool{}
			for _, e := range rec.Take() {
				seen[e.Flow] = true
			}
			sel := []string{}
			for n := range seen {
				sel = append(sel, n)
			}
			sort.Strings(sel)
			near := 0
			for _, f := range flows {
				if urlMatches(f, tx, 0) {
					near++
				}
				want0 := urlMatches(f, tx, 0) && constraintsHold(f, tx, false)
				want1 := urlMatches(f, tx, 1) && constraintsHold(f, tx, true) && !shadowed(f, flows, tx)
				if seen[f.Name] && !want0 {
					t.Fatalf("%s", r.Fail(c, "e2e: flow %s (pattern %s) ran for %s %s (response=%v) although its filter rejects it", f.Name, f.pattern(), tx.Method, tx.url(), tx.Response))
				}
				if !seen[f.Name] && want1 {
					t.Fatalf("%s", r.Fail(c, "e2e: flow %s (pattern %s) accepts %s %s (response=%v) but did not run (ran: %v)", f.Name, f.pattern(), tx.Method, tx.url(), tx.Response, sel))
				}
			}
			if len(sel) == 0 {
				r.Class("no-flow-ran")
				if len(res.ReqKinds)+len(res.RespKinds) != 0 {
					t.Fatalf("%s", r.Fail(c, "e2e: no filter matches %s but actions were produced: %v %v", tx.url(), res.ReqKinds, res.RespKinds))
				}
			} else {
				r.Class("some-flow-ran")
			}
			if near >= 2 {
				nt = true
			}
		}
		if nt {
			r.NonTrivial(ev.JSON(c), func() any { return c })
		}
	})
}

// Plain regression checks for the defects found on the pinned tree and repaired by fix: commits.
func TestRegressionFixedDefects(t *testing.T) {
	r := ev.New(t, "C03")
	cases := []testCase{
		// one unmatched trailing segment still selected the exact pattern
		{Flows: []flowSpec{{Name: "f0", Host: "h.com", Methods: []string{"GET"}}}, Orders: [][]int{{0}},
			Txns: []txnSpec{{Host: "h.com", Segs: []string{"a"}, Method: "GET"}}},
		// exact pattern not selected when a /* sibling exists
		{Flows: []flowSpec{{Name: "f0", Host: "h.com", Segs: []string{"a"}}, {Name: "f1", Host: "h.com", Segs: []string{"a"}, Wild: true}}, Orders: [][]int{{0, 1}, {1, 0}},
			Txns: []txnSpec{{Host: "h.com", Segs: []string{"a"}, Method: "GET"}}},
		// constraints of the first flow on the node decided for later flows
		{Flows: []flowSpec{{Name: "f0", Host: "h.com", Wild: true}, {Name: "f1", Host: "h.com", Wild: true, Methods: []string{"POST"}}}, Orders: [][]int{{0, 1}, {1, 0}},
			Txns: []txnSpec{{Host: "h.com", Segs: []string{"a"}, Method: "GET"}}},
		// exact pattern attached to the node of a wildcard sibling loaded earlier
		{Flows: []flowSpec{{Name: "f0", Host: "h.com", Wild: true}, {Name: "f1", Host: "h.com"}}, Orders: [][]int{{0, 1}, {1, 0}},
			Txns: []txnSpec{{Host: "h.com", Segs: []string{"a"}, Method: "GET"}, {Host: "h.com", Method: "GET"}}},
		// re-inserting h.com/* next to h.com/{x}/* replaced the wildcard node and dropped a flow
		{Flows: []flowSpec{{Name: "f0", Host: "h.com", Wild: true}, {Name: "f1", Host: "h.com", Wild: true}, {Name: "f2", Host: "h.com", Segs: []string{"{x}"}, Wild: true}}, Orders: [][]int{{0, 1, 2}, {2, 1, 0}},
			Txns: []txnSpec{{Host: "h.com", Segs: []string{"a", "z"}, Method: "GET"}}},
		// exact parametric pattern attached to a parent's wildcard node
		{Flows: []flowSpec{{Name: "f0", Host: "h.com", Segs: []string{"{x}", "a"}, Wild: true}, {Name: "f1", Host: "h.com", Wild: true}, {Name: "f2", Host: "h.com", Segs: []string{"{x}"}}}, Orders: [][]int{{0, 1, 2}, {2, 1, 0}},
			Txns: []txnSpec{{Host: "h.com", Segs: []string{"a", "a", "a"}, Method: "GET"}}},
		// a path wildcard matched a further host label (h.com/* selected for h.com.a)
		{Flows: []flowSpec{{Name: "f0", Host: "h.com", Wild: true}, {Name: "f1", Host: "api.h.com", Segs: []string{"{x}"}, Wild: true}}, Orders: [][]int{{0, 1}, {1, 0}},
			Txns: []txnSpec{{Host: "h.com.a", Method: "GET"}, {Host: "h.com.a", Segs: []string{"b"}, Method: "GET"}, {Host: "api.h.com.evil", Segs: []string{"a", "b"}, Method: "GET"}}},
	}
	for _, c := range cases {
		r.Case()
		r.NonTrivial(ev.JSON(c), func() any { return c })
		if _, err := check(r, c); err != nil {
			t.Fatalf("%s", r.Fail(c, "%v", err))
		}
	}
}
