package c03

// Unit TestSelectionThroughHandler: the same generated filters, but the transactions arrive the way the proxy
// sends them: as SPOE messages through routing.Handler of a real HandlingDataManager, so that the decoding of the
// message arguments is part of what is tested - in particular the `headers` argument, one text block with a line
// per header, in which a client may send a header name in any letter case and on several lines. A required header
// is judged when every reading agrees (all lines of that name carry the same value, or the name is absent);
// otherwise either selection is accepted for the flows that constrain that header.

import (
	"fmt"
	"io"
	"net"
	"net/http"
	"net/http/httptest"
	"os"
	"path/filepath"
	"sort"
	"strings"
	"sync"
	"testing"
	"time"

	"lunar/engine/routing"
	contextmanager "lunar/toolkit-core/context-manager"
	"lunar/toolkit-core/logging"

	"github.com/negasus/haproxy-spoe-go/message"
	spoekv "github.com/negasus/haproxy-spoe-go/payload/kv"
	spoereq "github.com/negasus/haproxy-spoe-go/request"
	"github.com/rs/zerolog"
	"pgregory.net/rapid"

	"verif/harness/internal/engine"
	"verif/harness/internal/ev"
)

type quietProxy struct{}

func (quietProxy) RoundTrip(req *http.Request) (*http.Response, error) {
	if req.Body != nil {
		_, _ = io.Copy(io.Discard, req.Body)
		req.Body.Close()
	}
	return &http.Response{StatusCode: 200, Status: "200 OK", Body: io.NopCloser(strings.NewReader("ok")), Header: http.Header{}, Request: req}, nil
}

var (
	hOnce    sync.Once
	hErr     error
	hRoot    string
	hMux     *http.ServeMux
	hHandler routing.MessageHandler
	hRec     *engine.Recorder
)

func handlerSetup() {
	hOnce.Do(func() {
		engine.Setup()
		base := os.Getenv("VERIF_SCRATCH")
		if base == "" {
			base = os.TempDir()
		}
		d, err := os.MkdirTemp(base, "c03mgr-")
		if err != nil {
			hErr = err
			return
		}
		hRoot = d
		for _, sub := range []string{"flows", "quotas", "path_params", "state"} {
			os.MkdirAll(filepath.Join(d, sub), 0o755)
		}
		metrics, _ := os.ReadFile(filepath.Join(engine.Repo(), "proxy/metrics.yaml"))
		os.WriteFile(filepath.Join(d, "metrics_default.yaml"), metrics, 0o644)
		for k, v := range map[string]string{
			"LUNAR_STREAMS_ENABLED":              "true",
			"TENANT_NAME":                        "verif",
			"LUNAR_PROXY_FLOW_DIRECTORY":         filepath.Join(d, "flows"),
			"LUNAR_PROXY_QUOTAS_DIRECTORY":       filepath.Join(d, "quotas"),
			"LUNAR_FLOWS_PATH_PARAM_DIR":         filepath.Join(d, "path_params"),
			"LUNAR_PROXY_CONFIG":                 filepath.Join(d, "gateway_config.yaml"),
			"LUNAR_PROXY_METRICS_CONFIG":         filepath.Join(d, "metrics_user.yaml"),
			"LUNAR_PROXY_METRICS_CONFIG_DEFAULT": filepath.Join(d, "metrics_default.yaml"),
			"DISCOVERY_STATE_LOCATION":           filepath.Join(d, "state", "discovery.json"),
			"REMEDY_STATE_LOCATION":              filepath.Join(d, "state", "remedy.json"),
			"LUNAR_FLOWS_PATH_PARAM_CONFIG":      filepath.Join(d, "state", "path_param_conf.yaml"),
		} {
			os.Setenv(k, v)
		}
		os.WriteFile(filepath.Join(d, "flows", "f0.yaml"), []byte(flowSpec{Name: "f0", Host: "h.com", Segs: []string{"a"}}.yaml()), 0o644)
		http.DefaultTransport = quietProxy{}
		if ln, err := net.Listen("tcp", "127.0.0.1:5140"); err == nil {
			go func() {
				for {
					c, err := ln.Accept()
					if err != nil {
						return
					}
					go io.Copy(io.Discard, c)
				}
			}()
		}
		hErr = func() (err error) {
			defer func() {
				if r := recover(); r != nil {
					err = fmt.Errorf("panic in manager setup: %v", r)
				}
			}()
			tw := logging.ConfigureLogger("lunar-engine", false, contextmanager.Get().GetClock())
			if os.Getenv("VERIF_LOG") == "" {
				zerolog.SetGlobalLevel(zerolog.Disabled)
			}
			data := routing.NewHandlingDataManager(10*time.Second, nil)
			if err := data.Setup(tw); err != nil {
				return err
			}
			hMux = http.NewServeMux()
			data.SetHandleRoutes(hMux)
			hHandler = routing.Handler(data)
			return nil
		}()
		hRec = engine.Capture(0)
	})
}

// wireHeaders renders the header block of a transaction; mode: 0 = one line per header, 1 = the x-k line twice
// with the same value (second time in other letter case), 2 = x-k twice with different values, 3 = the name in
// upper case.
func wireHeaders(h map[string]string, mode int) (text string, ambiguous bool) {
	lines := []string{"host: h.com"}
	names := []string{}
	for k := range h {
		names = append(names, k)
	}
	sort.Strings(names)
	for _, k := range names {
		v := h[k]
		switch {
		case k == "x-k" && mode == 1:
			lines = append(lines, "x-k: "+v, "X-K: "+v)
		case k == "x-k" && mode == 2:
			lines = append(lines, "x-k: "+v, "x-k: other")
			ambiguous = true
		case k == "x-k" && mode == 3:
			lines = append(lines, "X-K: "+v)
		default:
			lines = append(lines, k+": "+v)
		}
	}
	// the proxy's req.hdrs dump: every line ends with CRLF, and the empty line that ends the header block is included
	return strings.Join(lines, "\r\n") + "\r\n\r\n", ambiguous
}

func TestSelectionThroughHandler(t *testing.T) {
	handlerSetup()
	if hErr != nil {
		fmt.Println("VERIF-INFRA: manager setup failed:", hErr)
		t.Fatalf("%v", hErr)
	}
	r := ev.New(t, "C03")
	seq := 0
	rapid.Check(t, func(t *rapid.T) {
		flows := genFlows().Draw(t, "flows")
		txns := rapid.SliceOfN(genTxn(flows), 1, 8).Draw(t, "txns")
		modes := rapid.SliceOfN(rapid.SampledFrom([]int{0, 0, 1, 1, 2, 3}), len(txns), len(txns)).Draw(t, "header-lines")
		c := map[string]any{"flows": flows, "txns": txns, "header_line_modes": modes}
		r.Case()
		old, _ := filepath.Glob(filepath.Join(hRoot, "flows", "*.yaml"))
		for _, f := range old {
			os.Remove(f)
		}
		for i, f := range flows {
			os.WriteFile(filepath.Join(hRoot, "flows", fmt.Sprintf("f%d.yaml", i)), []byte(f.yaml()), 0o644)
		}
		rr := httptest.NewRecorder()
		hMux.ServeHTTP(rr, httptest.NewRequest(http.MethodPost, "/load_flows", nil))
		if rr.Code != 200 {
			r.Class("set refused by the loader")
			return
		}
		for ti, tx := range txns {
			if tx.Response {
				continue // the request side carries the decoding under test
			}
			text, ambiguous := wireHeaders(tx.Headers, modes[ti])
			if modes[ti] != 0 && tx.Headers["x-k"] != "" {
				r.Class("header on several lines / in another letter case")
				r.NonTrivial(ev.JSON([]any{"handler", flows, tx, modes[ti]}), func() any { return c })
			}
			seq++
			id := fmt.Sprintf("h%d", seq)
			k := spoekv.NewKV()
			k.Add("id", id)
			k.Add("sequence_id", id)
			k.Add("method", tx.Method)
			k.Add("scheme", "https")
			k.Add("url", tx.url())
			k.Add("path", "/"+strings.Join(tx.Segs, "/"))
			k.Add("query", tx.Query)
			k.Add("headers", text)
			k.Add("body", []byte(""))
			msgs := message.Messages{&message.Message{Name: "lunar-on-request", KV: k}}
			hRec.Take()
			hHandler(&spoereq.Request{Messages: &msgs})
			seen := map[string]bool{}
			for _, e := range hRec.Take() {
				seen[e.Flow] = true
			}
			sel := []string{}
			for n := range seen {
				sel = append(sel, n)
			}
			sort.Strings(sel)
			for _, f := range flows {
				if ambiguous && len(f.Headers) > 0 {
					continue
				}
				want0 := urlMatches(f, tx, 0) && constraintsHold(f, tx, false)
				want1 := urlMatches(f, tx, 1) && constraintsHold(f, tx, true) && !shadowed(f, flows, tx)
				if seen[f.Name] && !want0 {
					t.Fatalf("%s", r.Fail(c, "handler: flow %s (pattern %s) ran for %s %s with header block %q although its filter rejects it", f.Name, f.pattern(), tx.Method, tx.url(), text))
				}
				if !seen[f.Name] && want1 {
					t.Fatalf("%s", r.Fail(c, "handler: flow %s (pattern %s) accepts %s %s with header block %q but did not run (ran: %v)", f.Name, f.pattern(), tx.Method, tx.url(), text, sel))
				}
			}
		}
	})
}
