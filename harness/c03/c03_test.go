// C03 — a flow runs for a transaction exactly when its own filter accepts it.
package c03

import (
	"fmt"
	"sort"
	"strings"
	"testing"

	lunar_messages "lunar/engine/messages"
	streamconfig "lunar/engine/streams/config"
	streamfilter "lunar/engine/streams/filter"
	internaltypes "lunar/engine/streams/internal-types"
	lunar_context "lunar/engine/streams/lunar-context"
	publictypes "lunar/engine/streams/public-types"
	stream_types "lunar/engine/streams/types"

	"github.com/rs/zerolog"
	"pgregory.net/rapid"

	"verif/harness/internal/ev"
	"verif/harness/internal/loglevel"
)

func init() { zerolog.SetGlobalLevel(zerolog.Disabled) }

// ---- generated configuration -----------------------------------------------------

type kv struct {
	K string `json:"k"`
	V string `json:"v"`
}

type flowSpec struct {
	Name    string   `json:"name"`
	Host    string   `json:"host"`
	Segs    []string `json:"segs"`     // literal, or {name}
	Wild    bool     `json:"wildcard"` // trailing /*
	Methods []string `json:"methods,omitempty"`
	Headers []kv     `json:"headers,omitempty"`
	Query   []kv     `json:"query,omitempty"`
	Status  []int    `json:"status,omitempty"`
}

func (f flowSpec) pattern() string {
	p := f.Host
	for _, s := range f.Segs {
		p += "/" + s
	}
	if f.Wild {
		p += "/*"
	}
	return p
}

type txnSpec struct {
	Response bool              `json:"response,omitempty"`
	Host     string            `json:"host"`
	Segs     []string          `json:"segs"`
	Method   string            `json:"method"`
	Headers  map[string]string `json:"headers,omitempty"`
	Query    string            `json:"query,omitempty"`
	Status   int               `json:"status,omitempty"`
}

func (t txnSpec) url() string {
	u := t.Host
	for _, s := range t.Segs {
		u += "/" + s
	}
	return u
}

// stub flow: the filter tree only needs name, type and filter
type stubFlow struct {
	name   string
	filter *streamconfig.Filter
}

func (s *stubFlow) GetFilter() publictypes.FilterI                                   { return s.filter }
func (s *stubFlow) GetName() string                                                  { return s.name }
func (s *stubFlow) GetType() internaltypes.FlowType                                  { return internaltypes.UserFlow }
func (s *stubFlow) GetExecutionContext() publictypes.LunarContextI                   { return nil }
func (s *stubFlow) GetResourceManagement() publictypes.ResourceManagementI           { return nil }
func (s *stubFlow) CleanExecution()                                                  {}
func (s *stubFlow) GetDirection(publictypes.StreamType) internaltypes.FlowDirectionI { return nil }
func (s *stubFlow) GetRequestDirection() internaltypes.FlowDirectionI                { return nil }
func (s *stubFlow) GetResponseDirection() internaltypes.FlowDirectionI               { return nil }
func (s *stubFlow) IsUserFlow() bool                                                 { return true }

func (f flowSpec) build() *stubFlow {
	flt := &streamconfig.Filter{Name: f.Name, URL: f.pattern(), Method: append([]string(nil), f.Methods...), StatusCode: append([]int(nil), f.Status...)}
	for _, h := range f.Headers {
		flt.Headers = append(flt.Headers, publictypes.KeyValue{Key: h.K, Value: h.V})
	}
	for _, q := range f.Query {
		flt.QueryParams = append(flt.QueryParams, publictypes.KeyValue{Key: q.K, Value: q.V})
	}
	return &stubFlow{name: f.Name, filter: flt}
}

var shared = lunar_context.NewMemoryState[[]byte]()

func (t txnSpec) api() publictypes.APIStreamI {
	h := map[string]string{"host": t.Host}
	for k, v := range t.Headers {
		h[k] = v
	}
	if t.Response {
		return stream_types.NewResponseAPIStream(lunar_messages.OnResponse{ID: "t", SequenceID: "t", Method: t.Method, URL: t.url(), Status: t.Status, Headers: h}, shared)
	}
	return stream_types.NewRequestAPIStream(lunar_messages.OnRequest{ID: "t", SequenceID: "t", Method: t.Method, Scheme: "https", URL: t.url(), Path: "/" + strings.Join(t.Segs, "/"), Query: t.Query, Headers: h}, shared)
}

// ---- reference matcher --------------------------------------------------------------

func isParam(s string) bool { return strings.HasPrefix(s, "{") && strings.HasSuffix(s, "}") }

// urlMatches: minTail = minimum number of segments a trailing wildcard must cover
func urlMatches(f flowSpec, t txnSpec, minTail int) bool {
	if f.Host != t.Host {
		return false
	}
	if len(t.Segs) < len(f.Segs) {
		return false
	}
	for i, s := range f.Segs {
		if !isParam(s) && s != t.Segs[i] {
			return false
		}
	}
	rest := len(t.Segs) - len(f.Segs)
	if f.Wild {
		return rest >= minTail
	}
	return rest == 0
}

func parseQuery(q string) map[string][]string {
	out := map[string][]string{}
	if q == "" {
		return out
	}
	for _, p := range strings.Split(q, "&") {
		k, v, _ := strings.Cut(p, "=")
		out[k] = append(out[k], v)
	}
	return out
}

// constraintsHold: method, headers, query parameters (request side) and status codes (response side).
// strict=false is the permissive reading used for "selected => accepted": a filter without a method list accepts
// any method; strict=true (used for "accepted => selected") only requires the five documented methods.
func constraintsHold(f flowSpec, t txnSpec, strict bool) bool {
	if len(f.Methods) > 0 {
		ok := false
		for _, m := range f.Methods {
			ok = ok || m == t.Method
		}
		if !ok {
			return false
		}
	} else if strict {
		ok := false
		for _, m := range []string{"GET", "POST", "PUT", "DELETE", "PATCH"} {
			ok = ok || m == t.Method
		}
		if !ok {
			return false
		}
	}
	if !t.Response {
		byKey := map[string][]string{}
		for _, h := range f.Headers {
			byKey[h.K] = append(byKey[h.K], h.V)
		}
		for k, vals := range byKey {
			got, present := t.Headers[k]
			ok := false
			for _, v := range vals {
				ok = ok || (present && strings.EqualFold(got, v))
			}
			if !ok {
				return false
			}
		}
		q := parseQuery(t.Query)
		for _, want := range f.Query {
			vals, present := q[want.K]
			if !present || vals[0] != want.V {
				return false
			}
		}
	} else if len(f.Status) > 0 {
		ok := false
		for _, s := range f.Status {
			ok = ok || s == t.Status
		}
		if !ok {
			return false
		}
	}
	return true
}

// shadowed: some other configured pattern has a literal segment equal to the
// URL's segment at a position where f has a parameter or its wildcard tail.
func shadowed(f flowSpec, all []flowSpec, t txnSpec) bool {
	for _, o := range all {
		if o.Host != f.Host || o.pattern() == f.pattern() {
			continue
		}
		for i, s := range o.Segs {
			if isParam(s) || i >= len(t.Segs) || s != t.Segs[i] {
				continue
			}
			if (i < len(f.Segs) && isParam(f.Segs[i])) || (i >= len(f.Segs) && f.Wild) {
				return true
			}
		}
	}
	return false
}

// ---- running the real filter tree -------------------------------------------------------

type built struct {
	tree     internaltypes.FilterTreeI
	accepted map[string]bool // flows whose AddFlow succeeded
}

func buildTree(flows []flowSpec, order []int) built {
	b := built{tree: streamfilter.NewFilterTree(), accepted: map[string]bool{}}
	for _, i := range order {
		if err := b.tree.AddFlow(flows[i].build()); err == nil {
			b.accepted[flows[i].Name] = true
		}
	}
	return b
}

func selected(b built, t txnSpec) []string {
	res, found := b.tree.GetFlow(t.api())
	if !found || res == nil {
		return nil
	}
	names := []string{}
	if uf, ok := res.GetUserFlow(); ok {
		for _, f := range uf {
			names = append(names, f.GetName())
		}
	}
	sort.Strings(names)
	return names
}

func contains(xs []string, x string) bool {
	for _, y := range xs {
		if y == x {
			return true
		}
	}
	return false
}

// ---- generators -----------------------------------------------------------------------------

var segPool = []string{"a", "b", "c", "{x}"}

func genPattern() *rapid.Generator[flowSpec] {
	return rapid.Custom(func(t *rapid.T) flowSpec {
		f := flowSpec{Host: rapid.SampledFrom([]string{"h.com", "h.com", "api.h.com"}).Draw(t, "host")}
		n := rapid.IntRange(0, 3).Draw(t, "nsegs")
		for i := 0; i < n; i++ {
			f.Segs = append(f.Segs, rapid.SampledFrom(segPool).Draw(t, "seg"))
		}
		f.Wild = rapid.IntRange(0, 2).Draw(t, "wild") == 0
		return f
	})
}

var methods = []string{"GET", "POST", "PUT", "DELETE", "PATCH"}

func genFlows() *rapid.Generator[[]flowSpec] {
	return rapid.Custom(func(t *rapid.T) []flowSpec {
		pool := rapid.SliceOfN(genPattern(), 1, 3).Draw(t, "patterns")
		n := rapid.IntRange(1, 6).Draw(t, "nflows")
		out := []flowSpec{}
		for i := 0; i < n; i++ {
			f := pool[rapid.IntRange(0, len(pool)-1).Draw(t, "pat")]
			f.Segs = append([]string(nil), f.Segs...)
			// now and then a flow spells a path parameter of the shared pattern differently ({y} for {x}): the tree
			// refuses a second name at one position, so such a flow is either rejected or - if accepted - selected
			// like any other
			if rapid.IntRange(0, 7).Draw(t, "respell") == 0 {
				for k, sgm := range f.Segs {
					if sgm == "{x}" {
						f.Segs[k] = "{y}"
					}
				}
			}
			f.Name = fmt.Sprintf("f%d", i)
			if rapid.IntRange(0, 2).Draw(t, "hasMethod") == 0 {
				f.Methods = rapid.SliceOfNDistinct(rapid.SampledFrom(methods), 1, 2, rapid.ID[string]).Draw(t, "methods")
			}
			if rapid.IntRange(0, 3).Draw(t, "hasHeader") == 0 {
				f.Headers = []kv{{K: "x-k", V: rapid.SampledFrom(headerValues).Draw(t, "hv")}}
			}
			if rapid.IntRange(0, 3).Draw(t, "hasQuery") == 0 {
				// "" = a flag-style parameter: the key must be there, with an empty value ("?q=" or "?q")
				f.Query = []kv{{K: "q", V: rapid.SampledFrom([]string{"1", "2", ""}).Draw(t, "qv")}}
			}
			if rapid.IntRange(0, 3).Draw(t, "hasStatus") == 0 {
				f.Status = rapid.SliceOfNDistinct(rapid.SampledFrom([]int{200, 404, 500}), 1, 2, rapid.ID[int]).Draw(t, "status")
			}
			out = append(out, f)
		}
		return out
	})
}

func genTxn(flows []flowSpec) *rapid.Generator[txnSpec] {
	return rapid.Custom(func(t *rapid.T) txnSpec {
		base := flows[rapid.IntRange(0, len(flows)-1).Draw(t, "from")]
		tx := txnSpec{Host: base.Host}
		for _, s := range base.Segs {
			if isParam(s) {
				s = rapid.SampledFrom([]string{"a", "b", "v1", "42"}).Draw(t, "pv")
			}
			tx.Segs = append(tx.Segs, s)
		}
		switch rapid.IntRange(0, 12).Draw(t, "mut") {
		case 0:
			tx.Segs = append(tx.Segs, rapid.SampledFrom([]string{"a", "b", "z"}).Draw(t, "extra"))
		case 1:
			tx.Segs = append(tx.Segs, "a", "z")
		case 2:
			if len(tx.Segs) > 0 {
				tx.Segs = tx.Segs[:len(tx.Segs)-1]
			}
		case 3:
			if len(tx.Segs) > 0 {
				tx.Segs[rapid.IntRange(0, len(tx.Segs)-1).Draw(t, "pos")] = rapid.SampledFrom([]string{"a", "b", "c", "z"}).Draw(t, "lit")
			}
		case 4:
			tx.Segs = nil
		case 5:
			tx.Host = rapid.SampledFrom([]string{"h.com", "api.h.com", "other.org"}).Draw(t, "ohost")
		case 6:
			// another host whose name extends the configured one by a label, with the path shortened by its first
			// segment (a path parameter right behind the host must not swallow a host label), or the reverse
			if len(tx.Segs) > 0 && rapid.Bool().Draw(t, "extend") {
				tx.Host, tx.Segs = tx.Host+"."+tx.Segs[0], tx.Segs[1:]
			} else if i := strings.LastIndex(tx.Host, "."); i > 0 && strings.Count(tx.Host, ".") >= 2 {
				tx.Host, tx.Segs = tx.Host[:i], append([]string{tx.Host[i+1:]}, tx.Segs...)
			} else {
				tx.Host = "x." + tx.Host
			}
		}
		tx.Method = rapid.SampledFrom(append(methods, "GET", "GET", "HEAD")).Draw(t, "method")
		tx.Response = rapid.IntRange(0, 3).Draw(t, "resp") == 0
		if rapid.IntRange(0, 1).Draw(t, "hk") == 0 {
			tx.Headers = map[string]string{"x-k": rapid.SampledFrom(append([]string{"3"}, headerValues...)).Draw(t, "hkv")}
		}
		if !tx.Response && rapid.IntRange(0, 1).Draw(t, "q") == 0 {
			tx.Query = rapid.SampledFrom([]string{"q=1", "q=2", "q=3", "q=1", "q=2", "q=", "q"}).Draw(t, "qv")
			// further pairs next to the one the filters look at: ordinary ones, and ones a strict query parser
			// rejects (a ';' inside a value, a stray '%') although every lenient reader still finds q
			switch rapid.IntRange(0, 7).Draw(t, "qextra") {
			case 0:
				tx.Query = "page=2&" + tx.Query + "&sort=asc"
			case 1:
				tx.Query += "&fields=id;name"
			case 2:
				tx.Query = "discount=10%&" + tx.Query
			case 3:
				tx.Query += "&name=caf%C3%A9+au+lait&empty="
			}
		}
		if !tx.Response && tx.Query == "" && rapid.IntRange(0, 3).Draw(t, "q-other") == 0 {
			tx.Query = rapid.SampledFrom([]string{"page=2", "Q=1", "qq=1&page="}).Draw(t, "other") // a query string without the key q
		}
		if tx.Response {
			tx.Status = rapid.SampledFrom([]int{200, 404, 500, 201}).Draw(t, "st")
		}
		return tx
	})
}

// headerValues: required and sent header values. Values are compared without regard to letter case; the pool holds
// spellings that are equal that way although their UTF-8 lengths differ (capital sharp s, Kelvin sign, long s) next
// to ones that are not equal ("ss" is not "ß")
var headerValues = []string{"1", "2", "1", "2", "abc", "ABC", "aBc", "stra\u00dfe", "STRA\u1e9eE", "strasse", "300k", "300\u212a", "\u00e9", "\u00c9", "\u017ft", "ST"}

type testCase struct {
	Flows  []flowSpec `json:"flows"`
	Orders [][]int    `json:"orders"`
	Txns   []txnSpec  `json:"txns"`
	// LogLevel: the gateway's log level (LOG_LEVEL), output discarded; "" / "off" = logging disabled
	LogLevel string `json:"log_level,omitempty"`
}

func genOrder(n int) *rapid.Generator[[]int] {
	return rapid.Custom(func(t *rapid.T) []int {
		idx := make([]int, n)
		for i := range idx {
			idx[i] = i
		}
		return rapid.Permutation(idx).Draw(t, "order")
	})
}

// ---- property -----------------------------------------------------------------------------------

type discrepancy struct {
	kind string // S-url, S-constraint, C-missing, order, nomatch
	flow flowSpec
	txn  txnSpec
	msg  string
}

func check(r *ev.Recorder, c testCase) (nontrivial bool, err error) {
	trees := make([]built, len(c.Orders))
	for i, o := range c.Orders {
		trees[i] = buildTree(c.Flows, o)
	}
	byName := map[string]flowSpec{}
	for _, f := range c.Flows {
		byName[f.Name] = f
	}
	for _, tx := range c.Txns {
		near := 0
		for _, f := range c.Flows {
			if urlMatches(f, tx, 0) {
				near++
			}
		}
		if near >= 2 {
			nontrivial = true
		}
		var first []string
		for ti, b := range trees {
			sel := selected(b, tx)
			// the accepted set may differ between orders only through path-parameter name clashes; compare on flows accepted by all
			if ti == 0 {
				first = sel
			} else if strings.Join(first, ",") != strings.Join(sel, ",") {
				if !sameAccepted(trees[0], b) {
					r.Class("order-diff-explained-by-rejected-insert")
				} else if e := attribute(r, c, discrepancy{kind: "order", txn: tx,
					msg: fmt.Sprintf("selection depends on load order: %v with order %v, %v with order %v", first, c.Orders[0], sel, c.Orders[ti])}); e != nil {
					return nontrivial, e
				}
			}
			for _, name := range sel {
				f := byName[name]
				if !urlMatches(f, tx, 0) {
					if e := attribute(r, c, discrepancy{kind: "S-url", flow: f, txn: tx,
						msg: fmt.Sprintf("flow %s (pattern %s) selected for %s which its URL pattern does not match", name, f.pattern(), tx.url())}); e != nil {
						return nontrivial, e
					}
				} else if !constraintsHold(f, tx, false) {
					if e := attribute(r, c, discrepancy{kind: "S-constraint", flow: f, txn: tx,
						msg: fmt.Sprintf("flow %s selected although its method/header/query/status constraints reject the transaction", name)}); e != nil {
						return nontrivial, e
					}
				}
			}
			for _, f := range c.Flows {
				if !b.accepted[f.Name] {
					continue
				}
				if urlMatches(f, tx, 1) && constraintsHold(f, tx, true) && !shadowed(f, c.Flows, tx) && !contains(sel, f.Name) {
					if e := attribute(r, c, discrepancy{kind: "C-missing", flow: f, txn: tx,
						msg: fmt.Sprintf("flow %s (pattern %s) matches %s %s, no more specific literal pattern is configured, but it was not selected (selected: %v)", f.Name, f.pattern(), tx.Method, tx.url(), sel)}); e != nil {
						return nontrivial, e
					}
				}
			}
			if len(sel) == 0 {
				r.Class("no-flow-selected")
			} else {
				r.Class("some-flow-selected")
			}
		}
	}
	return nontrivial, nil
}

func sameAccepted(a, b built) bool {
	if len(a.accepted) != len(b.accepted) {
		return false
	}
	for k := range a.accepted {
		if !b.accepted[k] {
			return false
		}
	}
	return true
}

func TestFilterTreeSelection(t *testing.T) {
	r := ev.New(t, "C03")
	rapid.Check(t, func(t *rapid.T) {
		flows := genFlows().Draw(t, "flows")
		c := testCase{Flows: flows}
		k := rapid.IntRange(2, 3).Draw(t, "norders")
		for i := 0; i < k; i++ {
			c.Orders = append(c.Orders, genOrder(len(flows)).Draw(t, "order"))
		}
		c.Txns = rapid.SliceOfN(genTxn(flows), 1, 8).Draw(t, "txns")
		c.LogLevel = loglevel.Gen().Draw(t, "log level")
		r.Class("log level " + c.LogLevel)
		r.Case()
		defer loglevel.Set(c.LogLevel)()
		nt, err := check(r, c)
		if err != nil {
			t.Fatalf("%s", r.Fail(c, "%v", err))
		}
		if nt {
			r.NonTrivial(ev.JSON(c), func() any { return c })
		}
	})
}
