package c13

import (
	"fmt"
	"testing"

	"lunar/engine/config"
	sharedConfig "lunar/shared-model/config"

	"github.com/rs/zerolog"
)

func rem(name string, k int) sharedConfig.Remedy {
	r := sharedConfig.Remedy{Enabled: true, Name: name}
	switch k {
	case 0:
		r.Config.Caching = &sharedConfig.CachingConfig{}
	case 1:
		r.Config.FixedResponse = &sharedConfig.FixedResponseConfig{}
	case 2:
		r.Config.Retry = &sharedConfig.RetryConfig{}
	}
	return r
}

func TestProbe(t *testing.T) {
	zerolog.SetGlobalLevel(zerolog.Disabled)
	show := func(eps []sharedConfig.EndpointConfig, reqs ...[2]string) {
		tree, err := config.BuildEndpointPolicyTree(eps)
		if err != nil {
			fmt.Println("ERR", err)
			return
		}
		for _, q := range reqs {
			r := tree.Lookup(q[1])
			out := fmt.Sprintf("%s %s -> match=%v norm=%q params=%v", q[0], q[1], r.Match, r.NormalizedURL, r.PathParams)
			if r.Value != nil {
				if p, ok := (*r.Value)[("GET")]; ok && q[0] == "GET" {
					out += fmt.Sprintf(" policyURL=%q rem=%v", p.URL, names(p.Remedies))
				}
				if p, ok := (*r.Value)[("POST")]; ok && q[0] == "POST" {
					out += fmt.Sprintf(" policyURL=%q rem=%v", p.URL, names(p.Remedies))
				}
			}
			fmt.Println(out)
		}
	}
	ep := func(m, u string, r sharedConfig.Remedy) sharedConfig.EndpointConfig {
		return sharedConfig.EndpointConfig{URL: u, Method: m, Remedies: []sharedConfig.Remedy{r}}
	}
	fmt.Println("-- wildcard then literal")
	show([]sharedConfig.EndpointConfig{ep("GET", "h.com/*", rem("R1", 0)), ep("GET", "h.com/a", rem("R2", 1))}, [2]string{"GET", "h.com/b"}, [2]string{"GET", "h.com/a"})
	fmt.Println("-- literal then wildcard")
	show([]sharedConfig.EndpointConfig{ep("GET", "h.com/a", rem("R2", 1)), ep("GET", "h.com/*", rem("R1", 0))}, [2]string{"GET", "h.com/b"}, [2]string{"GET", "h.com/a"})
	fmt.Println("-- wildcard GET then literal POST")
	show([]sharedConfig.EndpointConfig{ep("GET", "h.com/*", rem("R1", 0)), ep("POST", "h.com/a", rem("R2", 1))}, [2]string{"POST", "h.com/b"}, [2]string{"GET", "h.com/a"})
	fmt.Println("-- param then wildcard")
	show([]sharedConfig.EndpointConfig{ep("GET", "h.com/{x}", rem("R1", 0)), ep("GET", "h.com/*", rem("R2", 1))}, [2]string{"GET", "h.com/b"}, [2]string{"GET", "h.com/b/c"})
	fmt.Println("-- greedy")
	show([]sharedConfig.EndpointConfig{ep("GET", "h.com/a/b", rem("R1", 0)), ep("GET", "h.com/{x}/c", rem("R2", 1)), ep("GET", "h.com/*", rem("R3", 2))}, [2]string{"GET", "h.com/a/c"}, [2]string{"GET", "h.com/1/c"}, [2]string{"GET", "h.com/1/d"}, [2]string{"GET", "h.com/1"}, [2]string{"GET", "h.com"})
	fmt.Println("-- name clash")
	show([]sharedConfig.EndpointConfig{ep("GET", "h.com/{x}/b", rem("R1", 0)), ep("GET", "h.com/{y}/c", rem("R2", 1))}, [2]string{"GET", "h.com/a/c"})
}

func names(rs []sharedConfig.Remedy) []string {
	o := []string{}
	for _, r := range rs {
		o = append(o, r.Name)
	}
	return o
}
